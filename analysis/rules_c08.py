"""C08 — program flow: link-by-link index bookkeeping from label definition to the driver's dispatch."""
from asm import GramEval
from astev import Str, Num, Obj, Res, tmpl_str
from lang import parse_lines
from units import run_interp_production
from insn import is_copy
from domains import Lin, lin_equal_witness
import mir as M
from driver_rules import find_parse_call, idx_local, state_switch, assigns_local, trace_value, def_of, deep_trace

EXPL = (
    "A trace argument needs these links, each decided for all inputs: R1 (assembler) a code label is bound to "
    "out.code.len() evaluated before any push of the same action; a procedure name likewise in fn_map. R2 every action "
    "path pushes at most one line, each paired with one source-map entry (so indices of the code vector and the map "
    "coincide; pairing itself is C16.R1). R3 the `procedure` production appends exactly `ret` after its contents. "
    "R4 (interpreter) call pushes current+1 and returns JMP(fn_map[name]) unmodified; ret returns JMP(popped) unmodified; a "
    "taken jump returns JMP(label.map) unmodified (C06.R7). R5 (driver) idx starts as the map value of `start`; `hlt` is "
    "appended before the loop; Interpreter::parse gets idx and the line out.code[idx]; arms: JMP(n) => idx := n, NEXT/PRINT/"
    "INT => idx+1, HALT => return, REPEAT => idx unchanged. R6 (grammar) every Code item kind may follow every other "
    "(5x5 adjacent pairs through the assembler's LR tables). NOT decided: whole-program traces (composition is argued)."
)


def run(ctx, chk):
    chk.explanation = EXPL
    P = ctx.program
    GA = ctx.gram("preprocessor")
    E = GramEval(GA)
    chk.rule("C08.R1", "labels and procedures are bound to the index of the next emitted instruction", floor=2)
    chk.rule("C08.R2", "at most one instruction per action path", floor=100)
    chk.rule("C08.R3", "a procedure ends with an implied ret", floor=1)
    chk.rule("C08.R4", "call/ret/jump targets are passed unmodified; call pushes current+1", floor=3)
    chk.rule("C08.R5", "driver index bookkeeping", floor=8)
    chk.rule("C08.R6", "any item kind may follow any other", floor=25)

    # R1
    for nt, mapname, what in (("label", "context.label_map", "label"), ("proc_def", "context.fn_map", "procedure")):
        if nt not in GA.nts:
            chk.violation("C08.R1", nt, "missing", f"nonterminal {nt} not found", GA.g["file"])
            continue
        for k, p in enumerate(GA.productions(nt)):
            label = GA.prod_label(nt, k)
            where = f"{GA.g['file']}:{p['line']}"
            found = False
            for q in E.prod_paths(nt, k):
                for i, e in enumerate(q.effects):
                    if e.kind == "map" and e.target == mapname and e.op == "insert":
                        found = True
                        val = e.args[1] if len(e.args) > 1 else None
                        if isinstance(val, Obj) and val.name == "Label":
                            typ = val.attrs.get("type") or ""
                            val = val.attrs.get("map")
                            if "CODE" not in typ:
                                chk.violation("C08.R1", label, "label-type", f"{label}: code label inserted with type {typ}", where)
                        marker = getattr(val, "marker", None)
                        pushes_before = sum(1 for x in q.effects[:i] if x.kind == "push" and x.target == "out.code")
                        if marker == "out.code.len@0" and pushes_before == 0 and isinstance(val, Num) and val.poly == {("out.code.len",): 1}:
                            chk.ok("C08.R1", label, f"{what} -> out.code.len() before any push")
                        else:
                            chk.violation("C08.R1", label, "target-not-next-index", f"{label}: the {what} is bound to `{e.arg_descs[1] if len(e.arg_descs) > 1 else '?'}`"
                                          f" ({'after a push' if pushes_before else 'not the current length of the code vector'}), so jumps/calls land on the wrong instruction", where)
            if not found:
                chk.violation("C08.R1", label, "no-binding", f"{label}: the {what} is never recorded", where)
    # R2 / R3
    for nt_data in GA.g["nonterminals"]:
        nt = nt_data["name"]
        for k, p in enumerate(nt_data["productions"]):
            ua = GA.main_user_action(p["action"])
            if ua["kind"] != "user":
                continue
            label = GA.prod_label(nt, k)
            where = f"{GA.g['file']}:{p['line']}"
            # an action that emits an instruction on one accepted path and nothing on another drops a source instruction
            # under some condition: every label bound later is then one short for that program (actions that never emit,
            # like labels, directives or `nop`, are not concerned)
            acc = [q for q in E.prod_paths(nt, k) if getattr(q, "action", None) == ua["idx"] and not any(e.kind == "error" for e in q.effects)]
            counts = [sum(1 for e in q.effects if e.kind == "push" and e.target == "out.code") for q in acc]
            if nt != "procedure" and any(c == 0 for c in counts) and any(c > 0 for c in counts):
                q0 = acc[counts.index(0)]
                chk.violation("C08.R2", label, "emits-conditionally",
                              f"{label}: the action emits its instruction on some accepted paths and nothing on others "
                              f"({'; '.join(f'{c[0]}={c[1]}' for c in q0.conds)[:160] or 'unconditional'}): the instruction is dropped there and execution does not follow the source", where)
            for q in E.prod_paths(nt, k):
                if getattr(q, "action", None) != ua["idx"]:
                    continue
                n = sum(1 for e in q.effects if e.kind == "push" and e.target == "out.code")
                if n == 0:
                    continue
                if n > 1:
                    chk.violation("C08.R2", label, f"pushes-{n}", f"{label}: {n} instructions pushed by one action: label indices recorded earlier no longer match", where)
                else:
                    chk.ok("C08.R2", label, "one push")
            if nt == "procedure":
                names = [s["name"] for s in p["symbols"]]
                # EVERY path of the closing-brace action that does not end in a diagnostic appends exactly `ret`: a label
                # placed directly before `}` is the target of jumps out of loops, so the brace must always be a return
                okp, bad = False, None
                for q in E.prod_paths(nt, k):
                    if getattr(q, "action", None) != ua["idx"] or any(e.kind == "error" for e in q.effects):
                        continue
                    pushes = [e for e in q.effects if e.kind == "push" and e.target == "out.code"]
                    if len(pushes) == 1 and isinstance(pushes[0].value, Str) and {tmpl_str(t) for t in pushes[0].value.t} == {"ret"}:
                        okp = True
                    else:
                        bad = (len(pushes), "; ".join(f"{c[0]}={c[1]}" for c in q.conds)[:200])
                if okp and bad is None and "proc_contents" in names and names.index("proc_contents") > names.index("proc_def"):
                    chk.ok("C08.R3", label, "every path pushes `ret` after proc_contents")
                elif okp and bad is not None:
                    chk.violation("C08.R3", label, "implied-ret-conditional",
                                  f"{label}: on a path ({bad[1] or 'unconditional'}) the closing brace appends {bad[0]} instructions instead of exactly `ret`: "
                                  "a jump to a label placed directly before `}` falls through into whatever follows the procedure", where)
                else:
                    chk.violation("C08.R3", label, "no-implied-ret", f"{label}: the closing brace does not append exactly `ret` after the body", where)

    # R4 interpreter
    G = ctx.gram("interpreter")
    sadt = P.find_adt("util::interpreter_util::State")
    jmp_i = [i for i, x in enumerate(sadt["variants"]) if x["name"] == "JMP"][0]
    for k, p in enumerate(G.productions("call")):
        where = f"{G.g['file']}:{p['line']}"
        I, st, v, r = run_interp_production(ctx, "call", k)
        alts = ({v.variant: v.fields} if v is not None and v.kind == "enum" and v.variant is not None else (v.alts or {})) if v is not None and v.kind == "enum" else {}
        tgt = alts.get(jmp_i, [None])[0] if alts.get(jmp_i) else None
        atoms = [a for a in I.atoms if a.startswith("fn_map[")]
        if tgt is not None and tgt.kind == "int" and atoms and is_copy(tgt, atoms[0]):
            chk.ok("C08.R4", "call:target", f"JMP({atoms[0]})")
        else:
            chk.violation("C08.R4", "call", "target-modified", f"call does not return JMP(fn_map[name]) unmodified: {tgt!r}", where)
        pushed = [e for e in I.events if e.kind == "call" and e.callee and any("push" in c for c in e.callee)]
        want = Lin.atom("current").add(Lin(1))
        okp = False
        for e in pushed:
            a = e.args[-1]
            if a.kind == "int" and a.aff is not None and lin_equal_witness(a.aff, want, I.atom_ranges())[0] == "equal":
                okp = True
        # .. and it is pushed on every path that enters the procedure: the push (or the call of a helper that pushes
        # unconditionally) dominates the construction of the JMP outcome
        cond_push = None
        if okp:
            by_name = {f_["name"]: f_ for f_ in P.fns.values()}

            def dominates_all(fn_, bb_, targets):
                c_ = M.CFG(fn_)
                return bool(targets) and all(c_.dominates(bb_, t_) for t_ in targets if t_ in c_.reach)

            def jmp_blocks(fn_):
                out_ = []
                for bi_, b_ in enumerate(fn_["blocks"]):
                    for s_ in b_.get("stmts", []):
                        if s_[0] == "assign" and s_[2][0] == "agg" and isinstance(s_[2][1], dict) and s_[2][1].get("vname") == "JMP":
                            out_.append(bi_)
                return out_

            def returns(fn_):
                return [bi_ for bi_, b_ in enumerate(fn_["blocks"]) if M.term(b_)[0] == "return"]
            good = False
            for e in pushed:
                a = e.args[-1]
                if not (a.kind == "int" and a.aff is not None and lin_equal_witness(a.aff, want, I.atom_ranges())[0] == "equal"):
                    continue
                if not any(str(c).endswith("::push") for c in e.callee):
                    continue   # a helper with `push` in its name: judged through the push inside it
                f_ = by_name.get(e.fn)
                if f_ is None:
                    continue
                jb = jmp_blocks(f_)
                if jb:
                    good = good or dominates_all(f_, e.bb, jb)
                elif dominates_all(f_, e.bb, returns(f_)):
                    # a helper that always pushes: the call of the helper must dominate the JMP in its caller
                    for c_ev in I.events:
                        if c_ev.kind == "call" and c_ev.callee and any(P.fns.get(cid, {}).get("name") == e.fn for cid in c_ev.callee):
                            fc = by_name.get(c_ev.fn)
                            if fc is not None and jmp_blocks(fc) and dominates_all(fc, c_ev.bb, jmp_blocks(fc)):
                                good = True
            if not good:
                cond_push = True
        if okp and cond_push:
            chk.violation("C08.R4", "call", "return-address-pushed-conditionally",
                          "call pushes current+1 only on some of the paths that enter the procedure (the push, or the helper that pushes, is guarded by a test): an activation "
                          "whose return index is not stacked makes a later RET resume in an outer caller", where)
        elif okp:
            chk.ok("C08.R4", "call:return-address", "call_stack.push(current + 1)")
        else:
            chk.violation("C08.R4", "call", "return-address", f"call does not push current+1 ({[repr(e.args[-1]) for e in pushed]})", where)
    for k, p in enumerate(G.productions("ret")):
        where = f"{G.g['file']}:{p['line']}"
        I, st, v, r = run_interp_production(ctx, "ret", k)
        alts = ({v.variant: v.fields} if v is not None and v.kind == "enum" and v.variant is not None else (v.alts or {})) if v is not None and v.kind == "enum" else {}
        tgt = alts.get(jmp_i, [None])[0] if alts.get(jmp_i) else None
        atoms = [a for a in I.atoms if a.startswith("popped[")]
        if tgt is not None and tgt.kind == "int" and atoms and is_copy(tgt, atoms[0]):
            chk.ok("C08.R4", "ret:target", "JMP(popped)")
        else:
            chk.violation("C08.R4", "ret", "target-modified", f"ret does not return JMP(popped value) unmodified: {tgt!r}", where)

    # R5 driver
    drv = P.find("bin", "driver::driver::CMDDriver::run")
    if drv is None:
        chk.undecided_("C08.R5", "CMDDriver::run", "driver not found")
    else:
        driver_rules(ctx, chk, drv)

    # R6 adjacency
    items = {"macro": "macro mm(a) -> stc <-", "label": "lab:", "opcode": "hlt", "procedure": "def f { hlt }", "print": "print reg", "use": "mm(ax)"}
    kinds = ["macro", "label", "opcode", "procedure", "print"]
    lines, meta = [], []
    for a in kinds:
        for b in kinds:
            def inst(kind, n):
                t = items[kind]
                return t.replace("lab", f"lab{n}").replace(" f ", f" f{n} ").replace("mm", f"mm{n}")
            lines.append(inst(a, 1) + "\n" + inst(b, 2) + "\n")
            meta.append((a, b))
    res = parse_lines(ctx.facts.gram_path("preprocessor"), lines)
    for (a, b), r, text in zip(meta, res, lines):
        if r["ok"]:
            chk.ok("C08.R6", f"{a} then {b}", "accepted")
        else:
            chk.violation("C08.R6", f"{a} then {b}", "adjacency-rejected", f"a {b} item directly after a {a} item is a syntax error: {text!r}", GA.g["file"])


def driver_rules(ctx, chk, drv):
    """the execution loop as terms (driver_rules.LoopModel): what Interpreter::parse receives, where the index starts,
    and what it becomes per outcome -- independent of how the source spells the updates"""
    from driver_rules import LoopModel, has_unknown, local_closure, looks_up_start
    from symterm import subterms, strip, show, is_plus_one
    import re
    P = ctx.program
    L = LoopModel(ctx, drv)
    span = drv["span"]
    if not L.ok:
        chk.undecided_("C08.R5", "CMDDriver::run", L.why or "loop structure not recognised")
        return
    cfg = L.F.cfg
    pb = L.pb
    # the line handed to the interpreter is out.code[idx] for the idx passed as `current`
    idxcalls = [t for t in subterms(L.line) if t[0] == "call" and re.search(r"(^|::)index>?$|Index<.*>>::index$", t[1]) and len(t[2]) >= 2]
    if any(strip(t[2][1]) == L.cur for t in idxcalls):
        chk.ok("C08.R5", "line==code[idx]", "the interpreter receives out.code[idx] and current = idx")
    elif idxcalls and not any(has_unknown(t[2][1]) for t in idxcalls):
        chk.violation("C08.R5", "CMDDriver::run", "line-index-mismatch",
                      f"the line handed to the interpreter is indexed by {show(idxcalls[0][2][1])}, not by the idx passed as `current` ({show(L.cur)})", span)
    else:
        chk.undecided_("C08.R5", "line==code[idx]", f"line argument not recognised as an indexed element: {show(L.line)}")
    # initial value: the map value of the label `start`
    lab = next((a for n, a in P.adts.items() if n.endswith("::Label")), None)
    map_i = next((i for i, f in enumerate(lab["variants"][0]["fields"]) if f[0] == "map"), None) if lab else None
    T0 = L.init

    def is_start_lookup(t):
        return t[0] == "call" and t[1].endswith("::get") and "HashMap" in t[1] and any(strip(a) == ("str", '"start"') for a in t[2][1:])
    if T0 is None:
        chk.violation("C08.R5", "CMDDriver::run", "initial-index", "the execution loop is never entered", span)
    else:
        core = strip(T0)
        looks = [t for t in subterms(T0) if is_start_lookup(t)]
        # arithmetic applied to what the lookup returned - not arithmetic that went into building the map or the text
        # the map came from (`String::with_capacity(len + 1)` inside the argument of the lookup is not index arithmetic)
        inside = set()
        for lk in looks:
            inside |= {id(x) for x in subterms(lk)}
        arith = [t for t in subterms(T0) if t[0] in ("bin", "binO", "un") and id(t) not in inside]
        if core[0] == "proj" and core[2] == ("f", map_i) and looks and not arith and \
                strip(core[1]) == ("proj", ("proj", looks[0], ("down", 1)), ("f", 0)):
            chk.ok("C08.R5", "idx0", "idx := label_map[\"start\"].map")
        elif looks and arith:
            chk.violation("C08.R5", "CMDDriver::run", "initial-index", f"idx is not initialised with the map value of `start` itself but with {show(T0)}", span)
        elif core[0] == "const":
            chk.violation("C08.R5", "CMDDriver::run", "initial-index", f"idx is initialised with the constant {core[1]}, not from the map value of `start`", span)
        elif core[0] == "proj" and core[2] == ("f", 0) and core[1][0] == "proj" and core[1][2] == ("down", 1) and core[1][1][0] == "call" \
                and (any(strip(a) == ("str", '"start"') for a in core[1][1][2])
                     or (P.by_name.get(("bin", core[1][1][1])) is not None and looks_up_start(P, P.by_name[("bin", core[1][1][1])]))):
            verdict, msg = start_helper_rule(ctx, core[1][1], map_i)
            if verdict is True:
                chk.ok("C08.R5", "idx0", msg)
            elif verdict is False:
                chk.violation("C08.R5", "CMDDriver::run", "initial-index", msg, span)
            else:
                chk.undecided_("C08.R5", "idx0", msg)
        else:
            chk.undecided_("C08.R5", "idx0", f"initial index not in a recognised closed form: {show(T0)}")
    # hlt pushed before the loop
    hl = [bi for bi, t in M.calls_in(drv) if (t[1].get("def") or "").endswith("Vec::<T, A>::push")]
    if hl and all(cfg.dominates(b, pb) for b in hl) and not any(b in L.body for b in hl):
        chk.ok("C08.R5", "hlt-appended", "a line is appended to the code vector once, before the loop")
    else:
        chk.violation("C08.R5", "CMDDriver::run", "hlt-not-appended", "the terminating hlt is not appended exactly once before the execution loop", span)
    # arms
    want = {"JMP": "payload", "NEXT": "+1", "PRINT": "+1", "INT": "+1", "REPEAT": "same", "HALT": "return"}
    for name, how in want.items():
        arm = L.arms.get(name)
        unit = f"arm:{name}"
        if arm is None:
            chk.undecided_("C08.R5", unit, "no such State variant")
            continue
        nxt = arm["next"]
        if how == "return":
            if nxt is not None:
                chk.violation("C08.R5", "CMDDriver::run", "halt-continues", "after HALT the loop can reach the interpreter again", span)
            else:
                chk.ok("C08.R5", unit, "returns")
            continue
        if nxt is None:
            # INT has exits (int 0, unsupported AH) but must have at least one path back
            chk.violation("C08.R5", "CMDDriver::run", f"{name}-never-continues", f"the {name} arm never continues the loop", span)
            continue
        if name in ("JMP", "NEXT", "REPEAT"):
            # these outcomes always continue: no path of the arm may leave the loop (only HALT, a failed print, an
            # interrupt that stops the program, or an internal error may return)
            leave = arm["returns"] + arm["exits"]
            if leave:
                chk.violation("C08.R5", "CMDDriver::run", f"{name}-arm-can-stop", f"the {name} arm can stop the program (a return/exit is reachable before the next instruction is issued): "
                              f"execution ends silently for some jump target / index", f"{drv['span'].rsplit(':', 2)[0]}:{drv['blocks'][leave[0]]['term']['line']}")
            else:
                chk.ok("C08.R5", unit + ":continues", "every path returns to the interpreter call")
        if how == "same":
            good, desc, bad = nxt == L.cur, "idx unchanged", "repeat-changes-idx"
            msg = f"the REPEAT arm modifies idx (it becomes {show(nxt)})"
        elif how == "payload":
            good, desc, bad = nxt == L.payload(arm["variant"]), "idx := n", f"{name}-update"
            msg = f"the {name} arm does not set idx to the jump target (it becomes {show(nxt)})"
            if nxt == L.cur:
                bad, msg = f"{name}-keeps-idx", f"the {name} arm returns to the interpreter without updating idx"
        else:
            good, desc, bad = is_plus_one(nxt, L.cur), "idx := idx + 1", f"{name}-update"
            msg = f"the {name} arm does not set idx to idx + 1 (it becomes {show(nxt)})"
            if nxt == L.cur:
                bad, msg = f"{name}-keeps-idx", f"the {name} arm returns to the interpreter without updating idx"
        if good:
            chk.ok("C08.R5", unit, desc)
        elif has_unknown(nxt):
            chk.undecided_("C08.R5", unit, f"index after the arm not in closed form: {show(nxt)}")
        else:
            chk.violation("C08.R5", "CMDDriver::run", bad, msg, span)


def start_helper_rule(ctx, call, map_i):
    """the index comes from the Some-payload of a local helper called with "start": the helper is analysed with V once per
    label type: for a code label it must return Some(exactly the label's map value) or None, for a data label None"""
    from program import fresh_value
    from absint import Interp, State, RefV, TopV, EnumV, Unsupported
    P = ctx.program
    name = call[1]
    fn = P.by_name.get(("bin", name)) or P.by_name.get(("lib", name))
    if fn is None:
        return None, f"initial index comes from {name}, which is not a local function"
    lt = next((a for n, a in P.adts.items() if n.endswith("::LabelType")), None)
    if lt is None:
        return None, "LabelType not found"
    res = {}
    for vi, v in enumerate(lt["variants"]):
        I = Interp(P)
        I.force_enum = {lt["name"]: vi}
        st = State()
        st.frames.append({})
        args = []
        try:
            for k in range(1, fn["argc"] + 1):
                ty = fn["locals"][k]["ty"]
                if "HashMap" in ty:
                    st.frames[0][f"a{k}"] = TopV(ty.lstrip("&"), frozenset({("label_map", 0)}), tag=("map", "label_map"))
                    args.append(RefV((0, f"a{k}", ())))
                else:
                    args.append(fresh_value(I, P, ty, f"a{k}"))
            ret = I.run_fn(fn, args, st)
        except (Unsupported, RecursionError, KeyError, IndexError, AttributeError) as e:
            return None, f"{name} not analysable: {type(e).__name__} {e}"
        res[v["name"]] = (ret, I)
    from insn import is_copy
    out = []
    for vn, (ret, I) in res.items():
        if ret is None or ret.kind != "enum":
            return None, f"{name}: result not an Option value"
        some = ret.fields if ret.variant == 1 else (ret.alts or {}).get(1) if ret.variant is None else None
        if vn == "DATA":
            if some is not None:
                return False, f"{name} can return a position for a DATA label: a data label named start is executed as code"
        else:
            if some is None:
                return False, f"{name} never returns a position for a CODE label"
            pv = some[0]
            atoms = [a for a in I.atoms if a.endswith(".map")]
            if pv.kind == "int" and any(is_copy(pv, a) for a in atoms):
                out.append(vn)
            elif pv.kind == "int" and pv.aff is not None and atoms:
                return False, f"{name} returns {pv.aff.pretty()} for a CODE label, not the label's map value"
            else:
                return None, f"{name}: returned position not in closed form ({pv!r})"
    return True, f"idx := {name.split('::')[-1]}(label_map, \"start\") = the map value of the code label (V, per label type)"
