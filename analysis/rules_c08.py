"""C08 — program flow: link-by-link index bookkeeping from label definition to the driver's dispatch."""
from asm import GramEval
from astev import Str, Num, Obj, Res, tmpl_str
from lang import parse_lines
from units import run_interp_production
from insn import is_copy
from domains import Lin, lin_equal_witness
import mir as M
from driver_rules import find_parse_call, idx_local, state_switch, assigns_local, trace_value, def_of, deep_trace

EXPL = (
    "A trace argument needs these links, each decided for all inputs: R1 (assembler) a code label is bound to "
    "out.code.len() evaluated before any push of the same action; a procedure name likewise in fn_map. R2 every action "
    "path pushes at most one line, each paired with one source-map entry (so indices of the code vector and the map "
    "coincide; pairing itself is C16.R1). R3 the `procedure` production appends exactly `ret` after its contents. "
    "R4 (interpreter) call pushes current+1 and returns JMP(fn_map[name]) unmodified; ret returns JMP(popped) unmodified; a "
    "taken jump returns JMP(label.map) unmodified (C06.R7). R5 (driver) idx starts as the map value of `start`; `hlt` is "
    "appended before the loop; Interpreter::parse gets idx and the line out.code[idx]; arms: JMP(n) => idx := n, NEXT/PRINT/"
    "INT => idx+1, HALT => return, REPEAT => idx unchanged. R6 (grammar) every Code item kind may follow every other "
    "(5x5 adjacent pairs through the assembler's LR tables). NOT decided: whole-program traces (composition is argued)."
)


def run(ctx, chk):
    chk.explanation = EXPL
    P = ctx.program
    GA = ctx.gram("preprocessor")
    E = GramEval(GA)
    chk.rule("C08.R1", "labels and procedures are bound to the index of the next emitted instruction", floor=2)
    chk.rule("C08.R2", "at most one instruction per action path", floor=100)
    chk.rule("C08.R3", "a procedure ends with an implied ret", floor=1)
    chk.rule("C08.R4", "call/ret/jump targets are passed unmodified; call pushes current+1", floor=3)
    chk.rule("C08.R5", "driver index bookkeeping", floor=8)
    chk.rule("C08.R6", "any item kind may follow any other", floor=25)

    # R1
    for nt, mapname, what in (("label", "context.label_map", "label"), ("proc_def", "context.fn_map", "procedure")):
        if nt not in GA.nts:
            chk.violation("C08.R1", nt, "missing", f"nonterminal {nt} not found", GA.g["file"])
            continue
        for k, p in enumerate(GA.productions(nt)):
            label = GA.prod_label(nt, k)
            where = f"{GA.g['file']}:{p['line']}"
            found = False
            for q in E.prod_paths(nt, k):
                for i, e in enumerate(q.effects):
                    if e.kind == "map" and e.target == mapname and e.op == "insert":
                        found = True
                        val = e.args[1] if len(e.args) > 1 else None
                        if isinstance(val, Obj) and val.name == "Label":
                            typ = val.attrs.get("type") or ""
                            val = val.attrs.get("map")
                            if "CODE" not in typ:
                                chk.violation("C08.R1", label, "label-type", f"{label}: code label inserted with type {typ}", where)
                        marker = getattr(val, "marker", None)
                        pushes_before = sum(1 for x in q.effects[:i] if x.kind == "push" and x.target == "out.code")
                        if marker == "out.code.len@0" and pushes_before == 0 and isinstance(val, Num) and val.poly == {("out.code.len",): 1}:
                            chk.ok("C08.R1", label, f"{what} -> out.code.len() before any push")
                        else:
                            chk.violation("C08.R1", label, "target-not-next-index", f"{label}: the {what} is bound to `{e.arg_descs[1] if len(e.arg_descs) > 1 else '?'}`"
                                          f" ({'after a push' if pushes_before else 'not the current length of the code vector'}), so jumps/calls land on the wrong instruction", where)
            if not found:
                chk.violation("C08.R1", label, "no-binding", f"{label}: the {what} is never recorded", where)
    # R2 / R3
    for nt_data in GA.g["nonterminals"]:
        nt = nt_data["name"]
        for k, p in enumerate(nt_data["productions"]):
            ua = GA.main_user_action(p["action"])
            if ua["kind"] != "user":
                continue
            label = GA.prod_label(nt, k)
            where = f"{GA.g['file']}:{p['line']}"
            for q in E.prod_paths(nt, k):
                if getattr(q, "action", None) != ua["idx"]:
                    continue
                n = sum(1 for e in q.effects if e.kind == "push" and e.target == "out.code")
                if n == 0:
                    continue
                if n > 1:
                    chk.violation("C08.R2", label, f"pushes-{n}", f"{label}: {n} instructions pushed by one action: label indices recorded earlier no longer match", where)
                else:
                    chk.ok("C08.R2", label, "one push")
            if nt == "procedure":
                names = [s["name"] for s in p["symbols"]]
                okp = False
                for q in E.prod_paths(nt, k):
                    pushes = [e for e in q.effects if e.kind == "push" and e.target == "out.code"]
                    if len(pushes) == 1 and isinstance(pushes[0].value, Str) and {tmpl_str(t) for t in pushes[0].value.t} == {"ret"}:
                        okp = True
                if okp and "proc_contents" in names and names.index("proc_contents") > names.index("proc_def"):
                    chk.ok("C08.R3", label, "pushes `ret` after proc_contents")
                else:
                    chk.violation("C08.R3", label, "no-implied-ret", f"{label}: the closing brace does not append exactly `ret` after the body", where)

    # R4 interpreter
    G = ctx.gram("interpreter")
    sadt = P.adts.get("util::interpreter_util::State")
    jmp_i = [i for i, x in enumerate(sadt["variants"]) if x["name"] == "JMP"][0]
    for k, p in enumerate(G.productions("call")):
        where = f"{G.g['file']}:{p['line']}"
        I, st, v, r = run_interp_production(ctx, "call", k)
        alts = ({v.variant: v.fields} if v is not None and v.kind == "enum" and v.variant is not None else (v.alts or {})) if v is not None and v.kind == "enum" else {}
        tgt = alts.get(jmp_i, [None])[0] if alts.get(jmp_i) else None
        atoms = [a for a in I.atoms if a.startswith("fn_map[")]
        if tgt is not None and tgt.kind == "int" and atoms and is_copy(tgt, atoms[0]):
            chk.ok("C08.R4", "call:target", f"JMP({atoms[0]})")
        else:
            chk.violation("C08.R4", "call", "target-modified", f"call does not return JMP(fn_map[name]) unmodified: {tgt!r}", where)
        pushed = [e for e in I.events if e.kind == "call" and e.callee and any("push" in c for c in e.callee)]
        want = Lin.atom("current").add(Lin(1))
        okp = False
        for e in pushed:
            a = e.args[-1]
            if a.kind == "int" and a.aff is not None and lin_equal_witness(a.aff, want, I.atom_ranges())[0] == "equal":
                okp = True
        if okp:
            chk.ok("C08.R4", "call:return-address", "call_stack.push(current + 1)")
        else:
            chk.violation("C08.R4", "call", "return-address", f"call does not push current+1 ({[repr(e.args[-1]) for e in pushed]})", where)
    for k, p in enumerate(G.productions("ret")):
        where = f"{G.g['file']}:{p['line']}"
        I, st, v, r = run_interp_production(ctx, "ret", k)
        alts = ({v.variant: v.fields} if v is not None and v.kind == "enum" and v.variant is not None else (v.alts or {})) if v is not None and v.kind == "enum" else {}
        tgt = alts.get(jmp_i, [None])[0] if alts.get(jmp_i) else None
        atoms = [a for a in I.atoms if a.startswith("popped[")]
        if tgt is not None and tgt.kind == "int" and atoms and is_copy(tgt, atoms[0]):
            chk.ok("C08.R4", "ret:target", "JMP(popped)")
        else:
            chk.violation("C08.R4", "ret", "target-modified", f"ret does not return JMP(popped value) unmodified: {tgt!r}", where)

    # R5 driver
    drv = P.by_name.get(("bin", "driver::driver::CMDDriver::run"))
    if drv is None:
        chk.undecided_("C08.R5", "CMDDriver::run", "driver not found")
    else:
        driver_rules(ctx, chk, drv)

    # R6 adjacency
    items = {"macro": "macro mm(a) -> stc <-", "label": "lab:", "opcode": "hlt", "procedure": "def f { hlt }", "print": "print reg", "use": "mm(ax)"}
    kinds = ["macro", "label", "opcode", "procedure", "print"]
    lines, meta = [], []
    for a in kinds:
        for b in kinds:
            def inst(kind, n):
                t = items[kind]
                return t.replace("lab", f"lab{n}").replace(" f ", f" f{n} ").replace("mm", f"mm{n}")
            lines.append(inst(a, 1) + "\n" + inst(b, 2) + "\n")
            meta.append((a, b))
    res = parse_lines(ctx.facts.gram_path("preprocessor"), lines)
    for (a, b), r, text in zip(meta, res, lines):
        if r["ok"]:
            chk.ok("C08.R6", f"{a} then {b}", "accepted")
        else:
            chk.violation("C08.R6", f"{a} then {b}", "adjacency-rejected", f"a {b} item directly after a {a} item is a syntax error: {text!r}", GA.g["file"])


def driver_rules(ctx, chk, drv):
    cfg = M.CFG(drv)
    pb, pt = find_parse_call(drv)
    idx = idx_local(drv)
    sb, arms, otherwise = state_switch(ctx, drv)
    span = drv["span"]
    if pb is None or idx is None or sb is None:
        chk.undecided_("C08.R5", "CMDDriver::run", "loop structure not recognised")
        return
    # the line handed to the interpreter is out.code[idx]
    line_arg = pt[2][-1]
    ch = deep_trace(drv, pb, line_arg)
    idx_call = [c for c in ch if c[0] == "call" and "Index" in c[1]]
    okl = False
    if idx_call:
        t = idx_call[0][2]
        b2 = next(bi for bi, tt in M.calls_in(drv) if tt is t)
        from driver_rules import origin_local
        src = origin_local(drv, b2, t[2][1][1]["l"]) if t[2][1][0] in ("copy", "move") else None
        okl = src == idx
    if okl:
        chk.ok("C08.R5", "line==code[idx]", "the interpreter receives out.code[idx] and current = idx")
    else:
        chk.violation("C08.R5", "CMDDriver::run", "line-index-mismatch", "the line handed to the interpreter is not out.code[idx] for the same idx passed as `current`", span)
    # initial value: idx = l.map from the start lookup
    inits = [(b, s) for b, s in assigns_local(drv, [b for b in cfg.reach if cfg.dominates(b, pb) and b != pb], idx)]
    oki = False
    for b, s in inits:
        if s[2][0] != "use":
            continue
        ch2 = [("place", s[2][1][1])] if s[2][1][0] in ("copy", "move") and s[2][1][1]["p"] else trace_value(drv, b, s[2][1])
        if any(c[0] == "place" and c[1]["p"] and isinstance(c[1]["p"][-1], list) and c[1]["p"][-1][0] == "f" and c[1]["p"][-1][2] == "map" for c in ch2) \
                and not any(c[0] == "rvalue" for c in ch2):
            oki = True
    if oki and len(inits) == 1:
        chk.ok("C08.R5", "idx0", "idx := label_map[\"start\"].map")
    else:
        chk.violation("C08.R5", "CMDDriver::run", "initial-index", f"idx is not initialised (only) from the map value of `start` ({len(inits)} initialisations)", span)
    # hlt pushed before the loop
    hl = [bi for bi, t in M.calls_in(drv) if (t[1].get("def") or "").endswith("Vec::<T, A>::push")]
    if hl and all(cfg.dominates(b, pb) and pb not in [] for b in hl) and not any(b in cfg.reachable_from(M.term(drv["blocks"][pb])[4]) for b in hl):
        chk.ok("C08.R5", "hlt-appended", "a line is appended to the code vector once, before the loop")
    else:
        chk.violation("C08.R5", "CMDDriver::run", "hlt-not-appended", "the terminating hlt is not appended exactly once before the execution loop", span)
    # arms
    want = {"JMP": "payload", "NEXT": "+1", "PRINT": "+1", "INT": "+1", "REPEAT": "same", "HALT": "return"}
    for name, how in want.items():
        tgt = arms.get(name, otherwise)
        region = cfg.reachable_from(tgt, avoid={sb})
        back = pb in region
        region_b = [b for b in region if pb in cfg.reachable_from(b, avoid={sb}) and b != pb]
        ass = assigns_local(drv, region_b, idx)
        unit = f"arm:{name}"
        if how == "return":
            if back:
                chk.violation("C08.R5", "CMDDriver::run", "halt-continues", "after HALT the loop can reach the interpreter again", span)
            else:
                chk.ok("C08.R5", unit, "returns")
            continue
        if not back:
            # INT has exits (int 0, unsupported AH) but must have at least one path back
            chk.violation("C08.R5", "CMDDriver::run", f"{name}-never-continues", f"the {name} arm never continues the loop", span)
            continue
        if name in ("JMP", "NEXT", "REPEAT"):
            # these outcomes always continue: no path from the arm may leave the loop (only HALT, a failed print, an
            # interrupt that stops the program, or an internal error may return)
            leave = [b for b in cfg.reachable_from(tgt, avoid={sb, pb}) if M.term(drv["blocks"][b])[0] == "return"
                     or (M.term(drv["blocks"][b])[0] == "call" and (M.term(drv["blocks"][b])[1].get("def") or "").endswith("process::exit"))]
            if leave:
                chk.violation("C08.R5", "CMDDriver::run", f"{name}-arm-can-stop", f"the {name} arm can stop the program (a return/exit is reachable before the next instruction is issued): "
                              f"execution ends silently for some jump target / index", f"{drv['span'].rsplit(':', 2)[0]}:{drv['blocks'][leave[0]]['term']['line']}")
            else:
                chk.ok("C08.R5", unit + ":continues", "every path returns to the interpreter call")
        if how == "same":
            if ass:
                chk.violation("C08.R5", "CMDDriver::run", "repeat-changes-idx", "the REPEAT arm modifies idx", span)
            else:
                chk.ok("C08.R5", unit, "idx unchanged")
            continue
        if not ass:
            chk.violation("C08.R5", "CMDDriver::run", f"{name}-keeps-idx", f"the {name} arm returns to the interpreter without updating idx", span)
            continue
        good = True
        for b, s in ass:
            rv = s[2]
            if how == "payload":
                okp = rv[0] == "use" and rv[1][0] in ("copy", "move") and any(isinstance(pp, list) and pp[0] == "down" and pp[2] == "JMP" for pp in rv[1][1]["p"])
                if not okp:
                    ch = trace_value(drv, b, rv[1]) if rv[0] == "use" else []
                    okp = any(c[0] == "place" and any(isinstance(pp, list) and pp[0] == "down" and pp[2] == "JMP" for pp in c[1]["p"]) for c in ch) and not any(c[0] == "rvalue" for c in ch)
                good &= okp
            else:
                okp = False
                if rv[0] == "use" and rv[1][0] in ("copy", "move"):
                    ch = trace_value(drv, b, rv[1])
                    for c in ch:
                        if c[0] == "rvalue" and c[1][0] == "bin" and c[1][1] in ("AddO", "Add"):
                            ops = c[1][2:]
                            consts = [o[1].get("val") for o in ops if o[0] == "const"]
                            from cfgtools import Defs, origin
                            dd_ = Defs(drv)
                            locs = []
                            for o in ops:
                                if o[0] in ("copy", "move"):
                                    oo = origin(dd_, o)
                                    # the operand is idx itself or a fresh copy of it (`idx = idx + 1` reads idx into a temporary)
                                    locs.append(oo[1] if oo[0] in ("multi", "param") else (oo[1]["l"] if oo[0] == "place" else o[1]["l"]))
                            okp = consts == [1] and locs == [idx]
                good &= okp
        if good:
            chk.ok("C08.R5", unit, "idx := n" if how == "payload" else "idx := idx + 1")
        else:
            chk.violation("C08.R5", "CMDDriver::run", f"{name}-update", f"the {name} arm does not set idx to {'the jump target' if how == 'payload' else 'idx + 1'}", span)
