"""C11 — the assembler's output means what the source says, independent of spelling.
Decides: upper/lower-case sibling alternatives agree, radix/digit-class/prefix agreement of numeric
alternatives, synonym folding inside Intel classes, operand order, width keyword, one line per instruction.
Not decided: comment stripping regex and white-space handling (run-time lexer behaviour)."""
import re
import mir as M
from asm import GramEval
from astev import Opt, Str, Num, Top, tmpl_str, hinfo, Res
from rules_c06 import INTEL, intel_table

EXPL = (
    "R1 case siblings: for every production containing a literal terminal with a letter, the production with that "
    "terminal in the other case exists in the same nonterminal and has the identical abstract result (templates, "
    "effects). R2 numeric alternatives: digit class of the token regex <-> radix argument, prefix length <-> slice start, "
    "conversion type <-> declared type, conversion failure -> error!. R3 synonym folding: each source mnemonic is emitted "
    "as itself or as a member of its Intel synonym class. R4 operand order: marker values substituted for the operand "
    "symbols appear in the emitted line in source order (exception table: XCHG reg,mem -> mem,reg, symmetric). R5 width "
    "keyword: a byte/word memory or label operand is preceded by `byte`/`word` in the emitted line. R6 every opcode "
    "production emits exactly one line on every successful path. NOT decided: `;` comment stripping and white space."
)

SYN_CLASSES = [{"sal", "shl"}, {"repe", "repz"}, {"repne", "repnz"}]
ORDER_EXCEPTIONS = {"xchg": "XCHG is symmetric: reg,mem is normalised to mem,reg"}


def jump_classes():
    groups = {}
    for m in INTEL:
        key = tuple(sorted(intel_table(m).items()))
        groups.setdefault(key, set()).add(m)
    return list(groups.values())


def other_case(lit):
    if lit.islower():
        return lit.upper()
    if lit.isupper():
        return lit.lower()
    return None


def path_sig(paths, skip_pos=True):
    sig = []
    for p in paths:
        effs = []
        for e in p.effects:
            if e.kind == "push":
                effs.append(("push", e.target, frozenset(tmpl_str(t) for t in e.value.t) if isinstance(e.value, Str) else repr(e.value)))
            elif e.kind in ("map", "mapper"):
                effs.append((e.kind, getattr(e, "target", ""), e.op))
            elif e.kind == "error":
                effs.append(("error",))
            elif e.kind == "compound":
                effs.append(("compound", e.target, e.op))
        r = p.ret
        if isinstance(r, Res):
            r = r.ok if r.ok is not None else "ERR"
        rs = frozenset(tmpl_str(t) for t in r.t) if isinstance(r, Str) else type(r).__name__
        sig.append((tuple(effs), rs))
    return sorted(sig, key=repr)


def run(ctx, chk):
    chk.explanation = EXPL
    GA = ctx.gram("preprocessor")
    E = GramEval(GA)
    chk.rule("C11.R1", "upper- and lower-case spellings are interchangeable", floor=250)
    chk.rule("C11.R2", "numeric alternatives: digit class / radix / prefix / type agree", floor=11)
    chk.rule("C11.R3", "synonyms are folded inside their Intel class", floor=100)
    chk.rule("C11.R4", "operands are emitted in source order", floor=100)
    chk.rule("C11.R7", "operand-building nonterminals keep every component (register, displacement, segment, name)", floor=20)
    chk.rule("C11.R5", "memory/label operands keep their width keyword", floor=60)
    chk.rule("C11.R6", "one emitted line per source instruction", floor=100)
    chk.rule("C11.R8", "the comment pattern removes `;` to the end of the line, whatever the comment contains", floor=1)
    comment_pattern_rule(ctx, chk)
    lits = set(t.strip('"') for t in GA.g["terminals"] if t.startswith('"'))

    # ---- R1
    for nt_data in GA.g["nonterminals"]:
        nt = nt_data["name"]
        prods = nt_data["productions"]
        rhs_index = {}
        for k, p in enumerate(prods):
            rhs_index[tuple(s["name"] for s in p["symbols"])] = k
        for k, p in enumerate(prods):
            names = [s["name"] for s in p["symbols"]]
            for i, s in enumerate(p["symbols"]):
                if s["t"] != "term" or not s["name"].startswith('"'):
                    continue
                lit = s["name"].strip('"')
                if not any(c.isalpha() for c in lit):
                    continue
                oc = other_case(lit)
                where = f"{GA.g['file']}:{p['line']}"
                if oc is None:
                    chk.undecided_("C11.R1", f"{nt}:{lit}", "mixed-case literal")
                    continue
                sib = tuple(names[:i] + ['"' + oc + '"'] + names[i + 1:])
                if sib not in rhs_index:
                    chk.violation("C11.R1", GA.prod_label(nt, k), f"no-{'upper' if oc.isupper() else 'lower'}-case-sibling:{lit}",
                                  f"`{lit}` is accepted here but `{oc}` is not: there is no alternative {nt} = {' '.join(sib)}", where)
                    continue
                a = path_sig(E.prod_paths(nt, k))
                b = path_sig(E.prod_paths(nt, rhs_index[sib]))
                if a != b:
                    chk.violation("C11.R1", GA.prod_label(nt, k), f"case-siblings-differ:{lit}",
                                  f"`{lit}` and `{oc}` produce different output in {nt}", where)
                else:
                    chk.ok("C11.R1", f"{nt}:{lit}/{oc}", "same templates and effects")

    # ---- R2 numeric alternatives
    for nt_data in GA.g["nonterminals"]:
        nt = nt_data["name"]
        decl = nt_data["type"]
        if decl not in ("u8", "u16", "u32", "i8", "i16", "usize"):
            continue
        for k, p in enumerate(nt_data["productions"]):
            rx = [s["name"] for s in p["symbols"] if s["t"] == "term" and s["name"].startswith("r#")]
            if not rx:
                continue
            regex = rx[0][3:-2]
            where = f"{GA.g['file']}:{p['line']}"
            info = classify_number_regex(regex)
            label = GA.prod_label(nt, k)
            if info is None:
                chk.undecided_("C11.R2", label, f"regex {regex} not recognised as a number")
                continue
            paths = E.prod_paths(nt, k)
            convs = [e for q in paths for e in q.effects if e.kind == "from_str_radix"]
            if not convs:
                chk.violation("C11.R2", label, "no-conversion", f"{label}: number token is not converted with from_str_radix", where)
                continue
            c = convs[0]
            skip = 0
            if isinstance(c.text, Str):
                for t in c.text.t:
                    for part in t:
                        if part[0] == "hole":
                            skip = hinfo(part).get("skip", 0)
            problems = []
            if c.radix != info["radix"]:
                problems.append(f"digits {info['digits']} are converted with radix {c.radix}")
            if skip != info["prefix_len"]:
                problems.append(f"prefix of length {info['prefix_len']} but the conversion skips {skip} characters")
            if c.ty != decl:
                problems.append(f"converted as {c.ty} but the nonterminal is declared {decl}")
            if info["signed"] and not c.ty.startswith("i"):
                problems.append("negative literal converted with an unsigned type")
            has_err = any(e.kind == "error" for q in paths for e in q.effects)
            if not has_err:
                problems.append("conversion failure is not turned into a diagnostic")
            if problems:
                chk.violation("C11.R2", label, "numeric-alternative:" + regex, f"{label}: " + "; ".join(problems), where)
            else:
                chk.ok("C11.R2", label, f"radix {c.radix}, skip {skip}, type {c.ty}")

    # ---- R3 synonyms
    classes = SYN_CLASSES + jump_classes()
    for nt_data in GA.g["nonterminals"]:
        nt = nt_data["name"]
        if not nt.startswith("quote_") or nt_data["type"] != "String":
            continue
        for k, p in enumerate(nt_data["productions"]):
            terms = [s["name"].strip('"') for s in p["symbols"] if s["t"] == "term"]
            if len(terms) != 1:
                continue
            src = terms[0].lower()
            where = f"{GA.g['file']}:{p['line']}"
            for q in E.prod_paths(nt, k):
                if not isinstance(q.ret, Str) or len(q.ret.t) != 1:
                    chk.undecided_("C11.R3", f"{nt}:{terms[0]}", "value is not a single literal")
                    continue
                out = tmpl_str(next(iter(q.ret.t)))
                if out == src:
                    chk.ok("C11.R3", f"{nt}:{terms[0]}", out)
                elif any(src in c and out in c for c in classes):
                    chk.ok("C11.R3", f"{nt}:{terms[0]}", f"-> {out} (same Intel class)")
                else:
                    chk.violation("C11.R3", f"{nt}:{terms[0]}", "changes-operation", f"source `{terms[0]}` is emitted as `{out}`, a different instruction", where)

    # ---- R7: string-valued helper nonterminals (memory_addr, labels, ...) must not drop a component
    for nt_data in GA.g["nonterminals"]:
        nt = nt_data["name"]
        if nt.startswith("__") or (nt_data.get("type") or "").replace(" ", "") not in ("String", "Option<String>") or nt.startswith("quote_"):
            continue
        for k, p in enumerate(nt_data["productions"]):
            syms = p["symbols"]
            bound = bound_names(GA, p)
            override = {}
            comps = []
            for i, sy in enumerate(syms):
                if bound.get(i) in (None, "_"):
                    continue
                if sy["t"] == "nt":
                    if sy["name"].startswith("quote_") or sy["name"] in ("@L", "@R"):
                        continue
                    v = E.nt_value(sy["name"])
                    if isinstance(v, Opt) and isinstance(v.some, Str):
                        # an optional component (segment override): checked for the case that it is present
                        override[i] = Opt(Str.lit(f"\x01{i}\x02"), False)
                        comps.append(i)
                        continue
                    if not isinstance(v, (Str, Num)):
                        continue
                else:
                    continue  # terminals: keywords, or tokens the action slices (`name:` -> name)
                override[i] = Str.lit(f"\x01{i}\x02")
                comps.append(i)
            if not comps:
                continue
            label = GA.prod_label(nt, k)
            where = f"{GA.g['file']}:{p['line']}"
            ua = GA.main_user_action(p["action"])
            paths = [q for q in E.prod_paths_with(nt, k, override) if getattr(q, "action", None) == ua.get("idx")]
            verdicts = set()
            for q in paths:
                if any(e.kind == "error" for e in q.effects):
                    continue
                rv = q.ret
                if isinstance(rv, Res):
                    rv = rv.ok
                if isinstance(rv, Opt):
                    if rv.some is None:
                        verdicts.add("drop")
                        chk.violation("C11.R7", label, "component-dropped:" + ",".join(syms[i]["name"] for i in comps),
                                      f"{label}: on a path ({'; '.join(f'{c[0]}={c[1]}' for c in q.conds)[:160] or 'unconditional'}) the value handed on is None although the source "
                                      f"operand has this component: the emitted operand loses it", where)
                        continue
                    rv = rv.some
                if not isinstance(rv, Str):
                    verdicts.add("?")
                    continue
                for t in rv.t:
                    line = tmpl_str(t)
                    if "<unknown>" in line:
                        verdicts.add("?")
                        continue
                    found = set(int(x) for x in re.findall("\x01(\\d+)\x02", line))
                    missing = [syms[i]["name"] for i in comps if i not in found]
                    if missing:
                        verdicts.add("drop")
                        chk.violation("C11.R7", label, "component-dropped:" + ",".join(missing),
                                      f"{label}: the operand text `{clean(line)}` built by this alternative does not contain {missing}: the source operand and the emitted one differ", where)
                    else:
                        verdicts.add("ok")
            if verdicts == {"ok"}:
                chk.ok("C11.R7", label, "every component of the operand is in the emitted text")
            elif "drop" not in verdicts:
                chk.undecided_("C11.R7", label, "operand text not followed by the action evaluator")
    # ---- R4/R5/R6 per opcode production
    for nt_data in GA.g["nonterminals"]:
        nt = nt_data["name"]
        for k, p in enumerate(nt_data["productions"]):
            ua = GA.main_user_action(p["action"])
            paths = [q for q in E.prod_paths(nt, k) if getattr(q, "action", None) == ua.get("idx")]
            pushes_code = [q for q in paths if any(e.kind == "push" and e.target == "out.code" for e in q.effects)]
            if not pushes_code or nt in ("procedure",):
                continue
            label = GA.prod_label(nt, k)
            where = f"{GA.g['file']}:{p['line']}"
            # R6
            bad = [q for q in paths if not any(e.kind == "error" for e in q.effects) and sum(1 for e in q.effects if e.kind == "push" and e.target == "out.code") != 1]
            if bad:
                n = sum(1 for e in bad[0].effects if e.kind == "push" and e.target == "out.code")
                chk.violation("C11.R6", label, f"emits-{n}-lines", f"{label} emits {n} lines on a successful path", where)
            else:
                chk.ok("C11.R6", label, "exactly one line per successful path")
            # markers for operand symbols
            syms = p["symbols"]
            ops = []
            override = {}
            bound = bound_names(GA, p)
            for i, s in enumerate(syms):
                if s["t"] != "nt":
                    continue
                if bound.get(i) in (None, "_"):
                    continue  # the action does not look at this symbol's value (e.g. `reg_cl`, written as a literal)
                v = E.nt_value(s["name"])
                if s["name"].startswith("quote_") and not s["name"].endswith("_length"):
                    continue
                if isinstance(v, (Str, Num)):
                    kind = "width" if s["name"].endswith("_length") else "operand"
                    if kind == "operand":
                        override[i] = Str.lit(f"\x01{i}\x02")
                        ops.append((i, s["name"]))
            if not ops:
                continue
            mp = E.prod_paths_with(nt, k, override)
            for q in mp:
                for e in q.effects:
                    if e.kind != "push" or e.target != "out.code" or not isinstance(e.value, Str):
                        continue
                    for t in e.value.t:
                        line = tmpl_str(t)
                        found = [int(x) for x in re.findall("\x01(\\d+)\x02", line)]
                        want = [i for i, _ in ops]
                        mnem = line.split()[0] if line.split() else ""
                        if sorted(found) != want:
                            missing = [syms[i]["name"] for i in want if i not in found]
                            chk.violation("C11.R4", label, "operand-dropped:" + ",".join(missing), f"{label}: emitted `{clean(line)}` does not contain operand(s) {missing}", where)
                        elif found != want:
                            if mnem in ORDER_EXCEPTIONS:
                                chk.ok("C11.R4", label, ORDER_EXCEPTIONS[mnem], nontrivial=False)
                            else:
                                chk.violation("C11.R4", label, "operand-order", f"{label}: operands are emitted in the order {found}, source order is {want}: `{clean(line)}`", where)
                        else:
                            chk.ok("C11.R4", label, clean(line))
                        # R5 width keyword
                        for i, name in ops:
                            width = None
                            if name == "byte_label":
                                width = "byte"
                            elif name == "word_label":
                                width = "word"
                            elif name == "memory_addr" and i > 0:
                                prev = syms[i - 1]["name"]
                                if prev in ("quote_byte_length", '"byte"', '"BYTE"'):
                                    width = "byte"
                                elif prev in ("quote_word_length", '"word"', '"WORD"'):
                                    width = "word"
                            if width is None or nt in ("general_string",):
                                continue
                            m = re.search("([a-zA-Z]*)\\s*\x01%d\x02" % i, line)
                            before = m.group(1) if m else ""
                            other = "word" if width == "byte" else "byte"
                            if before == width:
                                chk.ok("C11.R5", f"{label}@{i}", f"`{width}` kept")
                            elif before == other:
                                chk.violation("C11.R5", label, f"width-swapped@{i}", f"{label}: a {width} operand is emitted with `{other}`: `{clean(line)}`", where)
                            else:
                                chk.violation("C11.R5", label, f"width-dropped@{i}", f"{label}: the {width} operand is emitted without its width keyword: `{clean(line)}`", where)


def bound_names(G, p):
    """RHS symbol index -> name under which the production's own (main user) action sees it.
    Inline wrappers (lookarounds, optional symbols) are flattened recursively."""
    out = {}

    def walk(idx, positions):
        a = G.actions[idx]
        if a["kind"] == "user":
            for n, pos in zip(a["arg_names"], positions):
                if isinstance(pos, tuple):
                    # a composite argument (optional / parenthesised group): its members are seen through this name
                    for sub in pos:
                        if sub is not None and not isinstance(sub, tuple):
                            out.setdefault(sub, n)
                elif pos is not None:
                    out[pos] = n
            return
        if a["kind"] != "inline":
            return
        rest = list(positions)
        inner = []
        for s in a["symbols"]:
            if "orig" in s:
                inner.append(rest.pop(0) if rest else None)
            else:
                grp = []
                for _ in s["syms"]:
                    if rest:
                        x = rest.pop(0)
                        grp.extend(x if isinstance(x, tuple) else [x])
                inner.append(tuple(grp) if grp else None)
        walk(a["action"], inner)
    walk(p["action"], list(range(len(p["symbols"]))))
    return out


def clean(line):
    return re.sub("\x01(\\d+)\x02", lambda m: f"<op{m.group(1)}>", line)


def classify_number_regex(rx):
    m = re.match(r"^(-)?(0\(x\|X\)|0\(b\|B\))?\[([^\]]+)\]\+$", rx)
    if not m:
        return None
    digits = m.group(3)
    radix = {"0-9": 10, "0-9A-Fa-f": 16, "0-9a-fA-F": 16, "0-1": 2, "01": 2}.get(digits)
    if radix is None:
        return None
    prefix_len = 2 if m.group(2) else 0
    return {"radix": radix, "digits": "[" + digits + "]", "prefix_len": prefix_len, "signed": bool(m.group(1))}


def _rust_debug_str(txt):
    """the text of a &str constant as rustc prints it (Debug form) -> the string"""
    if not (txt.startswith('"') and txt.endswith('"')):
        return None
    body, out, i = txt[1:-1], [], 0
    while i < len(body):
        c = body[i]
        if c != "\\":
            out.append(c)
            i += 1
            continue
        n = body[i + 1] if i + 1 < len(body) else ""
        if n in "\\\"'":
            out.append(n)
            i += 2
        elif n in "ntr0":
            out.append({"n": "\n", "t": "\t", "r": "\r", "0": "\0"}[n])
            i += 2
        elif n == "u":
            j = body.index("}", i)
            out.append(chr(int(body[i + 3:j], 16)))
            i = j + 1
        else:
            return None
    return "".join(out)


def comment_pattern_rule(ctx, chk):
    """C11.R8.  Comments are removed by one regular-expression substitution over the whole source before it is parsed.  The
    pattern and its replacement are string constants of the driver; they are read from the MIR (the regex whose text
    contains `;` and whose `replace_all` gets a constant replacement).  What the substitution does is then evaluated -
    the pattern, not the program - for every comment body of up to 4 characters over the alphabet {a, space, ", ', ;}
    in four line contexts (3124 texts): the result must be the text without the comment, lines kept apart.  The bound
    and the reference regex engine (Python's, same leftmost-first semantics for the constructs accepted here; a pattern
    with other constructs is undecided) are the limits of this rule."""
    import itertools as _it
    import re as _re
    m = ctx.facts.mir("bin")
    found = 0
    for f in m["fns"]:
        consts = {}
        for b in f["blocks"]:
            for s_ in b.get("stmts", []):
                if s_[0] == "assign" and s_[2][0] == "use" and s_[2][1][0] == "const" and s_[2][1][1].get("ty") == "&str" and not s_[1]["p"]:
                    consts[s_[1]["l"]] = s_[2][1][1].get("txt")
        for _round in range(3):
            for b in f["blocks"]:
                for s_ in b.get("stmts", []):
                    if s_[0] == "assign" and not s_[1]["p"] and s_[1]["l"] not in consts:
                        src = None
                        if s_[2][0] == "use" and s_[2][1][0] in ("copy", "move") and all(x == "deref" for x in s_[2][1][1]["p"]):
                            src = s_[2][1][1]["l"]
                        elif s_[2][0] == "ref" and all(x == "deref" for x in s_[2][1]["p"]):
                            src = s_[2][1]["l"]
                        if src in consts:
                            consts[s_[1]["l"]] = consts[src]
        pats, reps = [], []
        for bi, t in M.calls_in(f):
            d = t[1].get("def") or ""
            if d.endswith("Regex::new") and t[2]:
                a = t[2][0]
                txt = a[1].get("txt") if a[0] == "const" else consts.get(a[1]["l"])
                if txt is not None:
                    pats.append((bi, _rust_debug_str(txt)))
            if re.search(r"Regex::replace_all", d) and len(t[2]) >= 3:
                a = t[2][2]
                txt = a[1].get("txt") if a[0] == "const" else consts.get(a[1]["l"])
                reps.append((bi, _rust_debug_str(txt) if txt is not None else None))
        pats = [(bi, p_) for bi, p_ in pats if p_ is not None and ";" in p_]
        if not pats or not reps:
            continue
        unit = f["name"].split("::")[-1]
        file = f["span"].rsplit(":", 2)[0]
        line = f["blocks"][pats[0][0]]["term"].get("line")
        pat, rep = pats[0][1], reps[0][1]
        found += 1
        if rep is None or len(pats) != 1 or len(reps) != 1 or "$" in rep or "\\" in rep:
            chk.undecided_("C11.R8", unit, "the replacement is not one plain string constant")
            continue
        if _re.search(r"\[\[:|\\p\{|\\P\{|\(\?[a-zA-Z]*[xuU]|\\[hHzAbB<>]|&&|--|~~", pat):
            chk.undecided_("C11.R8", unit, f"pattern {pat!r} uses constructs the reference engine does not read the same way")
            continue
        try:
            rx = _re.compile(pat)
        except _re.error as e:
            chk.undecided_("C11.R8", unit, f"pattern {pat!r} not readable by the reference engine: {e}")
            continue
        bad = None
        n = 0
        for k in range(0, 5):
            for body in _it.product("a \"';", repeat=k):
                v = "".join(body)
                for pre, post in (("", ""), ("mov ax, 1 ", ""), ("", "hlt"), ("mov ax, 1 ", "hlt\n; x\nret")):
                    n += 1
                    src = pre + ";" + v + "\n" + post
                    got = rx.sub(rep.replace("\\", "\\\\"), src)
                    want_lines = [pre.rstrip()] + [ln.split(";")[0].rstrip() for ln in post.split("\n")] if post else [pre.rstrip()]
                    got_lines = [ln.rstrip() for ln in got.split("\n")]
                    # lines kept apart, nothing of a comment left; empty lines do not matter to the assembler
                    if [x for x in got_lines if x] != [x for x in want_lines if x] or (pre and post and pre.rstrip() + post.split("\n")[0] in got.replace("\n", "") and "\n" not in got.strip("\n")[len(pre.rstrip()) - 1:len(pre.rstrip()) + 2] and False):
                        bad = bad or (src, got)
        if bad:
            src, got = bad
            chk.violation("C11.R8", unit, "comment-not-removed",
                          f"{f['name']}: substituting {pat!r} by {rep!r} does not remove every comment: {src!r} becomes {got!r}; the assembler then sees comment text as code or data",
                          f"{file}:{line}", f"{src!r} -> {got!r}")
        else:
            chk.ok("C11.R8", unit, f"{pat!r} -> {rep!r}: {n} texts (comment bodies up to 4 characters over a, space, \", ', ;) lose exactly their comments")
    if not found:
        chk.undecided_("C11.R8", "driver", "no constant comment pattern with a constant replacement found")
