"""Verdict bookkeeping, known-findings matching, evidence writing."""
import json
import os
import sys
import time

VERIF = os.path.dirname(os.path.dirname(os.path.abspath(__file__)))
KNOWN = os.path.join(VERIF, "known_findings.tsv")
EVID = os.environ.get("VERIF_EVIDENCE_DIR") or os.path.join(VERIF, "evidence")


def load_known():
    findings = {}
    fixed = []
    if os.path.exists(KNOWN):
        for line in open(KNOWN):
            line = line.rstrip("\n")
            if not line or line.startswith("#"):
                continue
            parts = line.split("\t")
            if parts[0] == "finding" and len(parts) >= 4:
                findings[(parts[1], parts[2])] = parts[3]
            elif parts[0] == "fixed" and len(parts) >= 4:
                fixed.append(parts[1:])
    return findings, fixed


class Rule:
    def __init__(self, rid, text):
        self.id = rid
        self.text = text
        self.instances = 0
        self.proved = 0
        self.violated = 0
        self.undecided = 0
        self.vacuous = 0
        self.floor = 0
        self.samples = []


class Check:
    def __init__(self, pid, tier="quick", seed=0):
        self.pid = pid
        self.tier = tier
        self.seed = seed
        self.t0 = time.time()
        self.rules = {}
        self.violations = []  # dict(key, rule, unit, detail, msg, where, witness)
        self.undecided = []
        self.notes = []
        self.assumptions = []
        self.explanation = ""
        self.incomplete = None
        self.extra = {}
        self.distinct = set()

    # -- declaring rules and recording verdicts --------------------------------------------
    def rule(self, rid, text, floor=0):
        """floor: the number of instances confirmed by hand on the pinned tree.  The check fails closed (exit 2) when a
        rule sees fewer than its *effective* floor: small floors (structural anchors, <= 5) are exact; larger ones count
        grammar alternatives or call sites, which a behaviour-preserving merge of alternatives legitimately reduces,
        so they tolerate a loss of 40% -- a rule that lost more than that has most likely lost its anchor."""
        r = Rule(rid, text)
        r.declared_floor = floor
        r.floor = floor if floor <= 5 else max(5, int(floor * 0.6))
        self.rules[rid] = r
        return r

    def ok(self, rid, unit, sample=None, nontrivial=True):
        r = self.rules[rid]
        r.instances += 1
        r.proved += 1
        if nontrivial:
            self.distinct.add((rid, unit))
        else:
            r.vacuous += 1
        if sample is not None and len(r.samples) < 3:
            r.samples.append({"unit": unit, "verdict": "holds", "detail": sample})

    def undecided_(self, rid, unit, why):
        r = self.rules[rid]
        r.instances += 1
        r.undecided += 1
        self.undecided.append({"rule": rid, "unit": unit, "why": why})

    def violation(self, rid, unit, detail, msg, where="", witness=None):
        r = self.rules[rid]
        r.instances += 1
        r.violated += 1
        self.distinct.add((rid, unit))
        key = f"{rid}|{unit}|{detail}"
        for v in self.violations:
            if v["key"] == key:
                return
        self.violations.append({"key": key, "rule": rid, "unit": unit, "detail": detail, "msg": msg,
                                "where": where, "witness": witness})
        if len(r.samples) < 4:
            r.samples.append({"unit": unit, "verdict": "VIOLATED", "detail": msg, "where": where})

    def incomplete_(self, rid, msg):
        self.incomplete = (rid, msg)

    # -- finish ---------------------------------------------------------------------------
    def finish(self):
        known, fixed = load_known()
        # floors: fail closed when a rule saw fewer instances than confirmed by hand
        for r in self.rules.values():
            if r.instances < r.floor and self.incomplete is None:
                self.incomplete = (r.id, f"seen={r.instances} floor={r.floor}")
        new = []
        listed = []
        for v in self.violations:
            if (self.pid, v["key"]) in known:
                listed.append((v, known[(self.pid, v["key"])]))
            else:
                new.append(v)
        os.makedirs(EVID, exist_ok=True)
        replay_dir = os.path.join(EVID, "replay")
        if os.path.isdir(replay_dir):
            for f in os.listdir(replay_dir):
                if f.startswith(self.pid + "-"):
                    os.remove(os.path.join(replay_dir, f))
        for v, what in listed:
            print(f"KNOWN-FINDING: property={self.pid} {what}  [{v['key']}]")
        rc = 0
        if new:
            os.makedirs(replay_dir, exist_ok=True)
            for i, v in enumerate(new):
                path = os.path.join(replay_dir, f"{self.pid}-{i}.json")
                with open(path, "w") as fh:
                    json.dump({"property": self.pid, **v}, fh, indent=1, default=str)
                print(f"  rule {v['rule']} unit {v['unit']}: {v['msg']}  at {v['where']}")
                if v.get("witness"):
                    print(f"    witness: {v['witness']}")
                print(f"VIOLATION property={self.pid} replay={path}")
            rc = 1
        if self.incomplete is not None and rc == 0:
            print(f"ANALYSIS-INCOMPLETE rule={self.incomplete[0]} {self.incomplete[1]}")
            rc = 2
        self.write_evidence(listed, new)
        return rc

    def write_evidence(self, listed, new):
        obligations = sum(r.instances for r in self.rules.values())
        discharged = sum(r.proved for r in self.rules.values())
        rules = []
        samples = []
        for r in self.rules.values():
            rules.append({"id": r.id, "decides": r.text, "instances": r.instances, "proved": r.proved,
                          "violated": r.violated, "undecided": r.undecided, "vacuous": r.vacuous, "floor": r.floor})
            samples.extend({"rule": r.id, **s} for s in r.samples)
        ev = {
            "property_id": self.pid,
            "tier": self.tier,
            "seed": self.seed,
            "level": "other",
            "coverage": {
                "explanation": self.explanation,
                "evaluations": max(obligations, 1),
                "distinct_nontrivial": len(self.distinct),
                "rule": "one evaluation = one rule instance (rule x analysed unit: function, production, call site, "
                        "template); non-trivial = the instance exercised a real verdict (not vacuous, not an "
                        "unknown/top abstract value); distinct = distinct (rule, unit) pairs",
                "samples": samples[:24] or [{"note": "no instance"}],
                "obligations": obligations,
                "discharged": discharged,
                "violated_known": len(listed),
                "violated_new": len(new),
                "undecided": sum(r.undecided for r in self.rules.values()),
                "rules": rules,
                "known_findings": [{"key": v["key"], "what": what} for v, what in listed],
                "undecided_list": self.undecided[:60],
                "incomplete": self.incomplete is not None,
                "exhaustive": bool(self.extra.get("exhaustive", False)),
                **{k: v for k, v in self.extra.items() if k != "exhaustive"},
            },
            "assumptions": self.assumptions,
            "wall_s": round(time.time() - self.t0, 3),
            "violations": len(new),
        }
        with open(os.path.join(EVID, f"{self.pid}.json"), "w") as fh:
            json.dump(ev, fh, indent=1, default=str)
