"""Shared context of one check run."""
from facts import Facts
from program import Program


class Ctx:
    def __init__(self, tier="quick"):
        self.tier = tier
        self.facts = Facts()
        self._program = None
        self._grams = {}

    @property
    def program(self):
        if self._program is None:
            self._program = Program(self.facts)
        return self._program

    def gram(self, which):
        if which not in self._grams:
            from units import Gram
            self._grams[which] = Gram(self, which)
        return self._grams[which]
