"""C15 — any input text is answered with a result or a diagnostic: no abort, no hang.

R1 abort-site census of the front end (assembler/data/print actions, LexerHelper, get_err_pos,
preprocess, CMDDriver::run, main, the prompt), R2 index-unit analysis (char index vs byte offset),
R3 end-of-input exits of stdin read loops, R4 input-driven native recursion without a depth bound,
R5 the generated LR drivers use a heap stack (no native recursion on nesting)."""
import re
import mir as M
from absint import Interp, RefV, IntV, TopV, Unsupported
from census import Sites, fn_census
from units import run_production
from program import fresh_value, ISIZE_MAX
from unit_taint import UnitAnalysis, CHAR, BYTE
from cfgtools import Defs, natural_loops, operand_locals, origin

EXPL = (
    "R1 census: every potential abort site (MIR Assert for overflow/division/bounds, unwrap/expect, str/Vec/HashMap "
    "indexing, explicit panic) in the actions of the assembler, data and print grammars (each production's own action, "
    "numeric child nonterminals summarised by running their productions, other children as arbitrary values of their "
    "type), in LexerHelper, get_err_pos, preprocess, CMDDriver::run, user_interface and main is classified PROVED / "
    "DEFINITE (witness) / UNDECIDED by the interval and token-length domains; slicing a token of an ASCII-only terminal "
    "within its minimum length (or at len-k) is proved. Positions, lengths and counters (usize) are assumed < 2^48, so a "
    "usize addition of such values cannot wrap. R2 index units: positions produced by chars().enumerate() (character "
    "counts) are propagated through locals, struct fields, containers, iterators, calls and returns of both crates; "
    "byte offsets come from lalrpop locations (action parameters, ParseError fields), str::len and char_indices. A str "
    "slice whose bound may be a character count, or an ordering comparison between a character count and a byte offset, "
    "is a unit mix: wrong line or a slice inside a UTF-8 sequence for every text with a multi-byte character before the "
    "position. R3 every loop around Stdin::read_line has an exit that depends on the byte count read. R4 an action that "
    "re-enters its own grammar's parser natively must be control dependent on a depth test; otherwise the native stack "
    "depth is driven by the input. R5 no other local function is recursive. The interpreter's actions on arbitrary text "
    "are covered by the census of C09. NOT decided: time/memory proportional to the input (macro expansion can grow "
    "the text geometrically), and the UNDECIDED sites listed in the evidence."
)

FRONT_FNS = [
    ("lib", "preprocessor::lexer_helper::LexerHelper::new"),
    ("lib", "preprocessor::lexer_helper::LexerHelper::get_newline_before"),
    ("lib", "preprocessor::lexer_helper::LexerHelper::get_bounds"),
    ("bin", "driver::error_helper::get_err_pos"),
    ("bin", "driver::preprocess::preprocess"),
    ("bin", "driver::driver::CMDDriver::run"),
    ("bin", "driver::user_interface::user_interface"),
    ("bin", "main"),
]
READ_LINE = re.compile(r"Stdin::read_line$|BufRead::read_line$")


def arg_maker(P, fn):
    def make(I, st):
        args = []
        for i in range(1, fn["argc"] + 1):
            ty = fn["locals"][i]["ty"]
            nm = fn["locals"][i]["name"] or f"arg{i}"
            core = re.sub(r"^&('\w+ )?(mut )?", "", ty)
            if ty.startswith("&") and core != "str":
                adt = None
                for name in P.adts:
                    if core.replace("emulator_8086_lib::", "").split("::")[-1] == name.split("::")[-1]:
                        adt = name
                if core.endswith("VM"):
                    args.append(RefV((0, "vm", ())))
                    continue
                st.frames[0]["arg_" + nm] = fresh_value(I, P, adt or core, nm)
                args.append(RefV((0, "arg_" + nm, ())))
            elif M.int_type(core):
                # positions / indices: below 2^48 (stated assumption)
                args.append(I.new_atom(core, nm, 0, ISIZE_MAX) if core == "usize" else I.new_atom(core, nm))
            else:
                args.append(TopV(ty, frozenset({(nm, 0)}), tag=("input",)))
        return args
    return make


def grammar_census(ctx, sites, which):
    P = ctx.program
    G = ctx.gram(which)
    ov = {}
    for nt_data in G.g["nonterminals"]:
        ty = (nt_data.get("type") or "()").replace("'input ", "")
        if M.int_type(ty):
            continue  # numeric nonterminals are evaluated through their own productions
        def mk(nt=nt_data["name"], ty=ty):
            return lambda I, st, path: fresh_value(I, P, ty, nt + "".join(str(p) for p in path))
        ov[nt_data["name"]] = mk()
    n = 0
    for nt_data in G.g["nonterminals"]:
        nt = nt_data["name"]
        if nt.startswith("__"):
            continue
        for k, p in enumerate(nt_data["productions"]):
            ua = G.main_user_action(p["action"])
            if ua["kind"] != "user":
                continue
            # numeric children: one run per combination of their alternatives (decimal / hex / binary ...), so that each
            # value keeps its exact range; the join over the alternatives is used only when there are too many combinations
            num_syms = [(i, s_["name"]) for i, s_ in enumerate(p["symbols"]) if s_["t"] == "nt" and s_["name"] not in ov and len(G.productions(s_["name"])) > 1]
            combos = [()]
            for i, nm in num_syms:
                combos = [c + ((i, kk),) for c in combos for kk in range(len(G.productions(nm)))]
                if len(combos) > 48:
                    combos = [()]
                    break
            for combo in combos:
                pick = {(i,): kk for i, kk in combo}

                def chooser(path, n_, prods, pick=pick):
                    return pick.get(tuple(path))
                try:
                    I, st, v, r = run_production(ctx, which, nt, k, chooser=chooser, overrides=ov)
                    sites.add_events(I.events, f"{which}: {G.prod_label(nt, k)}")
                    sites.units += 1
                    n += 1
                except Unsupported as e:
                    sites.failed_units.append((f"{which}: {G.prod_label(nt, k)}", str(e)))
    return n


def assumption_demotes(info):
    """usize Add/Mul whose failing side needs a position/length/counter >= 2^48"""
    w = info.get("witness") or ""
    vals = info.get("vals") or []
    if not any("usize" in v for v in vals):
        return False
    m = re.match(r"^(Add|Mul)\(", w)
    if not m:
        return False
    his = []
    for v in vals[:2]:
        mm = re.search(r"\[(\d+),(\d+)\]", v)
        if mm:
            his.append(int(mm.group(2)))
        else:
            mm = re.search(r"<usize (\d+)", v)
            his.append(int(mm.group(1)) if mm else None)
    if any(h is None for h in his):
        return False
    # under the assumption every non-constant operand is < 2^48: can the result still exceed 2^64-1?
    capped = [min(h, ISIZE_MAX) for h in his]
    res = capped[0] + capped[1] if m.group(1) == "Add" else capped[0] * capped[1]
    return res < (1 << 64)


def depth_tested(fn, cfg, call_block, P=None, depth=0):
    """is the call control dependent on a comparison of a length/size/counter with something -- directly, or through
    the result of a local function that makes such a comparison (a guard extracted into a helper)?"""
    defs = Defs(fn)
    blocks = cfg.control_deps.get(call_block, ()) if call_block is not None else [b for b in range(len(fn["blocks"]))]
    for a in blocks:
        t = M.term(fn["blocks"][a])
        if t[0] != "switch":
            continue
        o = origin(defs, t[1])
        if P is not None and depth < 2:
            # the tested value is (the discriminant / a field of) the result of a local call: look inside the callee
            src = o
            if o[0] == "rvalue" and o[1][0] == "disc":
                src = origin(defs, ["copy", {"l": o[1][1]["l"], "p": []}])
            elif o[0] == "place":
                src = origin(defs, ["copy", {"l": o[1]["l"], "p": []}])
            if src[0] == "call" and src[1][1].get("local"):
                g = P.fns.get(src[1][1].get("id"))
                if g is not None and depth_tested(g, M.CFG(g), None, P, depth + 1):
                    return True
        if o[0] == "rvalue" and o[1][0] == "bin" and o[1][1] in ("Lt", "Le", "Gt", "Ge"):
            for side in (o[1][2], o[1][3]):
                so = origin(defs, side)
                if so[0] == "call" and re.search(r"::len$|::count$|::depth$", so[1][1].get("def") or ""):
                    return True
                if so[0] == "place" and M.int_type(so[1].get("ty", "")):
                    return True  # a counter field compared with a bound
    return False


def run(ctx, chk):
    chk.explanation = EXPL
    P = ctx.program
    chk.rule("C15.R1", "no abort site of the front end can fail on any input text", floor=60)
    chk.rule("C15.R2", "character counts and byte offsets are never mixed", floor=2)
    chk.rule("C15.R3", "stdin read loops end at end of input", floor=1)
    chk.rule("C15.R4", "input-driven native recursion has a depth bound", floor=1)
    chk.rule("C15.R5", "no other native recursion", floor=1)
    chk.assumptions += [
        "texts, vectors and counters are shorter than 2^48 (no address space holds more): usize sums of positions do not wrap",
        "the generated LR drivers keep their stack on the heap and return ParseError instead of panicking (lalrpop 0.19.12); their Assert terminators are counted, not analysed",
        "containers filled by a generated parser through its &mut arguments (code, data, label maps) can have any length, 0 included: the grammars accept the empty program",
        "regex::Regex::new on the patterns built here (a literal; \\b<identifier>\\b) succeeds",
    ]
    sites = Sites()
    counts = {}
    for which in ("preprocessor", "data_parser", "print"):
        counts[which] = grammar_census(ctx, sites, which)
    for which, name in FRONT_FNS:
        fn = P.by_name.get((which, name))
        if fn is None:
            sites.failed_units.append((name, "function not found"))
            continue
        fn_census(ctx, sites, which, name, arg_maker(P, fn), context=name)
    chk.extra["units_analysed"] = sites.units
    chk.extra["grammar_actions"] = counts
    chk.extra["abort_sites"] = len(sites.sites)
    for u, why in sites.failed_units:
        chk.undecided_("C15.R1", u, why)

    def file_of(fnname):
        for which in ("lib", "bin"):
            f = P.by_name.get((which, fnname))
            if f:
                return f["span"].rsplit(":", 2)[0]
        return fnname

    # action functions are named by their production, and located in the grammar file
    action_names = {}
    for which in ("preprocessor", "data_parser", "print"):
        G = ctx.gram(which)
        for nt in G.g["nonterminals"]:
            for k, pr in enumerate(nt["productions"]):
                ua = G.main_user_action(pr["action"])
                if ua["kind"] == "user":
                    fn = G.action_fn(ua["idx"])
                    if fn is not None:
                        action_names.setdefault(fn["name"], (f"{which}:{nt['name']}#{k}", f"{G.g['file']}:{pr['line']}"))
    for key, info in sorted(sites.sites.items(), key=lambda x: (x[0][0], x[0][2])):
        fnname, akind, line = key
        short = fnname.split("::")[-1]
        where_ = None
        if fnname in action_names:
            short, where_ = action_names[fnname]
        unit = f"{short}:{akind.split('::')[-1] if akind.startswith('index:') else akind}@{line}"
        if info["status"] == "proved":
            chk.ok("C15.R1", unit, None)
        elif info["status"] in ("definite", "reached"):
            if assumption_demotes(info):
                chk.ok("C15.R1", unit, "cannot wrap for positions/lengths < 2^48 (assumption)", nontrivial=False)
                continue
            ops = ",".join(v.split(" aff=")[-1].rstrip(">") if " aff=" in v else v for v in info["vals"][:2])
            # a failing valuation that constrains only values kept in the assembler's own state (counters, map
            # entries) and no part of the input text is not a failing INPUT: whether that state is reachable needs
            # an invariant of the object, which this rule does not establish
            atoms = set(re.findall(r"[A-Za-z_][A-Za-z_0-9]*(?:\[\d+\])?(?:\.[A-Za-z_0-9]+)+|num:[A-Za-z0-9_]+|len\([^)]*\)|tok[A-Za-z0-9_]*", ops))
            if atoms and not any(a.startswith(("num:", "len(", "tok")) for a in atoms):
                chk.undecided_("C15.R1", unit, f"fails only for stored state {sorted(atoms)} (no input text involved): needs a state invariant")
                continue
            chk.violation("C15.R1", short, f"{akind.split('::')[-1] if akind.startswith('index:') else akind}({ops})",
                          f"{akind} can fail in {fnname} (context: {info['context']})", where_ or f"{file_of(fnname)}:{line}", info["witness"])
        else:
            chk.undecided_("C15.R1", unit, f"operands {info['vals'][:2]}")
    # ---------------- R2
    look = {}
    for which in ("preprocessor", "interpreter", "data_parser", "print"):
        G = ctx.gram(which)
        nparams = len(G.g["params"])
        # which arguments of a user action are @L/@R locations: read off the inline wrappers lalrpop generated
        for x in G.actions:
            tgt = None
            syms = None
            if x["kind"] == "inline" and G.actions[x["action"]]["kind"] == "user":
                tgt = G.actions[x["action"]]
                syms = x["symbols"]
            if tgt is None:
                continue
            fn = G.action_fn(tgt["idx"])
            if fn is None:
                continue
            ls = look.setdefault(fn["id"], [])
            for i, sym in enumerate(syms):
                is_look = ("inl" in sym and G.actions[sym["inl"]]["kind"] in ("lookahead", "lookbehind")) or (sym.get("orig", {}).get("name") in ("@L", "@R"))
                if is_look and (nparams + 1 + i) not in ls:
                    ls.append(nparams + 1 + i)
        for nt in G.g["nonterminals"]:
            for pr in nt["productions"]:
                a = G.actions[pr["action"]]
                if a["kind"] != "user":
                    continue
                fn = G.action_fn(a["idx"])
                if fn is None:
                    continue
                ls = look.setdefault(fn["id"], [])
                for i, sym in enumerate(pr["symbols"]):
                    if sym["name"] in ("@L", "@R") and (nparams + 1 + i) not in ls:
                        ls.append(nparams + 1 + i)
    U = UnitAnalysis(P, look).run()
    srcs = U.sources()
    chk.extra["unit_sources"] = [f"{f}:{l}:{u}" for f, l, u in srcs]
    seen = set()
    for s in U.sinks:
        short = s["fn"].split("::")[-1]
        key = (short, s["kind"])
        n = sum(1 for x in U.sinks if x["fn"] == s["fn"] and x["kind"] == s["kind"])
        if key in seen:
            continue
        seen.add(key)
        if s["kind"] == "str-sliced-at-displaced-offset:boundary-consulted":
            chk.undecided_("C15.R2", f"{short}:displaced-slice", "a str is sliced at a displaced byte offset in a function that consults character boundaries")
            continue
        if s["kind"] == "str-sliced-at-displaced-offset":
            chk.violation("C15.R2", short, s["kind"],
                          f"{s['fn']} slices a str of input text at a byte offset that was moved by a constant (position +/- k, k >= 2, or halved): the result need not be "
                          f"a character boundary, and slicing inside a UTF-8 sequence panics", s["where"],
                          witness="a line whose byte at that distance is the second byte of `é`")
            continue
        what = {"str-sliced-by-char-index": f"slices a str with a bound that is a character count ({n} site(s))",
                "mixed-comparison": "compares a character count with a byte offset",
                "mixed-subtraction": "subtracts a byte offset and a character count"}[s["kind"]]
        chk.violation("C15.R2", short, s["kind"],
                      f"{s['fn']} {what}: the newline table is built from chars().enumerate() while lalrpop positions and str slicing are in bytes; "
                      f"with a multi-byte character before the position the wrong line is shown or the slice lands inside a UTF-8 sequence (panic)",
                      s["where"], witness="`start: foo bar ééé` (error at `bar`, line end at char 18 = inside the second é)")
    n_index = 0
    for fn in P.fns.values():
        for bi, t in M.calls_in(fn):
            if re.search(r"ops::Index<I> for str>::index$|<std::string::String as std::ops::Index<I>>::index$", t[1].get("def") or "") and "__action" not in fn["name"]:
                n_index += 1
                short = fn["name"].split("::")[-1]
                if not any(x["fn"] == fn["name"] and x["where"].endswith(f":{fn['blocks'][bi]['term']['line']}") for x in U.sinks):
                    chk.ok("C15.R2", f"{short}:slice@{fn['blocks'][bi]['term']['line']}", "bounds carry no character count")
    for f, l, u in srcs:
        if u == BYTE:
            chk.ok("C15.R2", f"source:{f.split('::')[-1]}@{l}", "positions taken from char_indices (byte offsets)")
    if not srcs:
        chk.ok("C15.R2", "sources", "no character-count source in either crate", nontrivial=False)
    # ---------------- R3
    from rules_c20 import eof_tests, exits_only
    nl = 0
    for f in ctx.facts.mir("bin")["fns"] + ctx.facts.mir("lib")["fns"]:
        rls = [bi for bi, t in M.calls_in(f) if READ_LINE.search(t[1].get("def") or "")]
        if not rls:
            continue
        cfg = M.CFG(f)
        loops = natural_loops(cfg)
        defs = Defs(f)
        for bi in rls:
            inside = [(h, b) for h, b in loops.items() if bi in b]
            short = f["name"].split("::")[-1]
            if not inside:
                chk.ok("C15.R3", f"{short}@bb{bi}", "read outside any loop: cannot spin", nontrivial=False)
                continue
            nl += 1
            h, body = min(inside, key=lambda x: len(x[1]))
            tests, buf = eof_tests(f, cfg, defs, body, bi)
            good = [b for b, leaves in tests if leaves or any((k := exits_only(f, cfg, s, h)) and "loop" not in k for s in cfg.succ[b])]
            if good:
                chk.ok("C15.R3", f"{short}@bb{h}", "EOF exit present")
            else:
                chk.violation("C15.R3", short, "read-loop-without-eof-exit",
                              f"{f['name']}: the loop around read_line never looks at the number of bytes read: at end of input it spins forever",
                              f"{f['span'].rsplit(':', 2)[0]}:{f['blocks'][bi]['term']['line']}", witness="stdin at end of file while the prompt is open")
    # ---------------- R4 / R5
    nrec = 0
    for which in ("preprocessor", "interpreter", "data_parser", "print"):
        G = ctx.gram(which)
        parser = {"preprocessor": "PreprocessorParser::parse", "interpreter": "InterpreterParser::parse", "data_parser": "DataParser::parse", "print": "PrintParser::parse"}[which]
        for a in G.actions:
            if a["kind"] != "user":
                continue
            fn = G.action_fn(a["idx"])
            if fn is None:
                continue
            for bi, t in M.calls_in(fn):
                if (t[1].get("def") or "").endswith(parser):
                    nrec += 1
                    cfg = M.CFG(fn)
                    prod = next((G.prod_label(nt["name"], k) for nt in G.g["nonterminals"] for k, p in enumerate(nt["productions"])
                                 if G.main_user_action(p["action"]).get("idx") == a["idx"]), f"__action{a['idx']}")
                    if depth_tested(fn, cfg, bi, P):
                        chk.ok("C15.R4", prod, "nested parse is guarded by a depth/size comparison")
                    else:
                        chk.violation("C15.R4", prod.split(" = ")[0], "unbounded-native-recursion",
                                      f"{prod}: the action calls {parser} (which runs this action again) and no branch it depends on compares a depth, size or counter: "
                                      f"a chain of N distinct macros each using the next nests N parser activations on the native stack (stack overflow, SIGSEGV, for large N)",
                                      f"{G.g['file']}", witness="m1 -> m2 -> ... -> mN with N ~ 10^4")
    if nrec == 0:
        chk.ok("C15.R4", "all-actions", "no action re-enters a parser", nontrivial=False)
    # direct/mutual recursion among hand-written functions
    graph = {}
    for f in P.fns.values():
        if "__action" in f["name"]:
            continue
        graph[f["id"]] = {t[1].get("id") for _, t in M.calls_in(f) if t[1].get("id") in P.fns}
    rec = []
    for start in graph:
        seen = set()
        st = list(graph[start])
        while st:
            x = st.pop()
            if x == start:
                rec.append(start)
                break
            if x in seen or x not in graph:
                continue
            seen.add(x)
            st.extend(graph[x])
    reach_front = set()
    st = [P.by_name[(w, n)]["id"] for w, n in FRONT_FNS if (w, n) in P.by_name]
    while st:
        x = st.pop()
        if x in reach_front or x not in graph:
            continue
        reach_front.add(x)
        st.extend(graph[x])
    bad = [r for r in rec if r in reach_front]
    if bad:
        for r in bad:
            chk.violation("C15.R5", P.fns[r]["name"].split("::")[-1], "recursive-function", f"{P.fns[r]['name']} is (mutually) recursive and reachable from the front end", P.fns[r]["span"])
    else:
        chk.ok("C15.R5", "front-end-call-graph", f"{len(reach_front)} hand-written functions reachable from the front end, none recursive ({len(rec)} recursive elsewhere: {[P.fns[r]['name'] for r in rec][:3]})")
