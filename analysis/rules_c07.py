"""C07 — string instructions and REP: segments/pointers of source and destination, stepping under DF,
element lanes, effects, operand roles of CMPS/SCAS, REP protocol."""
from domains import Lin, lin_equal_witness
from insn import summarize_fn, is_copy, changed_regs, FBIT, fn_where, report_aborts, check_flags
from units import run_interp_production, run_split
from program import arch_index
from absint import Unsupported, AggV
import mir as M

MBm = 1 << 20
EXPL = (
    "Each string helper is analysed twice, with DF specialised to 0 and to 1. R1: every source-element address has the "
    "exact form (16*DS+SI) mod 2^20 (+lane) and every destination-element address (16*ES+DI) mod 2^20 - required segment "
    "dependency. R2: SI/DI advance by +/-size mod 2^16 (affine), only the pointers the instruction uses move. R3: word "
    "forms use the two cells p and p+1 for both directions. R4: effects: CMPS/SCAS store nothing, LODS writes only AL/AX, "
    "STOS/MOVS write only memory. R5: operand roles: in every subtraction/comparison mixing the two elements the left "
    "side is the source (CMPS) or the accumulator (SCAS). R6: REP protocol per production: with CX=0 nothing may "
    "execute; with CX>=1 CX'=CX-1 and REPEAT (REPE/REPNE: after testing ZF); R7: the driver's REPEAT arm re-issues the "
    "same index. Flag formulas of the comparison are not decided (see C01)."
)

SPEC = {
    # name: (size, reads_src, writes_dst, reads_dst, acc_in, acc_out)
    "movs": dict(src=True, dst_w=True, dst_r=False, acc_r=False, acc_w=False, flags=False),
    "lods": dict(src=True, dst_w=False, dst_r=False, acc_r=False, acc_w=True, flags=False),
    "stos": dict(src=False, dst_w=True, dst_r=False, acc_r=True, acc_w=False, flags=False),
    "cmps": dict(src=True, dst_w=False, dst_r=True, acc_r=False, acc_w=False, flags=True),
    "scas": dict(src=False, dst_w=False, dst_r=True, acc_r=True, acc_w=False, flags=True),
}


def string_table(ctx):
    """(mnemonic, width) -> (production index, helper fn).  The table is found by shape, not by name: any production
    whose right-hand side is exactly <string mnemonic> <byte|word>; the helper is the instructions::* function its
    action calls, or the function item its action returns (when the grammar hands the operation to the prefix
    productions as a value)."""
    from units import run_interp_production
    G = ctx.gram("interpreter")
    P = ctx.program
    out = {}
    nts = set()
    for nt in G.g["nonterminals"]:
        if nt["name"].startswith("__"):
            continue
        for k, p in enumerate(nt["productions"]):
            if len(p["symbols"]) != 2 or any(s["t"] != "term" for s in p["symbols"]):
                continue
            terms = [s["name"].strip('"') for s in p["symbols"]]
            if terms[0] not in SPEC or terms[1] not in ("byte", "word"):
                continue
            ua = G.main_user_action(p["action"])
            fn = G.action_fn(ua["idx"]) if ua.get("kind") == "user" else None
            callee = None
            if fn is not None:
                for bi, t in M.calls_in(fn):
                    cid = t[1].get("id")
                    if cid in P.fns and P.fns[cid]["name"].startswith("instructions::"):
                        callee = P.fns[cid]
            if callee is None:
                try:
                    I, st, v, r = run_interp_production(ctx, nt["name"], k)
                    if v is not None and v.kind == "fn" and len(v.ids) == 1:
                        callee = P.fns.get(next(iter(v.ids)))
                except Exception:  # noqa
                    callee = None
            out[tuple(terms)] = (k, callee)
            nts.add(nt["name"])
    string_table.nts = nts
    return out


def run(ctx, chk):
    chk.explanation = EXPL
    chk.assumptions += ["distinct abstract addresses do not alias (source/destination overlap is not decided)"]
    P = ctx.program
    G = ctx.gram("interpreter")
    chk.rule("C07.R1", "source = DS:SI, destination = ES:DI (exact address forms)", floor=25)
    chk.rule("C07.R2", "SI/DI step by +/- element size mod 2^16; unused pointers unchanged", floor=20)
    chk.rule("C07.R3", "word elements occupy cells p and p+1 in both directions", floor=10)
    chk.rule("C07.R4", "effects: who may write memory / AL,AX / flags", floor=20)
    chk.rule("C07.R9", "CMPS and SCAS set CF, AF, OF, SF, ZF as the corresponding CMP: the manual's predicates over the two elements", floor=4)
    chk.rule("C07.R5", "CMPS: source - destination; SCAS: accumulator - destination", floor=4)
    chk.rule("C07.R6", "REP protocol: nothing executes with CX=0; CX-1 and REPEAT otherwise; ZF test for REPE/REPNE", floor=9)
    chk.rule("C07.R7", "driver re-issues the same line on REPEAT", floor=1)
    chk.rule("C07.R8", "no abort site in the string helpers", floor=20)
    chk.rule("C07.R10", "word MOVS loads the whole source word before it stores (source and destination may overlap)", floor=1)

    tab = string_table(ctx)
    for (m, wname), (k, fn) in sorted(tab.items()):
        size = 1 if wname == "byte" else 2
        unit0 = f"{m}.{wname[0]}"
        if fn is None or m not in SPEC:
            chk.undecided_("C07.R1", unit0, "helper not resolved / unknown mnemonic")
            continue
        sp = SPEC[m]
        where = fn_where(fn)
        for df in (0, 1):
            unit = f"{unit0}[DF={df}]"
            s = summarize_fn(ctx, fn, assume={("flag", FBIT["DF"]): df}, record_arith=True)
            ranges = s.I.atom_ranges()
            reads = [e for e in s.I.events if e.kind == "mem" and e.op == "r"]
            writes = [e for e in s.I.events if e.kind == "mem" and e.op == "w"]
            # --- classify each access as source/destination element by pointer dependency
            src_base = Lin.atom("ds").scale(16).add(Lin.atom("si")).mod(MBm)
            dst_base = Lin.atom("es").scale(16).add(Lin.atom("di")).mod(MBm)

            def lane_of(idx, base_seg, ptr):
                """which lane (0/1) of the element at seg:ptr this address is, exact; None if no lane"""
                for lane in range(size):
                    want = Lin.atom(base_seg).scale(16).add(Lin.atom(ptr).add(Lin(lane)).mod(1 << 16)).mod(MBm)
                    v, env = lin_equal_witness(idx.aff, want, ranges)
                    if v == "equal":
                        return lane, None
                want0 = Lin.atom(base_seg).scale(16).add(Lin.atom(ptr)).mod(MBm)
                v, env = lin_equal_witness(idx.aff, want0, ranges)
                return None, (want0, env)

            groups = {"si": [], "di": []}
            for e in reads + writes:
                d = set(a for a, _ in e.idx.deps()) if e.idx.kind == "int" else set()
                if "si" in d and "di" not in d:
                    groups["si"].append(e)
                elif "di" in d and "si" not in d:
                    groups["di"].append(e)
                else:
                    chk.undecided_("C07.R1", unit, f"access {e.key} depends on {sorted(d)}")
            for ptr, seg, used in (("si", "ds", sp["src"]), ("di", "es", sp["dst_w"] or sp["dst_r"])):
                acc = groups[ptr]
                if not used:
                    if acc:
                        chk.violation("C07.R1", unit0, f"unexpected-{ptr}-access", f"{fn['name']} accesses memory through {ptr.upper()}", where)
                    continue
                if not acc:
                    chk.violation("C07.R1", unit0, f"no-{ptr}-access", f"{fn['name']} never accesses the element at {seg.upper()}:{ptr.upper()}", where)
                    continue
                lanes = set()
                bad = None
                for e in acc:
                    if e.idx.aff is None:
                        chk.undecided_("C07.R1", unit, f"{e.key}: no exact form")
                        continue
                    lane, info = lane_of(e.idx, seg, ptr)
                    if lane is None:
                        bad = (e, info)
                    else:
                        lanes.add(lane)
                if bad is not None:
                    e, (want0, env) = bad
                    d = set(a for a, _ in e.idx.deps())
                    segs = sorted(d & {"ds", "es", "ss", "cs"})
                    if seg not in d:
                        chk.violation("C07.R1", unit0, f"{ptr}-element-not-in-{seg}",
                                      f"{fn['name']} addresses the {'source' if ptr == 'si' else 'destination'} element as {e.idx.aff.pretty()} "
                                      f"(segment {segs}); the 8086 uses {seg.upper()}:{ptr.upper()} = {want0.pretty()}", where,
                                      f"{env}: emulator {hex(e.idx.aff.eval(env))}, 8086 {hex(want0.eval(env))}" if env else None)
                    else:
                        chk.violation("C07.R3", unit0, f"{ptr}-lanes-DF{df}",
                                      f"{fn['name']} (DF={df}) touches {e.idx.aff.pretty()}, which is not one of the {size} cells of the element at {seg.upper()}:{ptr.upper()}",
                                      where, f"{env}: emulator {hex(e.idx.aff.eval(env))}, element starts at {hex(want0.eval(env))}" if env else None)
                else:
                    chk.ok("C07.R1", f"{unit}:{ptr}", f"{seg}:{ptr} lanes {sorted(lanes)}")
                    if lanes == set(range(size)):
                        chk.ok("C07.R3", f"{unit}:{ptr}", f"cells {sorted(lanes)}")
                    else:
                        chk.violation("C07.R3", unit0, f"{ptr}-lanes-DF{df}", f"{fn['name']} (DF={df}) uses lanes {sorted(lanes)} of the element at {seg.upper()}:{ptr.upper()}, expected {list(range(size))}", where)
            # --- R2 stepping
            for ptr, used in (("si", sp["src"]), ("di", sp["dst_w"] or sp["dst_r"])):
                v = s.regs[ptr]
                if not used:
                    if is_copy(v, ptr):
                        chk.ok("C07.R2", f"{unit}:{ptr}", "unchanged")
                    else:
                        chk.violation("C07.R2", unit0, f"{ptr}-moves", f"{fn['name']} changes {ptr.upper()} although the instruction does not use it", where)
                    continue
                step = -size if df else size
                want = Lin.atom(ptr).add(Lin(step)).mod(1 << 16)
                if v.aff is None:
                    chk.undecided_("C07.R2", f"{unit}:{ptr}", "no exact form")
                    continue
                vd, env = lin_equal_witness(v.aff, want, ranges)
                if vd == "equal":
                    chk.ok("C07.R2", f"{unit}:{ptr}", v.aff.pretty())
                elif vd == "differ":
                    chk.violation("C07.R2", unit0, f"{ptr}-step-DF{df}", f"{fn['name']} (DF={df}): {ptr.upper()} becomes {v.aff.pretty()}, expected {want.pretty()}", where, str(env))
                else:
                    chk.undecided_("C07.R2", f"{unit}:{ptr}", "no separating valuation")
            # --- R4 effects
            allowed = {"flag"} if sp["flags"] else set()
            if sp["src"]:
                allowed.add("si")
            if sp["dst_w"] or sp["dst_r"]:
                allowed.add("di")
            if sp["acc_w"]:
                allowed.add("ax")
            bad = [r for r in changed_regs(s, ignore=()) if r not in allowed]
            if not sp["flags"] and not is_copy(s.regs["flag"], "flag") and not all(
                    b == ("c", "flag", i) or i == FBIT["DF"] for i, b in enumerate(s.regs["flag"].bits)):
                bad.append("flag")
            bad = [b for b in bad if not (b == "flag" and all(x == ("c", "flag", i) or i == FBIT["DF"] for i, x in enumerate(s.regs["flag"].bits)))]
            if bad:
                chk.violation("C07.R4", unit0, "writes-" + "+".join(sorted(set(bad))), f"{fn['name']} modifies {sorted(set(bad))}", where)
            else:
                chk.ok("C07.R4", f"{unit}:regs", f"writes within {sorted(allowed)}")
            if sp["flags"]:
                # CMPS/SCAS define the six status flags only: every other bit of FLAGS (DF, IF, TF, reserved) keeps its
                # value -- in particular DF, which a repeated compare steps by
                fb = s.regs["flag"].bits
                status = {FBIT[x] for x in ("CF", "PF", "AF", "ZF", "SF", "OF")}
                lost = []
                for i, b_ in enumerate(fb):
                    if i in status or b_ == ("c", "flag", i):
                        continue
                    if i == FBIT["DF"] and b_ == df:
                        continue  # the run assumed DF = df and the bit still has that value
                    lost.append(i)
                names_ = {v: k for k, v in FBIT.items()}
                definite = [i for i in lost if fb[i] in (0, 1) or fb[i][0] in ("c", "n")]
                if definite:
                    chk.violation("C07.R4", unit0, "flag-frame:" + "+".join(names_.get(i, f"bit{i}") for i in definite),
                                  f"{fn['name']} (DF={df}) changes FLAGS bit(s) {[names_.get(i, i) for i in definite]} besides the six status flags: "
                                  f"{'a repeated compare with DF=1 continues in the wrong direction' if FBIT['DF'] in definite else 'control flags are not defined by a compare'}", where)
                elif lost:
                    chk.undecided_("C07.R4", f"{unit}:flag-frame", f"bits {lost} of FLAGS not tracked as copies")
                else:
                    chk.ok("C07.R4", f"{unit}:flag-frame", "only CF,PF,AF,ZF,SF,OF change")
            if writes and not sp["dst_w"]:
                chk.violation("C07.R4", unit0, "stores-to-memory", f"{fn['name']} stores to memory ({writes[0].key})", where)
            elif sp["dst_w"] and not writes:
                chk.violation("C07.R4", unit0, "no-store", f"{fn['name']} never stores its element", where)
            else:
                chk.ok("C07.R4", f"{unit}:mem", f"{len(writes)} store(s)")
            if sp["acc_w"]:
                axv = s.regs["ax"]
                lo_bits = size * 8
                got = [b for b in axv.bits[:lo_bits] if b not in (0, 1) and b[0] == "c" and b[1].startswith("mem[")]
                if len(got) != lo_bits or (size == 1 and any(axv.bits[i] != ("c", "ax", i) for i in range(8, 16))):
                    chk.violation("C07.R4", unit0, "acc-not-loaded", f"{fn['name']} does not load {'AL' if size == 1 else 'AX'} bit for bit from memory", where)
                else:
                    chk.ok("C07.R4", f"{unit}:acc", "accumulator = element bits")
            # --- R5 roles
            if sp["flags"]:
                minuend_atoms = "si" if m == "cmps" else None
                for e in s.I.events:
                    if e.kind != "arith":
                        continue
                    da = set(a for a, _ in e.a.deps())
                    db = set(a for a, _ in e.b.deps())
                    a_src = any(x.startswith("mem[") and "si" in x for x in da) if m == "cmps" else ("ax" in da)
                    a_dst = any(x.startswith("mem[") and "di" in x for x in da)
                    b_src = any(x.startswith("mem[") and "si" in x for x in db) if m == "cmps" else ("ax" in db)
                    b_dst = any(x.startswith("mem[") and "di" in x for x in db)
                    if (a_src and b_dst and not a_dst and not b_src):
                        chk.ok("C07.R5", f"{unit}:{e.op}@{e.line}", "left = source/accumulator, right = destination")
                    elif (a_dst and b_src and not a_src and not b_dst):
                        op = e.op
                        norm = {"Gt": "Lt", "Ge": "Le"}.get(op)
                        if op in ("Gt", "Ge"):
                            chk.ok("C07.R5", f"{unit}:{e.op}@{e.line}", "mirrored comparison")
                        else:
                            chk.violation("C07.R5", unit0, "operand-roles-swapped",
                                          f"{fn['name']} computes destination-element {'-' if 'Sub' in op else '<'} {'source' if m == 'cmps' else 'accumulator'}; "
                                          f"the 8086 computes {'source' if m == 'cmps' else 'accumulator'} - destination", f"{where.rsplit(':', 1)[0]}:{e.line}")
            report_aborts(chk, "C07.R8", unit, s.I.events, where)
            if m == "movs" and size == 2:
                from insn import overlap_hazards
                hz = overlap_hazards(s.I)
                if hz:
                    chk.violation("C07.R10", unit0, "source-read-after-destination-write",
                                  f"{fn['name']} loads the byte at {hz[0][1]} after it has stored the byte at {hz[0][0]}: with the destination one byte above (or below) the source "
                                  f"the second byte copied is the one just written, not the source's (the 8086 reads the word, then writes it)", where)
                else:
                    chk.ok("C07.R10", unit, "both source bytes are loaded before the first store")
            if sp["flags"] and df == 0:
                compare_flag_rule(ctx, chk, unit0, m, fn, s, size, where)

    # --- R6 REP protocol
    rep_rule(ctx, chk)
    # --- R7 driver
    drv = P.find("bin", "driver::driver::CMDDriver::run")
    if drv is None:
        chk.undecided_("C07.R7", "CMDDriver::run", "driver not found")
    else:
        from driver_rules import repeat_arm_rule
        okv, msg = repeat_arm_rule(ctx, drv)
        if okv is None:
            chk.undecided_("C07.R7", "CMDDriver::run", msg)
        elif okv:
            chk.ok("C07.R7", "CMDDriver::run", msg)
        else:
            chk.violation("C07.R7", "CMDDriver::run", "repeat-arm", msg, drv["span"])
        from driver_rules import undispatched_interpreter_calls
        und = undispatched_interpreter_calls(ctx, drv)
        if und is None:
            chk.undecided_("C07.R7", "CMDDriver::run:dispatch", "interpreter call / State dispatch not recognised")
        elif und:
            file = drv["span"].rsplit(":", 2)[0]
            chk.violation("C07.R7", "CMDDriver::run", "iteration-outcome-dropped",
                          f"the driver executes instructions at {len(und)} further call site(s) of the interpreter from which the dispatch over the State variants is not reached: "
                          "the outcome of that execution (NEXT after the last iteration of a REP, a ZF-terminated REPE/REPNE, ..) is discarded and the main loop issues the line once more",
                          f"{file}:{und[0][1]}")
        else:
            chk.ok("C07.R7", "CMDDriver::run:dispatch", "every call of the interpreter reaches the dispatch over the State variants")


def rep_rule(ctx, chk):
    P = ctx.program
    G = ctx.gram("interpreter")
    sadt = P.find_adt("util::interpreter_util::State")
    vname = {i: v["name"] for i, v in enumerate(sadt["variants"])}
    ai = arch_index(P)
    PREFIXES = ("rep", "repz", "repe", "repnz", "repne")
    cases = []
    for k, p in enumerate(G.productions("string")):
        terms = [s["name"].strip('"') for s in p["symbols"] if s["t"] == "term"]
        if terms:
            if terms[0].lower() in PREFIXES:
                cases.append((k, p, terms[0], {}))
            continue
        # the prefix may be chosen by a nonterminal of its own (`rep_prefix`): one case per alternative of it
        for sy in p["symbols"]:
            if sy["t"] != "nt" or sy["name"] not in G.nts:
                continue
            alts = G.productions(sy["name"])
            spell = [[x["name"].strip('"') for x in a["symbols"]] if all(x["t"] == "term" for x in a["symbols"]) else None for a in alts]
            if alts and all(sp is not None and len(sp) == 1 and sp[0].lower() in PREFIXES for sp in spell):
                for kk, sp in enumerate(spell):
                    cases.append((k, p, sp[0], {sy["name"]: kk}))
                break
    for k, p, prefix, extra in cases:
        prefix = prefix.lower()
        label = G.prod_label("string", k) + (f" [{prefix}]" if extra else "")
        where = f"{G.g['file']}:{p['line']}"
        # the body: `movs byte` (it writes memory, moves both pointers and leaves the flags alone, so that the ZF the
        # conditional prefixes test is the incoming one).  The table nonterminal is found by shape (string_table), so
        # it does not matter whether the body is executed by its own production or handed to the prefix as a value.
        tab = string_table(ctx)
        table_nts = getattr(string_table, "nts", set())
        movs_k = tab.get(("movs", "byte"), (0, None))[0]

        def chooser(path, n, prods, movs_k=movs_k, table_nts=table_nts, extra=extra):
            if n in extra:
                return extra[n]
            return movs_k if n in table_nts else None

        def with_cx(lo, hi):
            def pre(I, st):
                vm = st.frames[0]["vm"]
                arch = vm.fields[0]
                fs = list(arch.fields)
                fs[ai["cx"]] = I.new_atom("u16", "cx", lo, hi)
                st.frames[0]["vm"] = AggV(vm.name, [AggV(arch.name, fs)] + list(vm.fields[1:]))
            return pre
        # CX = 0: nothing may happen
        I, st, v, r = run_interp_production(ctx, "string", k, chooser, pre=with_cx(0, 0), assume={("flag", FBIT["DF"]): 0})
        vm = st.frames[0]["vm"]
        regs = {n: vm.fields[0].fields[i] for n, i in ai.items()}
        mem = st.frames[0]["mem"]
        changed = [n for n, x in regs.items() if n != "cx" and not is_copy(x, n) and not (n == "flag" and all(b == ("c", "flag", i) or i == FBIT["DF"] for i, b in enumerate(x.bits)))]
        stores = [e for e in I.events if e.kind == "mem" and e.op == "w"]
        loads = [e for e in I.events if e.kind == "mem" and e.op == "r"]
        outcome = None
        if v is not None and v.kind == "enum":
            outcome = sorted(vname[i] for i in ({v.variant} if v.variant is not None else set(v.alts or {})))
        if changed or stores or loads:
            chk.violation("C07.R6", label, "executes-with-cx-0",
                          f"with CX=0 the string step of `{prefix} ...` still executes once (changes {changed}, {len(stores)} store(s), {len(loads)} load(s)): "
                          f"the string step runs before the `{prefix}` action looks at CX, so CX=n runs n+1 times", where)
        else:
            chk.ok("C07.R6", f"{label}:cx0-nothing", "nothing executes")
        if outcome != ["NEXT"]:
            chk.violation("C07.R6", label, "cx0-outcome", f"with CX=0 `{prefix}` returns {outcome}, expected NEXT", where)
        else:
            chk.ok("C07.R6", f"{label}:cx0-next", "NEXT")
        cxv = regs["cx"]
        if not (cxv.is_const() and cxv.lo == 0):
            chk.violation("C07.R6", label, "cx0-changes-cx", f"with CX=0 `{prefix}` changes CX to {cxv!r}", where)
        # CX >= 1
        zsplit = frozenset({("flag", FBIT["ZF"])}) if prefix != "rep" else frozenset()
        ov = None

        def one(asm, sp):
            a2 = dict(asm)
            a2[("flag", FBIT["DF"])] = 0
            return run_interp_production(ctx, "string", k, chooser, pre=with_cx(1, 65535), assume=a2, split=sp, overrides=ov)
        leaves = run_split(one, zsplit)
        for asm, (I, st, v, r) in leaves:
            vm = st.frames[0]["vm"]
            cxv = vm.fields[0].fields[ai["cx"]]
            zf = asm.get(("flag", FBIT["ZF"]))
            outcome = sorted(vname[i] for i in ({v.variant} if v.variant is not None else set(v.alts or {}))) if v is not None and v.kind == "enum" else None
            if prefix == "rep":
                want = ["REPEAT"]
            elif prefix in ("repz", "repe"):
                want = ["REPEAT"] if zf == 1 else (["NEXT"] if zf == 0 else None)
            else:
                want = ["REPEAT"] if zf == 0 else (["NEXT"] if zf == 1 else None)
            u = f"{label}:cx>=1{'' if zf is None else ',ZF=' + str(zf)}"
            if want is None:
                chk.violation("C07.R6", label, "no-zf-test", f"`{prefix}` with CX>=1 does not test ZF (outcome {outcome})", where)
            elif outcome != want:
                chk.violation("C07.R6", label, f"outcome-zf{zf}", f"`{prefix}` with CX>=1{'' if zf is None else ', ZF=' + str(zf)} returns {outcome}, expected {want}", where)
            else:
                chk.ok("C07.R6", u, str(outcome))
            nst = len([e for e in I.events if e.kind == "mem" and e.op == "w"])
            if nst == 1:
                chk.ok("C07.R6", u + ":once", "the string step executes exactly once per issue")
            else:
                chk.violation("C07.R6", label, f"executes-{nst}-times", f"`{prefix} movs byte` with CX>=1 performs {nst} stores in one issue, expected exactly one element", where)
            wantcx = Lin.atom("cx").add(Lin(-1))
            if cxv.aff is None:
                chk.undecided_("C07.R6", u + ":cx", "no exact form")
            else:
                vd, env = lin_equal_witness(cxv.aff, wantcx, I.atom_ranges())
                if vd == "equal":
                    chk.ok("C07.R6", u + ":cx", "CX-1")
                elif vd == "differ":
                    chk.violation("C07.R6", label, "cx-decrement", f"`{prefix}` with CX>=1: CX becomes {cxv.aff.pretty()}, expected CX-1", where, str(env))
                else:
                    chk.undecided_("C07.R6", u + ":cx", "no separating valuation")


def compare_flag_rule(ctx, chk, unit, m, fn, s, size, where):
    """C07.R9.  "CMPS and SCAS set the flags of the corresponding CMP."  As C01.R12: the booleans the helper hands to its flag
    routine carry the comparison that made them, with closed forms over the memory cells and AX; which boolean sets which
    flag is found by running the routine.  The two operands are taken from the helper's own borrow test (`x < y`): x must
    be built from source cells only (DS:SI lanes, or AX for SCAS) and y from destination cells only (ES:DI lanes) -- that
    these are the right cells and lanes is R1/R3, that x is the minuend is R5.  CF, AF, OF, SF, ZF are then compared with
    the SUB predicates of the manual over x and y."""
    from domains import Lin
    from rules_c01 import bool_flag_map, _norm_pred, _negate, _compare_preds, _pred_show, _eval_pred
    w = 8 * size
    M_, H = 1 << w, 1 << (w - 1)
    ranges = s.I.atom_ranges()
    decided = {}
    for e in s.I.events:
        if e.kind != "call" or not getattr(e, "fref", None) or not e.fref.get("local"):
            continue
        for bit, (path, pol) in bool_flag_map(ctx, e).items():
            v = e.args[path[0]] if len(path) == 1 else e.args[path[0]].fields[path[1]]
            decided[bit] = (v, pol)
    if FBIT["CF"] not in decided:
        chk.undecided_("C07.R9", unit, "no boolean handed to a flag routine decides CF")
        return
    cfv, pol = decided[FBIT["CF"]]
    pr = getattr(cfv, "pred", None)
    a = b = None
    if pr is not None and ((pr[0] == "cmp" and pr[1] in ("Lt", "Gt")) or (pr[0] == "ovf" and pr[1] == "Sub")) and pr[2].kind == "int" and pr[3].kind == "int" \
            and pr[2].aff is not None and pr[3].aff is not None and pol == 1:
        x, y = (pr[2].aff, pr[3].aff) if pr[1] in ("Lt", "Sub") else (pr[3].aff, pr[2].aff)

        def is_src(at):
            return (at.startswith("mem[") and "si" in at and "di" not in at) if m == "cmps" else at == "ax"

        def is_dst(at):
            return at.startswith("mem[") and "di" in at and "si" not in at
        if x.atoms() and y.atoms() and all(is_src(t) for t in x.atoms()) and all(is_dst(t) for t in y.atoms()):
            a, b = x.simplify(ranges), y.simplify(ranges)
    if a is None:
        chk.undecided_("C07.R9", unit, "the borrow test of the helper is not `source element < destination element` in closed form")
        return
    val = a.sub(b).mod(M_)
    cf = ("pos", b.sub(a))
    inner = ("pos", b.mod(H).sub(a.mod(H)).simplify(ranges))
    spec = {"CF": cf, "AF": ("pos", b.mod(16).sub(a.mod(16)).simplify(ranges)), "OF": ("xor",) + tuple(sorted((inner, cf), key=repr)),
            "SF": ("pos", val.sub(Lin(H - 1)).simplify(ranges)), "ZF": ("zero", val.simplify(ranges))}
    if FBIT["PF"] in decided:
        from rules_c01 import parity_verdict
        pv, ppol = decided[FBIT["PF"]]
        k_, t_ = parity_verdict(ctx, s, pv, ppol, val, ranges)
        if k_ == "ok":
            chk.ok("C07.R9", f"{unit}:PF", t_)
        elif k_ == "bad":
            chk.violation("C07.R9", unit, "PF-formula", f"{fn['name']}: {t_}", where)
        else:
            chk.undecided_("C07.R9", f"{unit}:PF", t_)
    for f in ("CF", "AF", "OF", "SF", "ZF"):
        u = f"{unit}:{f}"
        if FBIT[f] not in decided:
            chk.undecided_("C07.R9", u, "no boolean handed to a flag routine decides this flag")
            continue
        v, pol = decided[FBIT[f]]
        have = _norm_pred(v, ranges)
        if have is not None and pol == 0:
            have = _negate(have)
        if have is None:
            chk.undecided_("C07.R9", u, "the flag's boolean has no closed form")
            continue
        r = _compare_preds(have, spec[f], ranges)
        if r == "equal":
            chk.ok("C07.R9", u, _pred_show(have))
        elif r == "unknown":
            chk.undecided_("C07.R9", u, f"{_pred_show(have)} not comparable with {_pred_show(spec[f])}")
        else:
            env = r[1]
            text = (f"{f} is computed as [{_pred_show(have)}], CMP defines [{_pred_show(spec[f])}]; they differ for " +
                    ", ".join(f"{k}={v_}" for k, v_ in sorted(env.items())) + f": {int(_eval_pred(have, env))} instead of {int(_eval_pred(spec[f], env))}")
            # readable names for the cells: src0/src1 = lanes of the element at DS:SI, dst0/dst1 at ES:DI
            cells = sorted((t for t in (a.atoms() | b.atoms()) if t.startswith("mem[")), key=lambda t: (("di" in t), len(t), t))
            for t in sorted(cells, key=len, reverse=True):
                lane = [c for c in cells if ("di" in c) == ("di" in t)].index(t)
                text = text.replace(t, ("dst" if "di" in t else "src") + str(lane))
            chk.violation("C07.R9", unit, f"{f}-formula", f"{fn['name']}: {text}", where, witness=text)
