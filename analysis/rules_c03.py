"""C03 — MUL/IMUL/DIV/IDIV, decimal adjusts, CBW/CWD; divide errors raise INT 0.
Decides the divide-error protocol, frames and required dependencies; not the numeric values."""
from insn import (
    spec, fn_table, summarize_fn, check_flags, check_required_deps, changed_regs, mem_written,
    fn_where, report_aborts, FBIT, is_copy, flag_state,
)
from units import run_interp_production, addr_atom
from program import arch_index
from absint import Unsupported
import mir as M
import re

EXPL = (
    "R1 zero test dominates division (DivisionByZero/RemainderByZero asserts proved by interval refinement); "
    "R2 signed MIN / -1 overflow assert; R3 no silently truncated quotient: every narrowing cast of a value derived "
    "from a Div result must be proved lossless, or be control dependent on a test that involves the dividend; "
    "R4 divisor 0 => helper returns Err and leaves registers, flags and operand untouched; in each action the Err arm "
    "returns State::INT(0) and stores nothing; R5 driver: the INT(0) arm of CMDDriver::run reaches `return` and never "
    "the interpreter again; R6 CF/OF of MUL/IMUL depend on the multiplier and multiplicand (i.e. on the product); "
    "R7 frames: MUL/DIV write only AX (byte) / AX,DX (word) and the flags the manual lists as written or undefined; "
    "adjust instructions write only AX and those flags; R8 CBW/CWD: no flag, sign source dependency. "
    "NOT decided: products, quotients, remainders and decimal-adjust results as numbers."
)

MULDIV = ("mul", "imul", "div", "idiv")


def run(ctx, chk):
    chk.explanation = EXPL
    chk.assumptions += ["std callees behave as their models", "distinct abstract addresses do not alias"]
    A = spec("arith")
    P = ctx.program
    G = ctx.gram("interpreter")
    chk.rule("C03.R1", "a zero divisor never reaches a division (zero test dominates Div/Rem)", floor=4)
    chk.rule("C03.R2", "signed division cannot overflow (MIN / -1)", floor=2)
    chk.rule("C03.R3", "no quotient is silently truncated: narrowing casts of Div results are lossless or guarded by a dividend test", floor=4)
    # the four division helpers + every alternative of the production that calls them (however many the grammar has)
    chk.rule("C03.R4", "divisor 0 => Err, nothing modified; the action's Err arm returns INT(0) and stores nothing",
             floor=4 + max(2, len(G.productions("unary_arithmetic")) if "unary_arithmetic" in G.nts else 6))
    chk.rule("C03.R5", "driver: INT(0) ends the run without re-entering the interpreter", floor=1)
    chk.rule("C03.R6", "CF/OF of MUL/IMUL depend on both factors", floor=8)
    chk.rule("C03.R7", "frames of MUL/IMUL/DIV/IDIV and of the adjust instructions", floor=30)
    chk.rule("C03.R8", "CBW/CWD change no flag and extend the sign bit of AL/AX", floor=2)
    chk.rule("C03.R9", "no other abort site in these helpers", floor=10)
    chk.rule("C03.R10", "adjust instructions treat AL and AH as separate bytes (no carry between them; untouched halves stay copies)", floor=10)
    adjust_byte_frames(ctx, chk)

    tabs = {nt: fn_table(ctx, nt) for nt in ("byte_unary_arithmetic", "word_unary_arithmetic")}
    chk.rule("C03.R11", "AX/DX after MUL, IMUL, DIV, IDIV are the manual's product / quotient / remainder as closed forms, for every operand", floor=8)
    muldiv_value_rule(ctx, chk, tabs)
    chk.rule("C03.R12", "CF = OF = the upper half of the product is significant (condition of the helper's flag branch as a closed form)", floor=4)
    muldiv_flag_rule(ctx, chk, tabs)
    aam_aad_value_rule(ctx, chk)
    chk.rule("C03.R14", "DAA, DAS, AAA, AAS equal the manual's piecewise definition (path-wise closed forms evaluated for every AL, AF, CF)", floor=4)
    adjust_piecewise_rule(ctx, chk)
    for nt in tabs:
        width = 8 if nt.startswith("byte") else 16
        wn = "byte" if width == 8 else "word"
        for m in MULDIV:
            fid = tabs[nt].get(m)
            if fid is None or fid not in P.fns:
                chk.undecided_("C03.R7", f"{nt}:{m}", "helper not resolved")
                continue
            fn = P.fns[fid]
            unit = f"{m}.{'b' if width == 8 else 'w'}"
            where = fn_where(fn)
            sp = A["unary"][m]
            s = summarize_fn(ctx, fn)
            vname = s.arg_names[0]
            # abort sites
            for e in s.I.events:
                if e.kind != "assert" or e.akind.startswith("Other:"):
                    continue
                rid = "C03.R9"
                if e.akind in ("DivisionByZero", "RemainderByZero"):
                    rid = "C03.R1"
                elif e.akind in ("Overflow:Div", "Overflow:Rem"):
                    rid = "C03.R2"
                u = f"{unit}:{e.akind}@{e.line}"
                if e.status == "proved":
                    chk.ok(rid, u, "proved by interval refinement")
                elif e.status in ("definite", "reached"):
                    chk.violation(rid, unit, e.akind, f"{e.akind} can fail in {fn['name']}", f"{where.rsplit(chr(58),1)[0]}:{e.line}", e.witness)
                else:
                    chk.undecided_(rid, u, "cannot exclude the failing side")
            if m in ("div", "idiv") and not any(e.kind == "assert" and e.akind in ("DivisionByZero", "RemainderByZero") for e in s.I.events):
                chk.ok("C03.R1", f"{unit}:no-raw-division", "no unchecked Div/Rem operation in the helper (checked_div / checked_rem)")
            # R3 lossy narrowing of Div results
            if m in ("div", "idiv"):
                seen = 0
                dividend_atoms = set(sp["implicit_in"][wn])
                for e in s.I.events:
                    if e.kind == "narrow" and e.from_div:
                        seen += 1
                        guards = set(a for a, _ in e.open_deps)
                        notes = [s.I.div_notes[v] for v in e.val.lineage if v in s.I.div_notes]
                        if notes:
                            _, K, X, V = notes[0]
                            chk.violation("C03.R3", unit, f"lossy-{e.ty}-cast-of-div-result:guard-admits-equal",
                                          f"{fn['name']}: the test that guards the division only establishes {X.upper()} <= {V}; for {X.upper()} == {V} the quotient is >= {K} and is "
                                          f"silently truncated by the cast to {e.ty} (the bound must be strict: divide error when the high part is not below the divisor)",
                                          f"{where.rsplit(chr(58),1)[0]}:{e.line}", f"{X.upper()} = {V} = 1, low part 0: quotient {K}")
                        elif guards & dividend_atoms:
                            chk.undecided_("C03.R3", f"{unit}@{e.line}", "a test involving the dividend guards the cast; range not provable by intervals")
                        else:
                            chk.violation("C03.R3", unit, f"lossy-{e.ty}-cast-of-div-result",
                                          f"{fn['name']}: a Div/Rem result with range [{e.val.lo},{e.val.hi}] is narrowed to {e.ty} and no test on the dividend "
                                          f"({sorted(dividend_atoms)}) guards it: a quotient that does not fit is silently truncated instead of raising INT 0",
                                          f"{where.rsplit(chr(58),1)[0]}:{e.line}", f"value range [{e.val.lo},{e.val.hi}] -> {e.ty}")
                if seen == 0:
                    # all narrowing casts of Div results proved lossless (or none exist)
                    chk.ok("C03.R3", unit, "every cast of a quotient/remainder is lossless")
            # R4: divisor 0
            if m in ("div", "idiv"):
                s0 = summarize_fn(ctx, fn, specialise={vname: 0})
                okv = s0.ret is not None and s0.ret.kind == "enum" and s0.ret.variant == 1
                ch = changed_regs(s0, ignore=())
                opnd = s0.slots.get(vname)
                if not okv:
                    chk.violation("C03.R4", unit, "zero-divisor-not-Err", f"{fn['name']} with divisor 0 does not (only) return Err: {s0.ret!r}", where)
                elif ch or mem_written(s0):
                    chk.violation("C03.R4", unit, "zero-divisor-modifies-state", f"{fn['name']} with divisor 0 modifies {ch + mem_written(s0)}", where)
                else:
                    chk.ok("C03.R4", unit + ":helper", "divisor 0: returns Err, machine untouched")
            # R6 CF/OF depend on the product
            if m in ("mul", "imul"):
                acc = "ax"
                need = {(vname, i) for i in range(width)} | {(acc, i) for i in range(width)}
                for f in ("CF", "OF"):
                    check_required_deps(chk, "C03.R6", unit, f, (s.flag.bits[FBIT[f]],), need, where)
            # R7 frame
            allowed = set(sp["implicit_out"][wn])
            ch = [r for r in changed_regs(s) if r not in allowed]
            mw = mem_written(s)
            opnd = s.slots.get(vname)
            if ch or mw:
                chk.violation("C03.R7", unit, "writes-" + "+".join(ch + mw), f"{fn['name']} modifies {ch + mw} (allowed: {sorted(allowed)})", where)
            else:
                chk.ok("C03.R7", unit + ":regs", f"writes within {sorted(allowed)}")
            if opnd is not None and not is_copy(opnd, vname):
                chk.violation("C03.R7", unit, "modifies-operand", f"{fn['name']} modifies its source operand", where)
            else:
                chk.ok("C03.R7", unit + ":operand", "source operand unchanged")
            check_flags(chk, "C03.R7", "C03.R7", unit, s.flag, sp["written"], sp["undefined"], (), where=where)
            # result registers depend on the inputs
            for r in sp["implicit_out"][wn]:
                need = {(vname, i) for i in range(width)}
                check_required_deps(chk, "C03.R7", unit, f"{r}-out", s.regs[r].bits, need, where)

    # singleton arithmetic
    G_ = G
    for k, p in enumerate(G.productions("singleton_arithmetic")):
        m = [s_["name"].strip('"') for s_ in p["symbols"] if s_["t"] == "term"][0]
        if m not in A["singleton"]:
            chk.undecided_("C03.R7", m, "no oracle entry")
            continue
        sp = A["singleton"][m]
        I, st, v, r = run_interp_production(ctx, "singleton_arithmetic", k)
        ai = arch_index(P)
        vm = st.frames[0]["vm"]
        regs = {n: vm.fields[0].fields[i] for n, i in ai.items()}
        mem = st.frames[0]["mem"]
        where = f"{G.g['file']}:{p['line']}"
        changed = [n for n, val in regs.items() if n != "flag" and not is_copy(val, n) and n not in sp["regs"]]
        written = [kk for kk, (idx, val) in mem.cells.items() if not is_copy(val, "mem[" + kk + "]")]
        if changed or written or mem.havoc is not None:
            chk.violation("C03.R7", m, "writes-" + "+".join(changed + written), f"{m} modifies {changed + written} (allowed: {sp['regs']})", where)
        else:
            chk.ok("C03.R7", m + ":regs", f"writes within {sp['regs']}")
        if m in ("cbw", "cwd"):
            if not is_copy(regs["flag"], "flag"):
                chk.violation("C03.R8", m, "changes-flags", f"{m} modifies the flag word", where)
            else:
                chk.ok("C03.R8", m + ":flags", "no flag bit changes")
            if m == "cbw":
                hi = regs["ax"].bits[8:16]
                lo_ok = all(b == ("c", "ax", i) for i, b in enumerate(regs["ax"].bits[:8]))
                need = {("ax", 7)}
                if not lo_ok:
                    chk.violation("C03.R8", m, "al-changed", "CBW changes AL", where)
                check_required_deps(chk, "C03.R8", m, "AH", hi, need, where)
            else:
                if not is_copy(regs["ax"], "ax"):
                    chk.violation("C03.R8", m, "ax-changed", "CWD changes AX", where)
                check_required_deps(chk, "C03.R8", m, "DX", regs["dx"].bits, {("ax", 15)}, where)
        else:
            check_flags(chk, "C03.R7", "C03.R7", m, regs["flag"], sp["written"], sp["undefined"], (), where=where,
                        self_dep_ok=("AF", "CF"))
        report_aborts(chk, "C03.R9", m, I.events, where)

    # R4 production level: Err arm returns INT(0), stores nothing
    from units import address_overrides
    ov = address_overrides(G)
    for k, p in enumerate(G.productions("unary_arithmetic")):
        label = G.prod_label("unary_arithmetic", k)
        where = f"{G.g['file']}:{p['line']}"
        ua = G.main_user_action(p["action"])
        fn = G.action_fn(ua["idx"])
        res = err_arm_rule(ctx, fn)
        if res is None:
            chk.undecided_("C03.R4", label, "no indirect helper call with a Result in this action")
        elif res[0] is None:
            chk.undecided_("C03.R4", label, res[1])
        elif res[0]:
            chk.ok("C03.R4", label, res[1])
        else:
            chk.violation("C03.R4", label, "err-arm", res[1], where)

    # R5 driver
    drv = P.find("bin", "driver::driver::CMDDriver::run")
    if drv is None:
        chk.undecided_("C03.R5", "CMDDriver::run", "driver function not found")
    else:
        r = driver_int0_rule(ctx, drv)
        if r[0] is None:
            chk.undecided_("C03.R5", "CMDDriver::run", r[1])
        elif r[0]:
            chk.ok("C03.R5", "CMDDriver::run", r[1])
        else:
            chk.violation("C03.R5", "CMDDriver::run", "int0-continues", r[1], drv["span"])


def err_arm_rule(ctx, fn):
    """In an action: after the indirect call f(vm,&mut val) the Err arm must return State::INT(0) and write nothing."""
    cfg = M.CFG(fn)
    for bi, bb in enumerate(fn["blocks"]):
        t = M.term(bb)
        if t[0] == "call" and t[1].get("indirect") and t[4] is not None:
            dest = t[3]
            # find the discriminant switch on dest
            cur = t[4]
            blk = fn["blocks"][cur]
            disc_local = None
            for s in blk["stmts"]:
                if s[0] == "assign" and s[2][0] == "disc" and s[2][1]["l"] == dest["l"]:
                    disc_local = s[1]["l"]
            tt = M.term(blk)
            err_t = None
            if disc_local is not None and tt[0] == "switch":
                arms = dict((v, tgt) for v, tgt in tt[2])
                err_t = arms.get(1, tt[3] if 1 not in arms else None)
            else:
                # `if f(..).is_err() { .. }` / `if !f(..).is_ok()`: the Result is examined through is_err / is_ok
                from cfgtools import Defs, origin
                defs = Defs(fn)
                b2 = cur
                for _ in range(4):
                    t2 = M.term(fn["blocks"][b2])
                    if t2[0] == "call" and re.search(r"Result::<T, E>::is_(err|ok)$", t2[1].get("def") or "") and t2[2]:
                        o = origin(defs, t2[2][0])
                        base = o[1] if o[0] in ("multi", "param") else (o[1]["l"] if o[0] == "place" else (o[1][3]["l"] if o[0] == "call" else None))
                        if base == dest["l"] and t2[4] is not None:
                            sw = M.term(fn["blocks"][t2[4]])
                            if sw[0] == "switch":
                                is_err = (t2[1].get("def") or "").endswith("is_err")
                                true_t = sw[3] if all(v == 0 for v, _ in sw[2]) else next((tg for v, tg in sw[2] if v == 1), sw[3])
                                false_t = next((tg for v, tg in sw[2] if v == 0), sw[3])
                                err_t = true_t if is_err else false_t
                        break
                    nxt = M.succs(fn["blocks"][b2])
                    if len(nxt) != 1:
                        break
                    b2 = nxt[0]
                if err_t is None:
                    return (None, "the way the Result of the helper call is examined was not recognised")
            if err_t is None:
                return (False, "no Err arm")
            # walk the Err arm to return: no writes through vm, no calls; returned value INT(0)
            reach = cfg.reachable_from(err_t)
            ok_ret = False
            for b in sorted(reach):
                for s in fn["blocks"][b]["stmts"]:
                    if s[0] == "assign":
                        pl = s[1]
                        if pl["p"] and pl["p"][0] == "deref":
                            return (False, f"the Err arm stores through a reference ({pl['ty']}) before returning")
                        if pl["l"] == 0 and s[2][0] == "agg" and s[2][1].get("vname") == "INT":
                            ops = s[2][2]
                            if ops and ops[0][0] == "const" and ops[0][1].get("val") == 0:
                                ok_ret = True
                            else:
                                return (False, "the Err arm returns INT(n) with n != 0")
                tb = M.term(fn["blocks"][b])
                if tb[0] == "call":
                    return (False, f"the Err arm calls {tb[1].get('def', 'an indirect function')} before returning")
            if not ok_ret:
                return (False, "the Err arm does not return State::INT(0)")
            return (True, "Err arm: no store, no call, returns State::INT(0)")
    return None


def driver_int0_rule(ctx, drv):
    """INT(0) arm must reach `return` without any path to Interpreter::parse."""
    cfg = M.CFG(drv)
    parse_blocks = [bi for bi, t in M.calls_in(drv) if (t[1].get("def") or "").endswith("Interpreter::parse")]
    if not parse_blocks:
        return (None, "no call to Interpreter::parse found in the driver")
    # find switchInt on a u8 payload with an arm for value 0 reached after the State discriminant INT
    cands = []
    for bi, bb in enumerate(drv["blocks"]):
        t = M.term(bb)
        if t[0] == "switch" and t[1][0] in ("copy", "move") and t[1][1]["ty"] == "u8":
            arms = dict((v, tgt) for v, tgt in t[2])
            if 0 in arms and 3 in arms:
                cands.append((bi, arms[0]))
    if not cands:
        return (None, "the INT dispatch (switch on the u8 interrupt number with arms 0 and 3) was not found")
    for bi, tgt in cands:
        reach = cfg.reachable_from(tgt)
        if any(p in reach for p in parse_blocks):
            return (False, "from the INT(0) arm a path leads back to Interpreter::parse: execution continues after a divide error")
        if not any(M.term(drv["blocks"][b])[0] == "return" for b in reach):
            return (False, "the INT(0) arm never reaches a return")
    return (True, f"INT(0) arm (bb{cands[0][1]}): reaches return, Interpreter::parse unreachable")


def adjust_byte_frames(ctx, chk):
    """C03.R10: byte-level structure of the decimal/ASCII adjusts, which the manual defines on AL and AH separately.
    Decided in the bit domain; for AAA/AAS the run is partitioned on AF so that the adjusting path is taken for every AL
    (then no bit of AH' may depend on AL and no bit of AL' on AH - a 16-bit addition on AX would carry from AL into AH).
      DAA/DAS  AH is an exact copy.            AAM  AH', AL' depend on AL only (the old AH is irrelevant).
      AAD      AH' = 0, AL' depends on AL, AH.  AAA/AAS with AF=0: AH' depends on AH and on AL bits 0..3 only."""
    from domains import bits_all_deps
    P = ctx.program

    def ax_deps(bits):
        return set(b for a, b in bits_all_deps(bits) if a == "ax")
    for name in ("aaa", "aas", "daa", "das", "aam", "aad"):
        fn = P.find("lib", f"instructions::arithmetic::{name}")
        if fn is None:
            chk.undecided_("C03.R10", name, "helper not found")
            continue
        where = fn_where(fn)
        if name in ("aaa", "aas"):
            # "the high-order half-byte of AL is zeroed" -- whether the adjustment is made or not
            from domains import balts
            s0_ = summarize_fn(ctx, fn)
            ax0 = s0_.regs["ax"]
            if ax0.kind == "int":
                hn = [balts(b) for b in ax0.bits[4:8]]
                if all(a_ == frozenset((0,)) for a_ in hn):
                    chk.ok("C03.R10", f"{name}:al-high-nibble", "AL bits 4..7 are 0 on every path")
                elif all(a_ is not None for a_ in hn):
                    chk.violation("C03.R10", name, "al-high-nibble-kept", f"{name.upper()}: on some path bits 4..7 of AL keep their old value; the instruction zeroes the "
                                  f"high-order half-byte of AL whether it adjusts or not", where, "AL=15h, AF=0: AL must become 05h")
                else:
                    chk.undecided_("C03.R10", f"{name}:al-high-nibble", "AL's high nibble is not tracked exactly")
            for af in (1, 0):
                s_ = summarize_fn(ctx, fn, assume={("flag", FBIT["AF"]): af})
                ax = s_.regs["ax"]
                if ax.kind != "int":
                    chk.undecided_("C03.R10", f"{name}[AF={af}]", "AX not an integer value")
                    continue
                hi, lo = ax_deps(ax.bits[8:16]), ax_deps(ax.bits[0:8])
                if af == 1:
                    if hi & set(range(0, 8)):
                        chk.violation("C03.R10", name, "ah-depends-on-al", f"{name.upper()} (adjusting path): AH' depends on AL bits {sorted(hi & set(range(8)))}: AL and AH are adjusted as "
                                      f"separate bytes, a carry out of AL must not reach AH (AL=FAh..FFh would add 2 to AH)", where, "AF=1, AL=FBh")
                    else:
                        chk.ok("C03.R10", f"{name}[AF=1]:ah", "AH' depends on AH only")
                    if lo & set(range(8, 16)):
                        chk.violation("C03.R10", name, "al-depends-on-ah", f"{name.upper()} (adjusting path): AL' depends on AH bits", where)
                    else:
                        chk.ok("C03.R10", f"{name}[AF=1]:al", f"AL' depends on AL bits {sorted(lo)} only")
                else:
                    extra = hi & set(range(4, 8))
                    if extra:
                        chk.violation("C03.R10", name, "ah-depends-on-al-high-nibble", f"{name.upper()}: AH' depends on AL bits {sorted(extra)}; only the low nibble of AL (and AF) decides the adjust", where)
                    else:
                        chk.ok("C03.R10", f"{name}[AF=0]:ah", "AH' depends on AH and the low nibble of AL")
        else:
            s_ = summarize_fn(ctx, fn)
            ax = s_.regs["ax"]
            if ax.kind != "int":
                chk.undecided_("C03.R10", name, "AX not an integer value")
                continue
            hi, lo = ax_deps(ax.bits[8:16]), ax_deps(ax.bits[0:8])
            if name in ("daa", "das"):
                # the second (high digit) test of DAA/DAS looks at AL *after* the low-digit adjustment: `if AL > 9Fh or CF`.
                # Refuted when the compared value is, in closed form, the AL the instruction was entered with.
                from domains import Lin
                try:
                    sw_ = summarize_fn(ctx, fn, record_switch=True)
                    rg_ = sw_.I.atom_ranges()
                    entry_al = Lin.atom("ax").mod(256).simplify(rg_)
                    verdict_ = None
                    for e_ in sw_.I.events:
                        if e_.kind != "switch" or e_.fn != fn["name"]:
                            continue
                        pr_ = getattr(e_.val, "pred", None)
                        if pr_ is None or pr_[0] != "cmp" or pr_[1] not in ("Gt", "Ge", "Lt", "Le"):
                            continue
                        for x_, c_ in ((pr_[2], pr_[3]), (pr_[3], pr_[2])):
                            if c_.kind == "int" and c_.is_const() and 0x90 <= c_.lo <= 0xA0 and x_.kind == "int":
                                if x_.aff is not None and x_.aff.simplify(rg_) == entry_al:
                                    verdict_ = False
                                elif verdict_ is None:
                                    verdict_ = True
                    if verdict_ is False:
                        chk.violation("C03.R10", name, "high-digit-test-on-entry-al", f"{name.upper()}: the high-digit test (`AL > 9Fh or CF`) compares the AL the instruction "
                                      f"was entered with; the manual tests AL after the low-digit adjustment of 6", where, "AL=05h, AF=1, CF=0")
                    elif verdict_:
                        chk.ok("C03.R10", f"{name}:high-digit-test", "the compared AL is not the entry value in closed form (it went through the first adjustment)")
                    else:
                        chk.undecided_("C03.R10", f"{name}:high-digit-test", "no comparison of AL with 9Fh/A0h found among the helper's branches")
                except Unsupported as e_:
                    chk.undecided_("C03.R10", f"{name}:high-digit-test", str(e_))
                if all(ax.bits[i] == ("c", "ax", i) for i in range(8, 16)):
                    chk.ok("C03.R10", f"{name}:ah", "AH is an exact copy")
                elif any(ax.bits[i] in (0, 1) or (ax.bits[i][0] in ("c", "n") and ax.bits[i] != ("c", "ax", i)) for i in range(8, 16)):
                    chk.violation("C03.R10", name, "ah-modified", f"{name.upper()} changes AH; it adjusts AL only", where)
                else:
                    chk.undecided_("C03.R10", f"{name}:ah", "AH not tracked as an exact copy (a value of unknown shape was stored into AX)")
                if lo & set(range(8, 16)):
                    chk.violation("C03.R10", name, "al-depends-on-ah", f"{name.upper()}: AL' depends on AH", where)
                else:
                    chk.ok("C03.R10", f"{name}:al", "AL' depends on AL (and AF/CF) only")
            elif name == "aam":
                if (hi | lo) & set(range(8, 16)):
                    chk.violation("C03.R10", name, "depends-on-old-ah", "AAM: the result depends on the previous AH; it is a function of AL alone", where)
                else:
                    chk.ok("C03.R10", "aam", "AH', AL' depend on AL only")
            elif name == "aad":
                if all(ax.bits[i] == 0 for i in range(8, 16)):
                    chk.ok("C03.R10", "aad:ah", "AH' = 0")
                else:
                    chk.violation("C03.R10", name, "ah-not-cleared", "AAD must clear AH", where)
                need = set(range(16))
                if not need <= lo:
                    chk.violation("C03.R10", name, "al-ignores-input", f"AAD: AL' does not depend on AX bits {sorted(need - lo)}", where)
                else:
                    chk.ok("C03.R10", "aad:al", "AL' depends on AH and AL")


def muldiv_value_rule(ctx, chk, tabs):
    """C03.R11.  AX / DX after MUL, IMUL, DIV, IDIV as closed forms over the incoming AX, DX and the operand.
    Products, truncating quotients and remainders are *uninterpreted* binary bases of the affine domain (`x*y`, `x/y`,
    `x%y` of two closed forms, products commutative), so the comparison with the manual is structural:
        MUL  b: AX = AL*val                      w: AX = (AX*val) mod 2^16, DX = (AX*val) >> 16
        IMUL b: AX = (sx8(AL)*sx8(val)) mod 2^16 w: with P = sx16(AX)*sx16(val): AX = P mod 2^16, DX = (P mod 2^32) >> 16
        DIV  b: AL = AX/val, AH = AX%val         w: with N = DX*2^16+AX: AX = N/val, DX = N%val
        IDIV the same on the sign-extended dividend and divisor, truncating toward zero
    DIV/IDIV are analysed on their Ok paths only (paths that build `Err(..)` as the return value are not followed): there
    the quotient is known to fit.  Equal forms: right for every operand.  Unequal forms are evaluated on a grid of boundary
    operands, restricted for divisions to operands whose quotient exists and fits; a disagreement is a counterexample,
    agreement on the grid is undecided."""
    from domains import Lin, opaque, shr_lin
    import itertools
    P = ctx.program
    ax, dx = Lin.atom("ax"), Lin.atom("dx")

    def mulb(x, y):
        return Lin(0, ((opaque("mul", x, y), 1),))

    def divb(kind, x, y):
        return Lin(0, ((opaque(kind, x, y), 1),))
    for nt in ("byte_unary_arithmetic", "word_unary_arithmetic"):
        w = 8 if nt.startswith("byte") else 16
        for m in MULDIV:
            fid = tabs[nt].get(m)
            if fid is None or fid not in P.fns:
                continue
            fn = P.fns[fid]
            unit = f"{m}.{'b' if w == 8 else 'w'}"
            where = fn_where(fn)
            try:
                s = summarize_fn(ctx, fn, kill_ret_variant=1 if m in ("div", "idiv") else None)
            except Unsupported as e:
                chk.undecided_("C03.R11", unit, str(e))
                continue
            if s.st.dead:
                chk.undecided_("C03.R11", unit, "no returning Ok path")
                continue
            v = Lin.atom(s.arg_names[0])
            ranges = s.I.atom_ranges()
            if w == 8:
                al = ax.mod(256)
                if m == "mul":
                    want = {"ax": mulb(al, v)}
                elif m == "imul":
                    want = {"ax": mulb(ax.sx(8), v.sx(8)).mod(1 << 16)}
                elif m == "div":
                    want = {"ax": divb("div", ax, v).add(divb("rem", ax, v).scale(256))}
                else:
                    n, d = ax.sx(16), v.sx(8)
                    want = {"ax": divb("div", n, d).mod(256).add(divb("rem", n, d).mod(256).scale(256))}
                want["dx"] = dx
            else:
                if m == "mul":
                    p = mulb(ax, v)
                    want = {"ax": p.mod(1 << 16), "dx": shr_lin(p, 16)}
                elif m == "imul":
                    p = mulb(ax.sx(16), v.sx(16))
                    want = {"ax": p.mod(1 << 16), "dx": shr_lin(p.mod(1 << 32), 16)}
                elif m == "div":
                    n = ax.add(dx.scale(1 << 16))
                    want = {"ax": divb("div", n, v), "dx": divb("rem", n, v)}
                else:
                    n, d = ax.add(dx.scale(1 << 16)).sx(32), v.sx(16)
                    want = {"ax": divb("div", n, d).mod(1 << 16), "dx": divb("rem", n, d).mod(1 << 16)}

            def valid(env):
                if m not in ("div", "idiv"):
                    return True
                vv = env.get(s.arg_names[0], 1)
                if w == 8:
                    n_, d_ = env.get("ax", 0), vv
                    if m == "idiv":
                        n_ = n_ - 65536 if n_ >= 32768 else n_
                        d_ = d_ - 256 if d_ >= 128 else d_
                else:
                    n_, d_ = env.get("ax", 0) + 65536 * env.get("dx", 0), vv
                    if m == "idiv":
                        n_ = n_ - (1 << 32) if n_ >= (1 << 31) else n_
                        d_ = d_ - 65536 if d_ >= 32768 else d_
                if d_ == 0:
                    return False
                q = abs(n_) // abs(d_) * (1 if (n_ < 0) == (d_ < 0) else -1)
                if m == "div":
                    return q < (1 << w)
                return -(1 << (w - 1)) <= q < (1 << (w - 1))
            for reg in ("ax", "dx"):
                got = s.regs[reg]
                u = f"{unit}:{reg.upper()}"
                if got.kind != "int" or got.aff is None:
                    chk.undecided_("C03.R11", u, "the register has no closed form after the instruction")
                    continue
                have, wnt = got.aff.simplify(ranges), want[reg].simplify(ranges)
                if have == wnt or have.mod(1 << 16) == wnt.mod(1 << 16):
                    chk.ok("C03.R11", u, have.pretty())
                    continue
                atoms = sorted(have.atoms() | wnt.atoms())
                cand = []
                for at in atoms:
                    lo, hi = ranges.get(at, (0, 0xFFFF))
                    pts = {lo, hi, lo + 1, hi - 1, (lo + hi) // 2, (lo + hi) // 2 + 1, 2, 3, 7, 10, 100, 127, 128, 129, 255, 256, 257, 0x7FFF, 0x8000, 0x8001, 0xFF00, 0xFFFE}
                    cand.append(sorted(p for p in pts if lo <= p <= hi))
                wit = None
                for vals in itertools.product(*cand):
                    env = dict(zip(atoms, vals))
                    if valid(env) and have.eval(env) % (1 << 16) != wnt.eval(env) % (1 << 16):
                        wit = env
                        break
                if wit is None:
                    chk.undecided_("C03.R11", u, f"{have.pretty()} not comparable with {wnt.pretty()}")
                else:
                    text = (f"{reg.upper()} after {m.upper()} is {have.pretty()}, the manual gives {wnt.pretty()}; e.g. " +
                            ", ".join(f"{k}={hex(v_)}" for k, v_ in sorted(wit.items())) + f": {hex(have.eval(wit) % (1 << 16))} instead of {hex(wnt.eval(wit) % (1 << 16))}")
                    chk.violation("C03.R11", unit, f"{reg}-value", f"{fn['name']}: {text}", where, witness=text)


def muldiv_flag_rule(ctx, chk, tabs):
    """C03.R12.  CF = OF = "the upper half of the product is significant" for MUL / IMUL.  The helpers set both flags on the
    two sides of one hand-written branch; `branch_flag_conditions` finds that branch (the flag is set on one side,
    cleared on the other, written nowhere else, on every path) and V gives the closed form of its condition.
    MUL: the condition must be `upper half != 0`, compared structurally.  IMUL: the manual's condition is "the product is
    not the sign extension of its lower half" (P outside [-2^(w-1), 2^(w-1)-1]); the helper's condition is evaluated
    against it on a grid of boundary operands: a disagreement is a counterexample, agreement is undecided unless the
    forms coincide."""
    from domains import Lin, opaque, shr_lin
    from insn import branch_flag_conditions
    from rules_c01 import _norm_pred, _negate, _eval_pred, _pred_show, _pred_atoms
    import itertools
    P = ctx.program
    ax = Lin.atom("ax")
    for nt in ("byte_unary_arithmetic", "word_unary_arithmetic"):
        w = 8 if nt.startswith("byte") else 16
        for m in ("mul", "imul"):
            fid = tabs[nt].get(m)
            if fid is None or fid not in P.fns:
                continue
            fn = P.fns[fid]
            unit = f"{m}.{'b' if w == 8 else 'w'}"
            where = fn_where(fn)
            try:
                s = summarize_fn(ctx, fn, record_switch=True)
            except Unsupported as e:
                chk.undecided_("C03.R12", unit, str(e))
                continue
            conds = branch_flag_conditions(ctx, fn, s)
            ranges = s.I.atom_ranges()
            v = Lin.atom(s.arg_names[0])
            a_ = ax.mod(256) if w == 8 else ax
            if m == "mul":
                p = Lin(0, ((opaque("mul", a_, v), 1),))
                want = ("nonzero", shr_lin(p, w).simplify(ranges))

                def spec(env, p=p):
                    return (p.eval(env) >> w) != 0
            else:
                p = Lin(0, ((opaque("mul", ax.sx(w) if w == 16 else ax.sx(8), v.sx(w)), 1),))
                want = ("nonzero", p.sub(p.sx(w)).simplify(ranges))   # the product is not the sign extension of its lower half

                def spec(env, p=p):
                    x = p.eval(env)
                    return not (-(1 << (w - 1)) <= x < (1 << (w - 1)))
            for f in ("CF", "OF"):
                u = f"{unit}:{f}"
                if FBIT[f] not in conds:
                    chk.undecided_("C03.R12", u, "the flag is not set and cleared on the two sides of one branch of the helper")
                    continue
                d, truth, arm = conds[FBIT[f]]
                if arm is None:
                    have = _norm_pred(d, ranges)
                    if have is not None and not truth:
                        have = _negate(have)
                else:
                    have = None
                    if d.aff is not None:
                        have = ("zero" if truth else "nonzero", d.aff.sub(Lin(arm)).simplify(ranges))
                if have is None:
                    # the condition may go through a helper that branches on an operand's sign (`upper != sign_word(x)`): partition
                    # the run on the sign bits of the operands; in each partition the helper's branch is decided and the condition
                    # has a closed form, which is compared with the manual's on the boundary operands of that partition
                    sign_bits = [("ax", 15), ("ax", 7), (s.arg_names[0], w - 1)]
                    verdict = None
                    for combo in itertools.product((0, 1), repeat=len(sign_bits)):
                        asm = dict(zip(sign_bits, combo))
                        try:
                            s2 = summarize_fn(ctx, fn, record_switch=True, assume=asm)
                        except Unsupported:
                            verdict = "undecided"
                            break
                        c2 = branch_flag_conditions(ctx, fn, s2).get(FBIT[f])
                        if c2 is None:
                            verdict = "undecided"
                            break
                        d2, truth2, arm2 = c2
                        r2 = s2.I.atom_ranges()
                        if arm2 is None:
                            h2 = _norm_pred(d2, r2)
                            if h2 is not None and not truth2:
                                h2 = _negate(h2)
                        else:
                            h2 = ("zero" if truth2 else "nonzero", d2.aff.sub(Lin(arm2)).simplify(r2)) if d2.aff is not None else None
                        if h2 is None:
                            verdict = "undecided"
                            break
                        atoms = sorted(_pred_atoms(h2) | p.atoms())
                        cand = []
                        for at in atoms:
                            lo, hi = r2.get(at, (0, 0xFFFF))
                            pts = {lo, hi, lo + 1, hi - 1, 2, 3, 5, 15, 16, 17, 127, 128, 129, 181, 182, 255, 256, 257, 0x7FFF, 0x8000, 0x8001, 0xFF00, 0xFF80, 0xFFFB, 0xFFFD, 0xFFFE}
                            cand.append(sorted(q for q in pts if lo <= q <= hi and all(((q >> b_) & 1) == v_ for (a_n, b_), v_ in asm.items() if a_n == at)))
                        for vals in itertools.product(*cand):
                            env = dict(zip(atoms, vals))
                            if _eval_pred(h2, env) != spec(env):
                                verdict = (h2, env)
                                break
                        if verdict is not None:
                            break
                    if isinstance(verdict, tuple):
                        h2, wit = verdict
                        text = (f"{f} after {m.upper()} is set iff [{_pred_show(h2)}] when the operands' sign bits are {dict((f'{a}[{b}]', v) for (a, b), v in asm.items())}; the manual sets it iff the "
                                f"upper half of the product is significant. For " + ", ".join(f"{k}={hex(v_)}" for k, v_ in sorted(wit.items())) +
                                f" the helper gives {int(_eval_pred(h2, wit))}, the manual {int(spec(wit))}")
                        chk.violation("C03.R12", unit, f"{f}-condition", f"{fn['name']}: {text}", where, witness=text)
                    else:
                        chk.undecided_("C03.R12", u, "the branch condition has no closed form" + (" in some sign partition" if verdict == "undecided" else
                                       "; in every partition on the operands' sign bits it agrees with the manual's condition on the boundary operands"))
                    continue
                if want is not None and (have == want or repr(have) == repr(want)):
                    chk.ok("C03.R12", u, _pred_show(have))
                    continue
                atoms = sorted(_pred_atoms(have) | p.atoms())
                cand = []
                for at in atoms:
                    lo, hi = ranges.get(at, (0, 0xFFFF))
                    pts = {lo, hi, lo + 1, hi - 1, 2, 3, 15, 16, 17, 127, 128, 129, 181, 182, 255, 256, 257, 0x7FFF, 0x8000, 0x8001, 0xFF00, 0xFF80, 0xFFFE}
                    cand.append(sorted(q for q in pts if lo <= q <= hi))
                wit = None
                for vals in itertools.product(*cand):
                    env = dict(zip(atoms, vals))
                    if _eval_pred(have, env) != spec(env):
                        wit = env
                        break
                if wit is None:
                    chk.undecided_("C03.R12", u, f"[{_pred_show(have)}] agrees with the manual's condition on the grid of boundary operands; the forms differ")
                else:
                    text = (f"{f} after {m.upper()} is set iff [{_pred_show(have)}]; the manual sets it iff the upper half of the product is significant. For " +
                            ", ".join(f"{k}={hex(v_)}" for k, v_ in sorted(wit.items())) + f" the helper gives {int(_eval_pred(have, wit))}, the manual {int(spec(wit))}")
                    chk.violation("C03.R12", unit, f"{f}-condition", f"{fn['name']}: {text}", where, witness=text)


def aam_aad_value_rule(ctx, chk):
    """C03.R11/R12 for AAM and AAD, which are plain arithmetic: AAM: AH = AL / 10, AL = AL % 10; AAD: AL = (AL + 10*AH) mod 256,
    AH = 0; both set SF and ZF from the new AL (manual: "according to the result in AL")."""
    from domains import Lin, opaque
    from rules_c01 import bool_flag_map, _norm_pred, _negate, _compare_preds, _pred_show, _eval_pred
    P = ctx.program
    ax = Lin.atom("ax")
    al, ah = ax.mod(256), None
    from domains import shr_lin
    ah = shr_lin(ax, 8)
    ten = Lin(10)
    specs = {
        "aam": (Lin(0, ((opaque("div", al, ten), 256), (opaque("rem", al, ten), 1))), Lin(0, ((opaque("rem", al, ten), 1),))),
        "aad": (al.add(ah.scale(10)).mod(256), al.add(ah.scale(10)).mod(256)),
    }
    for name, (want_ax, new_al) in specs.items():
        fn = P.find("lib", f"instructions::arithmetic::{name}")
        if fn is None:
            chk.undecided_("C03.R11", name, "helper not found")
            continue
        where = fn_where(fn)
        try:
            s = summarize_fn(ctx, fn)
        except Unsupported as e:
            chk.undecided_("C03.R11", name, str(e))
            continue
        ranges = s.I.atom_ranges()
        got = s.regs["ax"]
        if got.kind != "int" or got.aff is None:
            chk.undecided_("C03.R11", f"{name}:AX", "AX has no closed form after the instruction")
        else:
            have, wnt = got.aff.simplify(ranges), want_ax.simplify(ranges)
            if have == wnt:
                chk.ok("C03.R11", f"{name}:AX", have.pretty())
            else:
                wit = None
                for v in (0, 1, 9, 10, 11, 99, 100, 127, 128, 255, 0x0100, 0x0909, 0x1900, 0x19FF, 0x7FFF, 0x8000, 0xFF00, 0xFFFF):
                    if have.eval({"ax": v}) % 65536 != wnt.eval({"ax": v}) % 65536:
                        wit = v
                        break
                if wit is None:
                    chk.undecided_("C03.R11", f"{name}:AX", f"{have.pretty()} not comparable with {wnt.pretty()}")
                else:
                    text = f"AX after {name.upper()} is {have.pretty()}, the manual gives {wnt.pretty()}; e.g. ax={wit:#x}: {have.eval({'ax': wit}) % 65536:#x} instead of {wnt.eval({'ax': wit}) % 65536:#x}"
                    chk.violation("C03.R11", name, "ax-value", f"{fn['name']}: {text}", where, witness=text)
        decided = {}
        for e in s.I.events:
            if e.kind == "call" and getattr(e, "fref", None) and e.fref.get("local"):
                for bit, (path, pol) in bool_flag_map(ctx, e).items():
                    v = e.args[path[0]] if len(path) == 1 else e.args[path[0]].fields[path[1]]
                    decided[bit] = (v, pol)
        if FBIT["PF"] in decided:
            from rules_c01 import parity_verdict
            pv, ppol = decided[FBIT["PF"]]
            k_, t_ = parity_verdict(ctx, s, pv, ppol, new_al, ranges)
            if k_ == "ok":
                chk.ok("C03.R12", f"{name}:PF", t_)
            elif k_ == "bad":
                chk.violation("C03.R12", name, "PF-condition", f"{fn['name']}: {t_}", where)
            else:
                chk.undecided_("C03.R12", f"{name}:PF", t_)
        spec = {"ZF": ("zero", new_al.simplify(ranges)), "SF": ("pos", new_al.sub(Lin(127)).simplify(ranges))}
        for f in ("ZF", "SF"):
            u = f"{name}:{f}"
            if FBIT[f] not in decided:
                chk.undecided_("C03.R12", u, "no boolean handed to a flag routine decides this flag")
                continue
            v, pol = decided[FBIT[f]]
            have = _norm_pred(v, ranges)
            if have is not None and pol == 0:
                have = _negate(have)
            if have is None:
                chk.undecided_("C03.R12", u, "the flag's boolean has no closed form")
                continue
            r = _compare_preds(have, spec[f], ranges)
            if r == "equal":
                chk.ok("C03.R12", u, _pred_show(have))
            elif r == "unknown":
                chk.undecided_("C03.R12", u, f"[{_pred_show(have)}] agrees with [{_pred_show(spec[f])}] on the grid of boundary operands; the forms differ")
            else:
                env = r[1]
                text = (f"{f} after {name.upper()} is [{_pred_show(have)}]; the manual sets it from the new AL: [{_pred_show(spec[f])}]; they differ for " +
                        ", ".join(f"{k}={v_:#x}" for k, v_ in sorted(env.items())) + f": {int(_eval_pred(have, env))} instead of {int(_eval_pred(spec[f], env))}")
                chk.violation("C03.R12", name, f"{f}-condition", f"{fn['name']}: {text}", where, witness=text)


# ---------------------------------------------------------------------------------------------------------------
# R14: DAA, DAS, AAA, AAS as piecewise functions
def _eval_value(v, env, depth=0):
    """the concrete value an abstract value denotes for a valuation of the input atoms, from its closed form, its recorded
    comparison, or its exact bits; None when the value carries none of these"""
    from domains import bxform
    if v is None or depth > 8 or v.kind != "int":
        return None
    if v.is_const():
        return v.lo
    if v.aff is not None:
        try:
            return v.aff.eval(env)
        except KeyError:
            return None
    pr = getattr(v, "pred", None)
    if pr is not None:
        k = pr[0]
        if k == "cmp":
            x, y = _eval_value(pr[2], env, depth + 1), _eval_value(pr[3], env, depth + 1)
            if x is None or y is None:
                return None
            return int({"Eq": x == y, "Ne": x != y, "Lt": x < y, "Le": x <= y, "Gt": x > y, "Ge": x >= y}[pr[1]])
        if k == "not":
            x = _eval_value(pr[1], env, depth + 1)
            return None if x is None else 1 - x
        if k in ("and", "or", "xor"):
            x, y = _eval_value(pr[1], env, depth + 1), _eval_value(pr[2], env, depth + 1)
            if x is None or y is None:
                return None
            return {"and": x & y, "or": x | y, "xor": x ^ y}[k]
        if k == "bit":
            x = _eval_value(pr[1], env, depth + 1)
            return None if x is None else x & (1 << pr[2])
    val = 0
    for i, b in enumerate(v.bits):
        xf = bxform(b)
        if xf is None:
            return None
        bit = xf[1]
        for at, j in xf[0]:
            if at not in env:
                return None
            bit ^= (env[at] >> j) & 1
        val |= bit << i
    if v.signed and val >= 1 << (v.w - 1):
        val -= 1 << v.w
    return val


def _manual_adjust(name, al, ah, af, cf):
    """the 8086 manual's definition: -> (ax, {flag: value} for the flags the instruction defines)"""
    par = lambda x: int(bin(x & 0xFF).count("1") % 2 == 0)
    if name in ("aaa", "aas"):
        if (al & 0xF) > 9 or af:
            al = (al + 6) & 0xFF if name == "aaa" else (al - 6) & 0xFF
            ah = (ah + 1) & 0xFF if name == "aaa" else (ah - 1) & 0xFF
            af = 1
        else:
            af = 0
        cf = af
        al &= 0x0F
        return (ah << 8) | al, {"AF": af, "CF": cf}
    if (al & 0xF) > 9 or af:
        al = (al + 6) & 0xFF if name == "daa" else (al - 6) & 0xFF
        af = 1
    else:
        af = 0
    if al > 0x9F or cf:
        al = (al + 0x60) & 0xFF if name == "daa" else (al - 0x60) & 0xFF
        cf = 1
    else:
        cf = 0
    return (ah << 8) | al, {"AF": af, "CF": cf, "SF": al >> 7, "ZF": int(al == 0), "PF": par(al)}


def adjust_piecewise_rule(ctx, chk):
    """C03.R14.  DAA, DAS, AAA, AAS are piecewise: which piece applies depends on AL's low nibble, AL itself, AF and CF.
    The helper's paths are enumerated by forcing each of its own branches both ways (`force_switch`); every path yields
    closed forms for AX and for the booleans / constants that set the flags, and its branch conditions as recorded
    comparisons.  These *formulas* are then evaluated for every AL (256), AF, CF and four values of AH -- 4096 valuations --
    and compared with the manual's definition of the instruction.  Exactly one path must apply to each valuation.  A
    valuation on which AX or a defined flag differs is reported with its registers; a path whose forms cannot be evaluated
    leaves the instruction undecided.  (What is evaluated is the extracted closed form, not the program.)"""
    from rules_c01 import bool_flag_map
    P = ctx.program
    for name in ("aaa", "aas", "daa", "das"):
        fn = P.find("lib", f"instructions::arithmetic::{name}")
        if fn is None:
            chk.undecided_("C03.R14", name, "helper not found")
            continue
        where = fn_where(fn)
        paths = []
        budget = [64]

        def explore(force):
            if budget[0] <= 0:
                raise Unsupported("too many paths")
            budget[0] -= 1
            s = summarize_fn(ctx, fn, record_switch=True, force_switch=dict(force))
            nxt = None
            for e in s.I.events:
                if e.kind == "switch" and e.fn == fn["name"] and getattr(e, "depth", 1) == 1 and e.bb not in force and e.val.kind == "int" and not e.val.is_const():
                    nxt = e
                    break
            if nxt is None:
                if not s.st.dead:
                    conds = [(e.val, force[e.bb]) for e in s.I.events if e.kind == "switch" and e.fn == fn["name"] and getattr(e, "depth", 1) == 1 and e.bb in force]
                    paths.append((dict(force), s, conds))
                return
            for v_ in [v for v, _ in nxt.arms] + ["else"]:
                f2 = dict(force)
                f2[nxt.bb] = v_
                explore(f2)
        try:
            explore({})
        except Unsupported as e:
            chk.undecided_("C03.R14", name, str(e))
            continue
        if not paths:
            chk.undecided_("C03.R14", name, "no returning path")
            continue
        # per path: which boolean sets which flag
        infos = []
        for force, s, conds in paths:
            decided = {}
            for e in s.I.events:
                if e.kind == "call" and getattr(e, "fref", None) and e.fref.get("local"):
                    for bit, (path, pol) in bool_flag_map(ctx, e).items():
                        v = e.args[path[0]] if len(path) == 1 else e.args[path[0]].fields[path[1]]
                        decided[bit] = (v, pol)
            infos.append((force, s, conds, decided))
        bad = None
        undecided = None
        n = 0
        for al in range(256):
            for ah in (0x00, 0x01, 0x7F, 0xFF):
                for af in (0, 1):
                    for cf in (0, 1):
                        env = {"ax": (ah << 8) | al, "flag": (af << 4) | cf | 0xF000}
                        match = []
                        for force, s, conds, decided in infos:
                            ok = True
                            for d, taken in conds:
                                x = _eval_value(d, env)
                                if x is None:
                                    ok = None
                                    break
                                if taken == "else":
                                    arms_ = [e.arms for e in s.I.events if e.kind == "switch" and e.val is d]
                                    hit = x not in [v for v, _ in (arms_[0] if arms_ else [])]
                                else:
                                    hit = (x == taken)
                                if not hit:
                                    ok = False
                                    break
                            if ok is None:
                                undecided = "a branch condition has no evaluable form"
                                break
                            if ok:
                                match.append((s, decided))
                        if undecided:
                            break
                        if len(match) != 1:
                            undecided = f"{len(match)} paths apply to AL={al:#x}, AF={af}, CF={cf}"
                            break
                        s, decided = match[0]
                        got_ax = _eval_value(s.regs["ax"], env)
                        if got_ax is None:
                            undecided = "AX has no evaluable form on some path"
                            break
                        want_ax, want_f = _manual_adjust(name, al, ah, af, cf)
                        n += 1
                        if got_ax % 65536 != want_ax:
                            bad = bad or f"AL={al:#04x}, AH={ah:#04x}, AF={af}, CF={cf}: AX becomes {got_ax % 65536:#06x}, the manual gives {want_ax:#06x}"
                        for f, wv in want_f.items():
                            fb = s.flag.bits[FBIT[f]]
                            if fb in (0, 1):
                                gv = fb
                            elif isinstance(fb, tuple) and fb[0] in "cn" and fb[1] == "flag":
                                gv = ((env["flag"] >> fb[2]) & 1) ^ (1 if fb[0] == "n" else 0)
                            elif FBIT[f] in decided:
                                bv, pol = decided[FBIT[f]]
                                x = _eval_value(bv, env)
                                if x is None and f == "PF":
                                    # the boolean comes out of a parity helper (decided on the bit domain): evaluate its argument
                                    from rules_c01 import is_parity_helper
                                    for e_ in s.I.events:
                                        if e_.kind == "call" and getattr(e_, "fref", None) and e_.fref.get("local") and len(e_.args) == 1 \
                                                and e_.args[0].kind == "int" and e_.args[0].vid in bv.lineage:
                                            g_ = P.fns.get(e_.fref.get("id"))
                                            if g_ is not None and is_parity_helper(ctx, g_):
                                                a_ = _eval_value(e_.args[0], env)
                                                if a_ is not None:
                                                    x = int(bin(a_ & 0xFF).count("1") % 2 == 0)
                                gv = None if x is None else (x if pol else 1 - x)
                            else:
                                gv = None
                            if gv is None:
                                undecided = undecided or f"{f} has no evaluable form on some path"
                            elif gv != wv:
                                bad = bad or f"AL={al:#04x}, AH={ah:#04x}, AF={af}, CF={cf}: {f} becomes {gv}, the manual gives {wv}"
                    if undecided and "paths apply" in undecided:
                        break
                if undecided and "paths apply" in undecided:
                    break
            if undecided and "paths apply" in undecided:
                break
        if bad:
            chk.violation("C03.R14", name, "adjust-value", f"{fn['name']}: {bad}", where, witness=bad)
        elif undecided:
            chk.undecided_("C03.R14", name, undecided)
        else:
            chk.ok("C03.R14", name, f"{len(paths)} paths; AX and the defined flags equal the manual's on all {n} valuations of AL x AH(4) x AF x CF")
