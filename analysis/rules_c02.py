"""C02 — AND/OR/XOR/TEST/NOT, shifts and rotates: logic ops clear CF/OF exactly, NOT/TEST frame,
count==0 changes nothing, no count aborts, required dependencies, shl==sal.
Not decided: shifted/rotated values and the CF/OF formulas for count >= 1."""
from insn import (
    spec, fn_table, summarize_fn, check_flags, check_required_deps, changed_regs, mem_written,
    fn_where, report_aborts, FBIT, is_copy, flag_state,
)
from units import run_interp_production, addr_atom
from program import arch_index
from absint import Unsupported

EXPL = (
    "Static analysis of the MIR of bit_manipulation.rs and of the not / binary_logical / shift_rotate actions. "
    "R1 logic ops: CF and OF are the constant 0 on every path, SF/ZF/PF assigned on every path, nothing else "
    "touched (bit domain, exact); R2 NOT: result bits are the exact complement, no flag bit changes; R3 TEST stores "
    "nothing; R4 helper frame (no register/memory write); R5 required dependencies (result <- value,count(,CF for "
    "RCL/RCR); CF <- value,count); R6 count specialised to 0: result is a bit-for-bit copy and no flag changes; "
    "R7 abort sites for every count 0..255; R8 shl and sal bound to the same helper; R9 flag frame for count>=1 "
    "(rotates leave SF/ZF/PF, shifts assign them). NOT decided: the shifted/rotated value and the CF/OF formulas."
)

LOGIC = ("and", "or", "xor", "test")


def run(ctx, chk):
    chk.explanation = EXPL
    chk.assumptions += [
        "distinct abstract addresses within one action do not alias",
        "word shift counts reach the helpers as u8 widened to u16 (verified per production in R7b)",
    ]
    A = spec("arith")
    P = ctx.program
    G = ctx.gram("interpreter")
    chk.rule("C02.R1", "AND/OR/XOR/TEST clear CF and OF, assign SF/ZF/PF on every path, touch nothing else", floor=60)
    chk.rule("C02.R2", "NOT complements exactly and changes no flag", floor=6)
    chk.rule("C02.R3", "TEST stores nothing; other productions store only their destination", floor=20)
    chk.rule("C02.R4", "helpers write no register and no memory", floor=20)
    chk.rule("C02.R5", "result and CF depend on every architecturally required input", floor=30)
    chk.rule("C02.R6", "a count of 0 changes neither the operand nor any flag", floor=14)
    chk.rule("C02.R7", "no count 0..255 makes a shift/rotate helper abort", floor=14)
    chk.rule("C02.R8", "shl and sal are the same operation", floor=2)
    chk.rule("C02.R9", "count>=1: flags outside the Intel write-set unchanged, written flags assigned on every path", floor=100)
    chk.rule("C02.R12", "shifted/rotated value, CF, SF (shifts) and OF (count 1) equal k single-bit 8086 steps, for every operand value and every count", floor=8)
    chk.rule("C02.R11", "the `, cl` forms pass exactly CL (bits 0..7 of CX, zero extended) as the count", floor=6)
    chk.rule("C02.R10", "byte and word helper of a mnemonic have the same branch conditions, flag calls and result expression (no dropped operand, no single differing operator/constant)", floor=11)
    sibling_rule(ctx, chk)
    chk.rule("C02.R10", "byte and word tables bind the same mnemonics", floor=2)

    tabs = {nt: fn_table(ctx, nt) for nt in ("byte_binary_logical", "word_binary_logical", "byte_shift_rotate", "word_shift_rotate")}
    for a, b in (("byte_binary_logical", "word_binary_logical"), ("byte_shift_rotate", "word_shift_rotate")):
        ka = set(k for k in tabs[a] if isinstance(k, str))
        kb = set(k for k in tabs[b] if isinstance(k, str))
        if ka != kb:
            chk.violation("C02.R10", f"{a}/{b}", "mnemonic-sets-differ", f"{sorted(ka ^ kb)} exist for one width only", G.g["file"])
        else:
            chk.ok("C02.R10", f"{a}/{b}", sorted(ka))
        for m in sorted(ka & kb):
            fa, fb = tabs[a][m], tabs[b][m]
            if fa and fb:
                na, nb = fa.split("::")[-1], fb.split("::")[-1]
                if na.startswith("byte_") and nb.startswith("word_") and na[5:] != nb[5:]:
                    chk.violation("C02.R10", m, "byte-word-helper-mismatch", f"'{m}' is {na} for bytes but {nb} for words", G.g["file"])
                else:
                    chk.ok("C02.R10", m + ":pair", f"{na}/{nb}")
    for nt in ("byte_shift_rotate", "word_shift_rotate"):
        t = tabs[nt]
        if "shl" in t and "sal" in t:
            if t["shl"] == t["sal"]:
                chk.ok("C02.R8", nt, t["sal"])
            else:
                chk.violation("C02.R8", nt, "shl-differs-from-sal", f"shl -> {t['shl']} but sal -> {t['sal']}", G.g["file"])

    # ---- logic helpers
    for nt in ("byte_binary_logical", "word_binary_logical"):
        width = 8 if nt.startswith("byte") else 16
        for m, fid in sorted((k, v) for k, v in tabs[nt].items() if isinstance(k, str)):
            if fid is None or fid not in P.fns or m not in A["binary"]:
                chk.undecided_("C02.R1", f"{nt}:{m}", "helper not resolved / no oracle entry")
                continue
            fn = P.fns[fid]
            unit = f"{m}.{'b' if width == 8 else 'w'}"
            where = fn_where(fn)
            s = summarize_fn(ctx, fn)
            sp = A["binary"][m]
            check_flags(chk, "C02.R1", "C02.R1", unit, s.flag, sp["written"], sp["undefined"], sp["cleared"], where=where)
            ch, mw = changed_regs(s), mem_written(s)
            if ch or mw:
                chk.violation("C02.R4", unit, "helper-writes-" + "+".join(ch + mw), f"{fn['name']} modifies {ch + mw}", where)
            else:
                chk.ok("C02.R4", unit, "no register/memory write")
            names = s.arg_names
            if sp["writes_dest"]:
                # bitwise: result bit i must depend on bit i of both operands
                if s.ret is not None and s.ret.kind == "int":
                    for i in range(width):
                        pass
                    check_required_deps(chk, "C02.R5", unit, "result", s.ret.bits,
                                        {(n, i) for n in names for i in range(width)}, where)
            else:
                if s.ret is not None and is_copy(s.ret, names[0]):
                    chk.ok("C02.R3", unit + ":helper-returns-dest", "returns its first operand unchanged")
                else:
                    chk.violation("C02.R3", unit, "test-returns-not-dest", f"{fn['name']} does not return its first operand unchanged", where)
            for f in ("ZF", "SF", "PF"):
                k = width if f != "PF" else 8
                req = {(n, i) for n in names for i in (range(k) if f != "SF" else [width - 1])}
                check_required_deps(chk, "C02.R5", unit, f, (s.flag.bits[FBIT[f]],), req, where)
            report_aborts(chk, "C02.R7", unit, s.I.events, where)

    # ---- shift / rotate helpers
    for nt in ("byte_shift_rotate", "word_shift_rotate"):
        width = 8 if nt.startswith("byte") else 16
        done = set()
        for m, fid in sorted((k, v) for k, v in tabs[nt].items() if isinstance(k, str)):
            if fid is None or fid not in P.fns or m not in A["shift"] or fid in done:
                continue
            done.add(fid)
            fn = P.fns[fid]
            unit = f"{m}.{'b' if width == 8 else 'w'}"
            where = fn_where(fn)
            sp = A["shift"][m]
            cname = [l["name"] for l in fn["locals"][1:fn["argc"] + 1]][-1] or "arg3"
            vname = [l["name"] for l in fn["locals"][1:fn["argc"] + 1]][-2] or "arg2"
            # R7: every count the productions can pass (u8, widened for word forms)
            s_all = summarize_fn(ctx, fn, ranges={cname: (0, 255)})
            report_aborts(chk, "C02.R7", unit, s_all.I.events, where)
            ch, mw = changed_regs(s_all), mem_written(s_all)
            if ch or mw:
                chk.violation("C02.R4", unit, "helper-writes-" + "+".join(ch + mw), f"{fn['name']} modifies {ch + mw}", where)
            else:
                chk.ok("C02.R4", unit, "no register/memory write")
            # R5 dependencies (all counts)
            req = {(vname, i) for i in range(width)} | {(cname, i) for i in range(3 if width == 8 else 4)}
            if sp["carry_in"]:
                req |= {("flag", FBIT["CF"])}
            if s_all.ret is not None and s_all.ret.kind == "int":
                check_required_deps(chk, "C02.R5", unit, "result", s_all.ret.bits, req, where)
            check_required_deps(chk, "C02.R5", unit, "CF", (s_all.flag.bits[FBIT["CF"]],), req - {("flag", FBIT["CF"])} if not sp["carry_in"] else req, where)
            # R6: count == 0
            s0 = summarize_fn(ctx, fn, specialise={cname: 0})
            bad = []
            if not (s0.ret is not None and is_copy(s0.ret, vname)):
                bad.append("result")
            for i in range(16):
                if flag_state(s0.flag.bits[i], i) != "unchanged":
                    bad.append({v: k for k, v in FBIT.items()}.get(i, f"bit{i}"))
            if s0.st.dead or s0.ret is None:
                chk.undecided_("C02.R6", unit, "no returning path for count 0 (aborts: see R7)")
            elif bad:
                chk.violation("C02.R6", unit, "count0-changes-" + "+".join(bad), f"{m} by 0 changes {bad}", where)
            else:
                chk.ok("C02.R6", unit, "count 0: result is a copy, all 16 flag bits unchanged")
            # R9: count >= 1
            s1 = summarize_fn(ctx, fn, ranges={cname: (1, 255)})
            written = [f for f in sp["written"] if f != "OF"]
            undefined = list(sp["undefined"]) + ["OF"]  # OF is defined for count 1 only
            selfok = ("CF",) if sp["carry_in"] else ()
            check_flags(chk, "C02.R9", "C02.R9", unit, s1.flag, written, undefined, (), where=where, self_dep_ok=selfok)
            # count == 1: OF must be assigned
            s_one = summarize_fn(ctx, fn, specialise={cname: 1})
            if s_one.ret is not None:
                stt = flag_state(s_one.flag.bits[FBIT["OF"]], FBIT["OF"])
                if stt == "unchanged":
                    chk.violation("C02.R9", unit, "OF-never-written-count1", f"{m} by 1 leaves OF untouched", where)
                else:
                    chk.ok("C02.R9", unit + ":OF@1", stt)

    # ---- R12 exact values
    counts = list(range(0, 256)) if ctx.tier == "thorough" else list(range(0, 35)) + [63, 64, 127, 128, 200, 255]
    exact_shift_rule(ctx, chk, tabs, counts)

    chk.rule("C02.R13", "SF, ZF and PF of the logic ops and shifts are computed from the value that is returned (PF through a parity helper decided on the bit domain)", floor=12)
    result_flag_rule(ctx, chk, tabs)

    # ---- productions: NOT exactness, TEST no write-back, frames, count width
    from units import address_overrides
    ov = address_overrides(G)
    ai = arch_index(P)

    def machine(st):
        vm = st.frames[0]["vm"]
        regs = {n: vm.fields[0].fields[i] for n, i in ai.items()}
        mem = st.frames[0]["mem"]
        changed = [n for n, val in regs.items() if n != "flag" and not is_copy(val, n)]
        written = [kk for kk, (idx, val) in mem.cells.items() if not is_copy(val, "mem[" + kk + "]")]
        if mem.havoc is not None:
            written.append("<havoc>")
        return regs, mem, changed, written

    # NOT
    for k, p in enumerate(G.productions("not")):
        label = G.prod_label("not", k)
        where = f"{G.g['file']}:{p['line']}"
        syms = [s["name"] for s in p["symbols"]]
        dest_sym = next(s for s in syms[1:] if s not in ('"byte"', '"word"'))
        width = 8 if ("byte" in " ".join(syms)) else 16
        choices = [None]
        if dest_sym in ("byte_reg", "word_reg"):
            choices = list(range(len(G.productions(dest_sym))))
        for dr in choices:
            def chooser(path, n, prods, dr=dr):
                if n == dest_sym and dr is not None:
                    return dr
                return None
            I, st, v, r = run_interp_production(ctx, "not", k, chooser, overrides=ov)
            regs, mem, changed, written = machine(st)
            unit = f"{label}{'' if dr is None else ' #' + str(dr)}"
            flags_ok = is_copy(regs["flag"], "flag")
            exact = True
            detail = ""
            if dest_sym in ("byte_reg", "word_reg"):
                if len(changed) != 1 or written:
                    exact = False
                    detail = f"changes {changed + written}"
                else:
                    rn = changed[0]
                    val = regs[rn]
                    nots = [i for i, b in enumerate(val.bits) if b == ("n", rn, i)]
                    cps = [i for i, b in enumerate(val.bits) if b == ("c", rn, i)]
                    if len(nots) != width or len(nots) + len(cps) != 16:
                        exact = False
                        detail = f"{rn}: {len(nots)} complemented, {len(cps)} kept bits"
            else:
                cells = [(kk, val) for kk, (idx, val) in mem.cells.items()]
                good = [kk for kk, val in cells if all(b == ("n", "mem[" + kk + "]", i) for i, b in enumerate(val.bits))]
                if changed or len(good) != (1 if width == 8 else 2) or len(written) != len(good):
                    exact = False
                    detail = f"cells complemented={good} written={written} regs={changed}"
            if not flags_ok:
                chk.violation("C02.R2", label, "not-changes-flags", "NOT modifies the flag word", where)
            elif not exact:
                chk.violation("C02.R2", label, "not-inexact", f"NOT is not an exact complement of its operand: {detail}", where)
            else:
                chk.ok("C02.R2", unit, f"{width} bits complemented, flags unchanged")

    # binary_logical / shift_rotate frames, TEST
    shift_fids = {v for nt_ in ("byte_shift_rotate", "word_shift_rotate") for v in tabs[nt_].values() if v}
    for fam in ("binary_logical", "shift_rotate"):
        for nt, k, p in G.instruction_productions(fam):
            label = G.prod_label(nt, k)
            where = f"{G.g['file']}:{p['line']}"
            syms = [s["name"] for s in p["symbols"]]
            tab = syms[0]
            width = 8 if tab.startswith("byte") else 16
            dest_sym = next(s for s in syms[1:] if s not in ('"byte"', '"word"'))
            for mk, mp in enumerate(G.productions(tab)):
                m = [s["name"].strip('"') for s in mp["symbols"] if s["t"] == "term"][0]
                if fam == "shift_rotate" and ctx.tier == "quick" and m not in ("sal", "rcr"):
                    continue
                dest_regs = [None]
                if dest_sym in ("byte_reg", "word_reg"):
                    n = len(G.productions(dest_sym))
                    dest_regs = list(range(n)) if (m == "test" or ctx.tier != "quick") else [0, n - 1]

                via = cl_alternative(G, syms) if fam == "shift_rotate" else None
                for dr, force in [(d, None) for d in dest_regs] + ([(dest_regs[0], via)] if via else []):
                    def chooser(path, n, prods, dr=dr, mk=mk, force=force):
                        if n == tab:
                            return mk
                        if n == dest_sym and dr is not None and len(path) == 1 and path[0] == 1:
                            return dr
                        if force is not None and n == force[0]:
                            return force[1]
                        return None
                    try:
                        I, st, v, r = run_interp_production(ctx, nt, k, chooser, overrides=ov)
                    except Unsupported as e:
                        chk.undecided_("C02.R3", f"{label}[{m}]", str(e))
                        continue
                    if force is not None:
                        # the count nonterminal specialised to its CL alternative: only R11 is evaluated on this run
                        for e in I.events:
                            if e.kind == "call" and e.callee and any(c in shift_fids for c in e.callee) and "__action" in e.fn:
                                count_is_cl(chk, e.args[-1], f"{label} [{m},{force[0]}=cl]", label, where)
                        continue
                    regs, mem, changed, written = machine(st)
                    unit = f"{label} [{m}{'' if dr is None else ',dest#' + str(dr)}]"
                    if m == "test":
                        if changed or written:
                            chk.violation("C02.R3", f"{label} [test]", "test-writes-" + "+".join(changed + written), f"TEST modifies {changed + written}", where)
                        else:
                            chk.ok("C02.R3", unit, "no register or memory cell changes")
                    elif dest_sym in ("byte_reg", "word_reg"):
                        if written or len(changed) > 1:
                            chk.violation("C02.R3", f"{label} [{m}]", "writes-beyond-destination", f"writes {changed + written}", where)
                        else:
                            chk.ok("C02.R3", unit, f"changes {changed or 'nothing'} only")
                    else:
                        if changed or len(written) > (1 if width == 8 else 2):
                            chk.violation("C02.R3", f"{label} [{m}]", "writes-beyond-destination", f"writes {changed + written}", where)
                        else:
                            chk.ok("C02.R3", unit, f"writes {written} only")
                    if fam == "shift_rotate":
                        # the count handed to the helper is within 0..255
                        for e in I.events:
                            if e.kind == "call" and e.callee and any(c in shift_fids for c in e.callee) and "__action" in e.fn:
                                cnt = e.args[-1]
                                if cl_form(G, syms):
                                    count_is_cl(chk, cnt, unit, label, where)
                                if cnt.kind == "int" and 0 <= cnt.lo and cnt.hi <= 255:
                                    chk.ok("C02.R7", unit + ":count-range", f"count in [{cnt.lo},{cnt.hi}]")
                                else:
                                    chk.undecided_("C02.R7", unit + ":count-range", f"count value {cnt!r} outside the analysed 0..255")
                    report_aborts(chk, "C02.R7", unit, [e for e in I.events if "__action" in e.fn], where)


def count_is_cl(chk, cnt, unit, label, where):
    """R11: `, cl` forms hand the helper exactly CL: bits 0..7 of CX, zero extended"""
    if cnt.kind != "int":
        chk.undecided_("C02.R11", unit, f"count value {cnt!r} is not an integer")
        return
    copies = [(j, b) for j, b in enumerate(cnt.bits) if isinstance(b, tuple) and b[0] in ("c", "n")]
    wrong = [(j, b) for j, b in copies if not (b[0] == "c" and b[1] == "cx" and b[2] == j and j < 8)]
    if all(cnt.bits[i] == ("c", "cx", i) for i in range(8)) and all(b == 0 for b in cnt.bits[8:]):
        chk.ok("C02.R11", unit, "count = CL zero extended")
    elif wrong:
        j, b = wrong[0]
        chk.violation("C02.R11", label, "count-not-cl",
                      f"the `, cl` form passes a count whose bit {j} is {'a copy' if b[0] == 'c' else 'the complement'} of {b[1].upper()} bit {b[2]}: "
                      f"the count is CL (bits 0..7 of CX, zero extended) and nothing else", where)
    else:
        chk.undecided_("C02.R11", unit, f"count value {cnt!r} not tracked bit by bit")


def cl_alternative(G, syms):
    """(nonterminal, alternative) when the count comes from a nonterminal one of whose alternatives is the CL form"""
    if cl_form(G, syms):
        return None
    for s in syms[-1:]:   # the count is the last operand
        if s in G.nts and len(G.productions(s)) > 1:
            for k, p in enumerate(G.productions(s)):
                if cl_form(G, [x["name"] for x in p["symbols"] if x["t"] in ("term", "nt")]) and len([x for x in p["symbols"] if x["t"] in ("term", "nt")]) == 1:
                    return (s, k)
    return None


def cl_form(G, syms):
    """the production takes its count from CL: one of its symbols is the terminal "cl" or a nonterminal deriving only it"""
    for s in syms[-1:]:   # the count is the last operand
        if s == '"cl"':
            return True
        if s in G.nts:
            ps = G.productions(s)
            if ps and all([x["name"] for x in p["symbols"] if x["t"] in ("term", "nt")] == ['"cl"'] for p in ps):
                return True
    return False


def sibling_rule(ctx, chk):
    """C02.R10 (siblings.py): the byte and word forms of every logic/shift/rotate helper are width-parametric copies.
    Their fingerprints (branch conditions, arguments of the flag calls, returned expression; width constants normalised)
    must be equal.  A fingerprint that is the other one with one operand left out, or with one operator / constant
    changed, is a contradiction between the two: one of them is wrong.  Any larger difference is listed as undecided."""
    import siblings as S
    P = ctx.program
    for m, d in sorted(S.sibling_pairs(P, "instructions::bit_manipulation").items()):
        r = S.compare_fingerprints(S.fingerprint(d["byte"]), S.fingerprint(d["word"]))
        where = d["word"]["span"].rsplit(":", 2)[0]
        if r[0] == "same":
            chk.ok("C02.R10", m, f"{r[1]} conditions/flag calls/result expressions agree")
        elif r[0] == "dropped":
            _, kind, opn, operand, side = r
            who = "word" if side == "b" else "byte"
            chk.violation("C02.R10", m, f"{kind}-operand-only-in-one-width:{operand}",
                          f"byte_{m} and word_{m} differ: a {kind} expression of the {who} form lacks the operand `{operand}` of a {opn} that the other width has "
                          f"(after width normalisation the two helpers must be copies): one of the two is wrong", where)
        elif r[0] == "node":
            _, kind, what, x, y = r
            chk.violation("C02.R10", m, f"{kind}-{what}-differs:{x}/{y}",
                          f"byte_{m} and word_{m} differ in exactly one {what} of a {kind} expression (byte: {x}, word: {y}) after width normalisation: one of the two is wrong", where)
        else:
            chk.undecided_("C02.R10", m, f"the two helpers are formulated differently ({r[1]} / {r[2]} unmatched expressions)")


# ---------------------------------------------------------------------------------------------------------------
# R12: the shifted / rotated value, CF, SF and (count 1) OF, exactly, for every count
def reference_shift(op, w, k, vname):
    """k single-bit 8086 steps on a symbolic operand: (result bits low..high, CF) as copies of input bits / constants"""
    bits = [("c", vname, i) for i in range(w)]
    cf = ("c", "flag", 0)
    for _ in range(k):
        if op in ("shl", "sal"):
            cf, bits = bits[-1], [0] + bits[:-1]
        elif op == "shr":
            cf, bits = bits[0], bits[1:] + [0]
        elif op == "sar":
            cf, bits = bits[0], bits[1:] + [bits[-1]]
        elif op == "rol":
            cf, bits = bits[-1], [bits[-1]] + bits[:-1]
        elif op == "ror":
            cf, bits = bits[0], bits[1:] + [bits[0]]
        elif op == "rcl":
            cf, bits = bits[-1], [cf] + bits[:-1]
        elif op == "rcr":
            cf, bits = bits[0], bits[1:] + [cf]
        else:
            raise KeyError(op)
    return bits, cf


def _subst(b, sigma):
    if isinstance(b, tuple) and b[0] in ("c", "n") and (b[1], b[2]) in sigma:
        v = sigma[(b[1], b[2])]
        return v if b[0] == "c" else 1 - v
    return b


def _xor(a, b):
    return (a ^ b) if a in (0, 1) and b in (0, 1) else None


def exact_shift_rule(ctx, chk, tabs, counts):
    """For each helper and each count k: the result must be, bit for bit, what k single-bit steps give; CF the last bit
    moved out; for shifts SF the top bit of the result; for k = 1 OF as the manual defines it.  The run is partitioned on
    the (at most four) input bits those flags are copies of, so that the flag stores under `if bit {set} else {unset}`
    become constants; the operand itself stays symbolic (every value at once).  A bit the analysis cannot track exactly
    makes that instance undecided; two exact bits that differ are a defect with a concrete operand as witness."""
    from itertools import product
    P = ctx.program
    done = set()
    for nt in ("byte_shift_rotate", "word_shift_rotate"):
        w = 8 if nt.startswith("byte") else 16
        for m, fid in sorted((k_, v) for k_, v in tabs[nt].items() if isinstance(k_, str)):
            if fid is None or fid not in P.fns or (fid, w) in done:
                continue
            try:
                reference_shift(m, w, 0, "v")
            except KeyError:
                continue
            done.add((fid, w))
            fn = P.fns[fid]
            unit = f"{m}.{'b' if w == 8 else 'w'}"
            where = fn_where(fn)
            names = [l["name"] for l in fn["locals"][1:fn["argc"] + 1]]
            cname, vname = names[-1] or "arg3", names[-2] or "arg2"
            bad = {}        # finding kind -> (count, witness text)
            undec = {}
            n_ok = 0
            for k in counts:
                if k == 0:
                    continue
                ebits, ecf = reference_shift(m, w, k, vname)
                shift = m in ("shl", "sal", "shr", "sar")
                atoms = set()
                for b in [ecf, ebits[w - 1]] + ([ebits[w - 2], ("c", vname, w - 1)] if k == 1 else []):
                    if isinstance(b, tuple):
                        atoms.add((b[1], b[2]))
                atoms = sorted(atoms)
                todo = [dict(zip(atoms, vals)) for vals in product((0, 1), repeat=len(atoms))]
                refined_once = set()
                while todo:
                    sigma = todo.pop()
                    try:
                        s = summarize_fn(ctx, fn, specialise={cname: k}, assume=sigma)
                    except Unsupported as e:
                        undec.setdefault("run", (k, str(e)))
                        continue
                    if s.st.dead or s.ret is None or s.ret.kind != "int":
                        undec.setdefault("run", (k, "no returning path (abort sites: R7)"))
                        continue
                    # a flag that is still not a constant although its reference is: partition further on the (few) input
                    # bits it depends on, once
                    key_sigma = tuple(sorted(sigma.items()))
                    if key_sigma not in refined_once:
                        from domains import bits_all_deps
                        extra = set()
                        for fb in ("CF", "SF", "OF"):
                            gb = _subst(s.flag.bits[FBIT[fb]], sigma)
                            if isinstance(gb, tuple) and gb != ("c", "flag", FBIT[fb]):
                                extra |= {d for d in bits_all_deps((gb,)) if d not in sigma and d[0] in (vname, "flag")}
                        if extra and len(extra) <= 3 and len(sigma) + len(extra) <= 6:
                            ex = sorted(extra)
                            for vals2 in product((0, 1), repeat=len(ex)):
                                s2 = dict(sigma)
                                s2.update(zip(ex, vals2))
                                refined_once.add(tuple(sorted(s2.items())))
                                todo.append(s2)
                            continue
                    want = [_subst(b, sigma) for b in ebits]
                    got = [_subst(b, sigma) for b in s.ret.bits]
                    wit = ", ".join(f"{a.upper() if a == 'flag' else a} bit {i} = {v}" for (a, i), v in sigma.items())
                    for j in range(w):
                        g, e = got[j], want[j]
                        if g == e:
                            continue
                        if isinstance(g, tuple) and g[0] == "d" or not (g in (0, 1) or (isinstance(g, tuple) and g[0] in "cn")):
                            undec.setdefault("result", (k, f"bit {j} not tracked exactly"))
                        else:
                            def show(x):
                                return str(x) if x in (0, 1) else f"{'' if x[0] == 'c' else 'not '}{'CF' if x[1] == 'flag' else 'operand bit ' + str(x[2])}"
                            bad.setdefault("result-differs", (k, f"count {k}: result bit {j} is {show(g)}, {k} single-bit steps give {show(e)}" + (f" ({wit})" if wit else "")))
                    ecf_v = _subst(ecf, sigma)
                    gcf = _subst(s.flag.bits[FBIT["CF"]], sigma)
                    if ecf_v in (0, 1):
                        if gcf == ecf_v:
                            pass
                        elif gcf in (0, 1):
                            bad.setdefault("cf-differs", (k, f"count {k}: CF = {gcf}, the last bit moved out is {ecf_v} ({wit})"))
                        else:
                            undec.setdefault("CF", (k, "CF not a constant under the partition"))
                    res_msb = _subst(ebits[w - 1], sigma)
                    if shift and res_msb in (0, 1):
                        gsf = _subst(s.flag.bits[FBIT["SF"]], sigma)
                        if gsf == res_msb:
                            pass
                        elif gsf in (0, 1):
                            bad.setdefault("sf-differs", (k, f"count {k}: SF = {gsf}, the top bit of the result is {res_msb} ({wit})"))
                        else:
                            undec.setdefault("SF", (k, "SF not a constant under the partition"))
                    if k == 1:
                        msb2 = _subst(ebits[w - 2], sigma)
                        old_msb = sigma.get((vname, w - 1))
                        if m in ("shl", "sal", "rol", "rcl"):
                            eof = _xor(res_msb, ecf_v)
                        elif m == "shr":
                            eof = old_msb
                        elif m == "sar":
                            eof = 0
                        else:
                            eof = _xor(res_msb, msb2)
                        gof = _subst(s.flag.bits[FBIT["OF"]], sigma)
                        if eof is None:
                            undec.setdefault("OF", (k, "reference OF not constant under the partition"))
                        elif gof == eof:
                            pass
                        elif gof in (0, 1):
                            bad.setdefault("of-differs", (k, f"count 1: OF = {gof}, the manual gives {eof} ({wit})"))
                        else:
                            undec.setdefault("OF", (k, "OF not a constant under the partition"))
                    n_ok += 1
            for kind, (k, text) in sorted(bad.items()):
                chk.violation("C02.R12", unit, kind, f"{fn['name']}: {text}", where, witness=text)
            for kind, (k, text) in sorted(undec.items()):
                if kind not in bad:
                    chk.undecided_("C02.R12", f"{unit}:{kind}", f"count {k}: {text}")
            if not bad and not undec:
                chk.ok("C02.R12", unit, f"{len([c for c in counts if c])} counts x input partitions ({n_ok} runs): result bits, CF{', SF' if m in ('shl', 'sal', 'shr', 'sar') else ''} and OF@1 equal the single-step reference")
            elif not bad:
                chk.ok("C02.R12", unit + ":partial", f"{n_ok} runs, no exact bit differs from the reference", nontrivial=False)


def result_flag_rule(ctx, chk, tabs):
    """C02.R13.  SF, ZF and PF of the logic ops and of the shifts are "set from the result".  The result itself is decided
    elsewhere (R1/R2 bit-exact for logic ops, R12 for every shift count), so what is left is that the three flags look at
    *that value*: the booleans handed to the flag routine (`bool_flag_map` finds which sets which) must be
      ZF: `x == 0`   SF: `x >= 2^(w-1)` / `x & 2^(w-1) != 0` / `(x as signed) < 0`   PF: parity helper applied to x
    with x bit-for-bit the value the helper returns (same value instance in the abstract run; shifts are run with a
    count of 1..255 so that the count-0 early return is not joined in).  The parity helper is decided on the bit
    domain (xor-folds are exact linear forms over GF(2))."""
    from rules_c01 import bool_flag_map, parity_verdict
    P = ctx.program
    done = set()
    for nt in ("byte_binary_logical", "word_binary_logical", "byte_shift_rotate", "word_shift_rotate"):
        w = 8 if nt.startswith("byte") else 16
        for m, fid in sorted((k_, v) for k_, v in tabs[nt].items() if isinstance(k_, str)):
            if fid is None or fid not in P.fns or fid in done or m in ("rol", "ror", "rcl", "rcr"):
                continue
            done.add(fid)
            fn = P.fns[fid]
            unit = f"{m}.{'b' if w == 8 else 'w'}"
            where = fn_where(fn)
            names = [l["name"] for l in fn["locals"][1:fn["argc"] + 1]]
            kw = {"ranges": {names[-1] or "arg3": (1, 255)}} if "shift" in nt else {}
            try:
                s = summarize_fn(ctx, fn, **kw)
            except Unsupported as e:
                chk.undecided_("C02.R13", unit, str(e))
                continue
            res = s.ret
            if s.st.dead or res is None or res.kind != "int":
                chk.undecided_("C02.R13", unit, "no integer result")
                continue
            if m == "test":
                res = None   # TEST returns its first operand; the flags look at the conjunction: identity with the return does not apply
            decided = {}
            for e in s.I.events:
                if e.kind == "call" and getattr(e, "fref", None) and e.fref.get("local"):
                    for bit, (path, pol) in bool_flag_map(ctx, e).items():
                        v = e.args[path[0]] if len(path) == 1 else e.args[path[0]].fields[path[1]]
                        decided[bit] = (v, pol)
            top = 1 << (w - 1)
            for f in ("ZF", "SF", "PF"):
                u = f"{unit}:{f}"
                if FBIT[f] not in decided:
                    chk.undecided_("C02.R13", u, "no boolean handed to a flag routine decides this flag")
                    continue
                v, pol = decided[FBIT[f]]
                pr = getattr(v, "pred", None)
                # the *form* of the test is judged first, whatever value it looks at: ZF must be `x == 0`, SF the top bit of a
                # w-bit x.  A comparison of x with a constant denotes a set of x values; it must be exactly {0} / [2^(w-1), 2^w-1].
                if f in ("ZF", "SF") and pr is not None and pr[0] == "cmp" and pr[3].kind == "int" and pr[3].is_const() and pr[2].kind == "int" \
                        and not pr[2].signed and pr[2].w == w and not (getattr(pr[2], "pred", None) and pr[2].pred[0] == "bit"):
                    c_ = pr[3].lo
                    full = range(0, 1 << w)
                    sat = {"Eq": lambda x: x == c_, "Ne": lambda x: x != c_, "Lt": lambda x: x < c_, "Le": lambda x: x <= c_,
                           "Gt": lambda x: x > c_, "Ge": lambda x: x >= c_}[pr[1]]
                    wantf = (lambda x: x == 0) if f == "ZF" else (lambda x: x >= top)
                    bad_x = None
                    for x_ in (0, 1, top - 1, top, top + 1, (1 << w) - 1, c_ - 1 if c_ > 0 else 0, c_, min(c_ + 1, (1 << w) - 1)):
                        if 0 <= x_ < (1 << w) and (bool(sat(x_)) == bool(pol)) != wantf(x_):
                            bad_x = x_
                            break
                    if bad_x is not None:
                        chk.violation("C02.R13", unit, f"{f}-test", f"{fn['name']}: {f} is set iff the tested value x satisfies `x {pr[1]} {c_}`"
                                      f"{'' if pol else ' (negated)'}; for x = {bad_x:#x} that is {int(bool(sat(bad_x)) == bool(pol))}, but {f} must be "
                                      f"{int(wantf(bad_x))} ({'x == 0' if f == 'ZF' else 'the top bit of x'})", where, witness=f"result {bad_x:#x}")
                        continue
                if res is None:
                    chk.undecided_("C02.R13", u, "TEST: the tested value is not returned")
                    continue
                if f == "PF":
                    k, t = parity_verdict(ctx, s, v, pol, None, {}, result_value=res)
                    if k == "ok":
                        chk.ok("C02.R13", u, t)
                    elif k == "bad":
                        chk.violation("C02.R13", unit, "PF-source", f"{fn['name']}: {t}", where)
                    else:
                        chk.undecided_("C02.R13", u, t)
                    continue
                x = None
                form = None
                if pr is not None and pr[0] == "cmp" and pol == 1:
                    op, a_, b_ = pr[1], pr[2], pr[3]
                    if f == "ZF" and op == "Eq" and b_.kind == "int" and b_.is_const() and b_.lo == 0:
                        x, form = a_, "x == 0"
                    elif f == "SF" and op == "Ge" and b_.kind == "int" and b_.is_const() and b_.lo == top:
                        x, form = a_, f"x >= {top}"
                    elif f == "SF" and op == "Gt" and b_.kind == "int" and b_.is_const() and b_.lo == top - 1:
                        x, form = a_, f"x > {top - 1}"
                    elif f == "SF" and op == "Ne" and b_.kind == "int" and b_.is_const() and b_.lo == 0 and getattr(a_, "pred", None) and a_.pred[0] == "bit" and a_.pred[2] == w - 1:
                        x, form = a_.pred[1], f"x & {top} != 0"
                    elif f == "SF" and op == "Lt" and b_.kind == "int" and b_.is_const() and b_.lo == 0 and a_.kind == "int" and a_.signed and a_.w == w:
                        x, form = a_, "(x as signed) < 0"
                if x is None:
                    chk.undecided_("C02.R13", u, "the flag's boolean is not one of the recognised tests of a value")
                elif x.kind == "int" and x.bits[:w] == res.bits[:w]:
                    chk.ok("C02.R13", u, f"{form} with x the returned result")
                else:
                    chk.undecided_("C02.R13", u, f"{form}, but x is not visibly the returned result")
