"""Grammar-driven analysis units: run a production of one of the three MIR-backed grammars
(interpreter, data_parser, print) the way the generated LR parser would: the actions of the
right-hand-side nonterminals first (left to right, bottom up), then the production's own action,
all on one abstract machine state.  Engine G supplies production -> action index, engine M the
MIR of `__action<N>`, engine V the abstract execution."""
import re
import mir as M
from absint import IntV, AggV, EnumV, TopV, RefV, MemV, FnV, UNIT, State, Interp, Unsupported, vjoin, NeedSplit
from program import build_vm, arch_index, fresh_value

MODULE = {
    "interpreter": ("lib", "interpreter::interpreter"),
    "data_parser": ("lib", "data_parser::data_parser"),
    "preprocessor": ("lib", "preprocessor::preprocessor"),
    "print": ("bin", "driver::print"),
}


class Gram:
    def __init__(self, ctx, which):
        self.ctx = ctx
        self.which = which
        self.g = ctx.facts.gram(which)
        self.P = ctx.program
        crate, mod = MODULE[which]
        self.crate = crate
        self.mod = mod
        self.nts = {n["name"]: n for n in self.g["nonterminals"]}
        self.actions = self.g["actions"]
        self.params = [p for p in self.g["params"]]

    def action_fn(self, idx):
        return self.P.by_name.get((self.crate, f"{self.mod}::__action{idx}"))

    def productions(self, nt):
        return self.nts[nt]["productions"]

    def passes_through(self, p):
        """name of the single nonterminal a production hands on unchanged (`a = { b, c }`, `<x:b> => x`), else None"""
        nts = [(i, s["name"]) for i, s in enumerate(p["symbols"]) if s["t"] == "nt"]
        if len(nts) != 1 or any(s["t"] == "term" for s in p["symbols"]):
            return None
        ua = self.main_user_action(p["action"])
        if ua.get("kind") == "user":
            names = ua.get("arg_names") or []
            i = nts[0][0]
            code = (ua.get("code") or "").strip()
            unit_ty = code in ("()", "") and (self.nts.get(nts[0][1], {}).get("type") == "()")
            if not unit_ty and not (i < len(names) and code == names[i] and names[i] not in ("", "_")):
                return None
        return nts[0][1]

    def instruction_productions(self, nt, depth=0):
        """like leaf_productions, but also looks through wrapper alternatives that consist of one nonterminal and
        transform its value (`<r:inner> => match r {..}`): for rules about what an instruction does to the machine the
        productions that contain the operands are the units"""
        out = []
        for k, p in enumerate(self.productions(nt)):
            nts = [s["name"] for s in p["symbols"] if s["t"] == "nt"]
            terms = [s for s in p["symbols"] if s["t"] == "term"]
            if len(nts) == 1 and not terms and depth < 4 and nts[0] in self.nts and len(self.productions(nts[0])) > 1:
                out.extend(self.instruction_productions(nts[0], depth + 1))
            else:
                out.append((nt, k, p))
        return out

    def leaf_productions(self, nt, depth=0):
        """the productions of nt with pure pass-through alternatives replaced by the productions of the nonterminal they
        hand on (an instruction nonterminal split into sub-nonterminals is the same list of instruction productions):
        [(nonterminal that owns the production, index there, production)]"""
        out = []
        for k, p in enumerate(self.productions(nt)):
            inner = self.passes_through(p) if depth < 4 else None
            if inner is not None and inner in self.nts and self.nts[inner].get("type") == self.nts[nt].get("type"):
                out.extend(self.leaf_productions(inner, depth + 1))
            else:
                out.append((nt, k, p))
        return out

    def user_actions_of(self, action_idx, acc=None):
        """indices of the user action functions reached from a (possibly inline) action"""
        acc = [] if acc is None else acc
        a = self.actions[action_idx]
        if a["kind"] == "user":
            acc.append(action_idx)
        elif a["kind"] == "inline":
            for s in a["symbols"]:
                if "inl" in s:
                    self.user_actions_of(s["inl"], acc)
            self.user_actions_of(a["action"], acc)
        return acc

    def main_user_action(self, action_idx):
        a = self.actions[action_idx]
        while a["kind"] == "inline":
            a = self.actions[a["action"]]
        return a

    def prod_label(self, nt, k):
        p = self.productions(nt)[k]
        rhs = " ".join(s["name"] for s in p["symbols"])
        return f"{nt} = {rhs}"

    def is_passthrough(self, nt, k):
        """alternative like `byte_reg = reg_cl` without code"""
        p = self.productions(nt)[k]
        a = self.main_user_action(p["action"])
        return a["kind"] == "user" and a["code"].strip() in ("(<>)", "<>", "__0")


class ProdRunner:
    """Executes productions on an abstract machine."""

    def __init__(self, gram, I, st, param_values, chooser=None, overrides=None):
        self.G = gram
        self.I = I
        self.st = st
        self.params = param_values  # list of V for the grammar parameters (current, vm, context, input)
        self.chooser = chooser or (lambda path, nt, prods: None)
        self.overrides = overrides or {}
        self.outcomes = []
        self.trace = []

    def token(self, path, term):
        name = "tok" + "_".join(str(p) for p in path)
        return TopV("&str", frozenset({(name, 0)}), tag=("tok", name, term))

    def triple(self, v):
        u = IntV.top("usize", frozenset(), 0, (1 << 63) - 1)
        return AggV("tuple", [u, v, u])

    def run(self, nt, k, path=()):
        """returns the value of the production (None if every path diverges)"""
        G = self.G
        p = G.productions(nt)[k]
        vals = []
        for i, s in enumerate(p["symbols"]):
            sp = path + (i,)
            if s["t"] == "term":
                vals.append(self.triple(self.token(sp, s["name"])))
            else:
                v = self.run_nt(s["name"], sp)
                if v is None:
                    return None
                vals.append(self.triple(v))
        fn = G.action_fn(p["action"])
        if fn is None:
            raise Unsupported(f"no MIR for action {p['action']} of {nt}")
        self.trace.append((path, nt, k, p["action"]))
        args = list(self.params) + vals
        rv = self.I.run_fn(fn, args, self.st)
        if rv is not None and G.actions[p["action"]]["fallible"]:
            rv = self.unwrap_ok(rv, path, nt, k)
        return rv

    def unwrap_ok(self, rv, path, nt, k):
        """the generated parser continues only with Ok(v); Err(e) ends the parse with a reported error"""
        if rv.kind == "enum":
            if rv.variant == 0:
                self.outcomes.append((path, nt, k, "ok"))
                return rv.fields[0] if rv.fields else UNIT
            if rv.variant == 1:
                self.outcomes.append((path, nt, k, "err"))
                return None
            self.outcomes.append((path, nt, k, "ok|err"))
            if rv.alts and rv.alts.get(0):
                return rv.alts[0][0]
            return UNIT if rv.alts and 0 in rv.alts else TopV("?", rv.deps())
        return TopV("?", rv.deps())

    def run_nt(self, nt, path):
        G = self.G
        if nt in self.overrides:
            return self.overrides[nt](self.I, self.st, path)
        prods = G.productions(nt)
        choice = self.chooser(path, nt, prods)
        if choice is not None:
            return self.run(nt, choice, path)
        if len(prods) == 1:
            return self.run(nt, 0, path)
        # join over all alternatives
        res = None
        base = self.st
        out_state = None
        for k in range(len(prods)):
            s2 = base.copy()
            saved = self.st
            self.st = s2
            try:
                v = self.run(nt, k, path)
            finally:
                self.st = saved
            if v is None or s2.dead:
                continue
            if res is None:
                res, out_state = v, s2
            else:
                out_state.frames[0]["__rv"] = res
                s2.frames[0]["__rv"] = v
                out_state = self.I.join_states(out_state, s2, 0)
                res = out_state.frames[0].pop("__rv")
        if res is None:
            return None
        # adopt the joined state
        self.st.frames = out_state.frames
        self.st.pc = out_state.pc
        self.st.refined = out_state.refined
        self.st.corr = out_state.corr
        return res


def machine_state(I, P):
    st = State()
    st.frames.append({})
    st.pc.append({})
    st.frames[0]["vm"] = build_vm(I, P, st=st)
    return st


def interp_params(I, P, st):
    """grammar parameters of the interpreter grammar: current, vm, context, input"""
    st.frames[0]["ctx"] = AggV("util::interpreter_util::Context", [
        TopV("HashMap<String,usize>", frozenset({("fn_map", 0)}), tag=("map", "fn_map")),
        TopV("HashMap<String,Label>", frozenset({("label_map", 0)}), tag=("map", "label_map")),
        TopV("Vec<usize>", frozenset({("call_stack", 0)}), tag=("vec", "call_stack")),
    ])
    cur = I.new_atom("usize", "current", 0, (1 << 62))
    return [cur, RefV((0, "vm", ())), RefV((0, "ctx", ())), TopV("&str", tag=("input",))]


def addr_atom(name="m"):
    """override for memory_addr / label nonterminals: an arbitrary valid physical address"""
    def f(I, st, path):
        return I.new_atom("usize", name + "".join(str(p) for p in path), 0, (1 << 20) - 1)
    return f


def address_overrides(G):
    """overrides that replace every addressing nonterminal -- memory_addr, the label forms and any wrapper nonterminal
    that only hands one of them on -- by one arbitrary valid physical address"""
    ov = {"memory_addr": addr_atom("m"), "byte_label": addr_atom("lb"), "word_label": addr_atom("lw")}
    try:
        from rules_c04 import address_wrappers
        for w in address_wrappers(G):
            ov.setdefault(w, addr_atom("m"))
    except Exception:  # noqa
        pass
    return ov


def run_interp_production(ctx, nt, k, chooser=None, assume=None, split=frozenset(), pre=None, overrides=None):
    """one abstract run of an interpreter production; returns (Interp, State, value, runner)"""
    P = ctx.program
    G = ctx.gram("interpreter")
    I = Interp(P, assume=assume, split=split)
    st = machine_state(I, P)
    params = interp_params(I, P, st)
    if pre:
        pre(I, st)
    r = ProdRunner(G, I, st, params, chooser, overrides)
    v = r.run(nt, k)
    return I, st, v, r


def grammar_params(which, I, P, st):
    """abstract values of the grammar parameters of each MIR-backed grammar"""
    if which == "interpreter":
        return interp_params(I, P, st)
    if which == "data_parser":
        st.frames[0]["counter"] = I.new_atom("usize", "counter", 0, (1 << 48))
        return [RefV((0, "vm", ())), RefV((0, "counter", ())), TopV("&str", tag=("input",))]
    if which == "print":
        return [RefV((0, "vm", ())), TopV("&str", tag=("input",))]
    if which == "preprocessor":
        st.frames[0]["pctx"] = fresh_value(I, P, "util::preprocessor_util::Context", "pctx")
        st.frames[0]["pout"] = fresh_value(I, P, "util::preprocessor_util::Output", "pout")
        return [RefV((0, "pctx", ())), RefV((0, "pout", ())), TopV("&str", tag=("input",))]
    raise Unsupported("grammar " + which)


def run_production(ctx, which, nt, k, chooser=None, assume=None, split=frozenset(), pre=None, overrides=None, hints=None):
    P = ctx.program
    G = ctx.gram(which)
    I = Interp(P, assume=assume, split=split)
    if hints:
        I.range_hints.update(hints)
    st = machine_state(I, P)
    params = grammar_params(which, I, P, st)
    if pre:
        pre(I, st)
    r = ProdRunner(G, I, st, params, chooser, overrides)
    v = r.run(nt, k)
    return I, st, v, r


def run_split(fn_run, split, limit=2048):
    """trace partitioning: fn_run(assume, split) -> result ; returns [(assume, result)]"""
    out = []
    todo = [dict()]
    while todo:
        if len(out) + len(todo) > limit:
            raise Unsupported("too many partitions")
        asm = todo.pop()
        try:
            r = fn_run(asm, frozenset(x for x in split if x not in asm))
            out.append((asm, r))
        except NeedSplit as e:
            for v in (0, 1):
                a2 = dict(asm)
                a2[(e.atom, e.bit)] = v
                todo.append(a2)
    return out
