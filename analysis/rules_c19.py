"""C19 — runs are reproducible; machines and parser objects do not leak state.

Everything here is a shape fact of the type-checked program: what state exists outside the objects a
caller passes in (none), through which kind of reference the parser objects are used (&self), which
auto traits the compiler derives (Freeze, Send, Sync), which loops iterate a hash container in an
observable way, which non-deterministic std services are called, and the constant a new machine is
initialised with (abstract run of VM::new: every field a constant)."""
import re
import mir as M
from absint import Interp, State

EXPL = (
    "R1 no global state: neither crate declares a static (mutable, interior-mutable or thread-local statics would be "
    "state shared between machines / parser objects / runs); compile-time-evaluated consts are not state. "
    "R2 parser objects and machines are plain owned data: the four generated parse() methods take &self, the parser "
    "structs, VM, i8086 and both Context types are Freeze (no interior mutability reachable without indirection), "
    "Send and Sync (rustc's own auto-trait derivation, so no Rc/Cell/raw pointer anywhere inside), and no hand-written "
    "body of either crate contains an `unsafe` block -> a &self parser cannot retain anything between lines, and two "
    "VMs share nothing. R3 hash-order lint: every loop that iterates a HashMap/HashSet (randomly seeded order) and "
    "whose body prints, formats a message, or leaves the loop early carrying the element, produces run-dependent "
    "output. R4 no call to clocks, random numbers, environment variables, thread ids or pointer formatting from any "
    "local function. R5 initial state: abstract run of VM::new: every register field is the constant 0 except "
    "FLAGS=F000h and CS=FFFFh, memory is a freshly zeroed boxed array; Default::default delegates to new. "
    "R6 residual state: on every action path of the assembler, error paths included, the names really inserted into the "
    "set of macros being expanded equal the names removed and source locks equal unlocks (unless Context::clear resets "
    "the field): a Context that has processed a rejected source answers the next one like a fresh Context. "
    "NOT decided: byte-identity of whole outputs (follows from R1-R4 only as far as std's own determinism goes); "
    "OS thread scheduling is irrelevant because R1/R2 leave nothing shared."
)

HASH_ITER_TY = re.compile(r"collections::hash_(map|set)::(Iter|IterMut|Keys|Values|ValuesMut|IntoIter|IntoKeys|IntoValues|Drain|Difference|Intersection|Union|SymmetricDifference)\b")
PRINT_CALLEE = re.compile(r"std::io::_print$|std::io::_eprint$|fmt::format$|alloc::fmt::format|Write>::write_fmt$|Write::write_fmt$|String::push_str$")
NONDET = re.compile(r"std::time::|SystemTime|Instant::|std::env::(var|vars|var_os|vars_os|temp_dir|current_dir)|rand::|RandomState::new|thread::current|thread::spawn|fmt::Pointer|process::id$|getrandom")

PARSERS = {
    "interpreter::interpreter::__parse__Interpreter::InterpreterParser": "lib",
    "preprocessor::preprocessor::__parse__Preprocessor::PreprocessorParser": "lib",
    "data_parser::data_parser::__parse__Data::DataParser": "lib",
    "driver::print::__parse__Print::PrintParser": "bin",
}
OWNED = {
    "vm::VM": "lib",
    "arch::i8086": "lib",
    "util::interpreter_util::Context": "lib",
    "util::preprocessor_util::Context": "lib",
    "util::preprocessor_util::Output": "lib",
    "util::preprocessor_util::SourceMapper": "lib",
    "preprocessor::lexer_helper::LexerHelper": "lib",
}


def natural_loop(cfg, tail, head):
    body = {head}
    st = [tail]
    while st:
        b = st.pop()
        if b in body:
            continue
        body.add(b)
        st.extend(cfg.pred[b])
    return body


def hash_loops(fn):
    """(head, body blocks, next-call block, iterator type) of every loop driven by a hash container iterator"""
    cfg = M.CFG(fn)
    out = []
    loops = {}
    for tail, head in cfg.back_edges():
        loops.setdefault(head, set()).update(natural_loop(cfg, tail, head))
    for bi, t in M.calls_in(fn):
        if bi not in cfg.reach:
            continue
        d = t[1].get("inst") or t[1].get("def") or ""
        if not d.endswith("::next"):
            continue
        m = HASH_ITER_TY.search(d)
        if not m:
            # the receiver type names the iterator
            aty = t[2][0][1].get("ty", "") if t[2] and t[2][0][0] != "const" else ""
            m = HASH_ITER_TY.search(aty)
        if not m:
            continue
        for head, body in loops.items():
            if bi in body:
                out.append((cfg, head, body, bi, m.group(0)))
    return out


COLLECT = re.compile(r"Iterator>::collect::|Iterator::collect$|FromIterator<.*>>::from_iter$|Extend<.*>>::extend$")
SORT = re.compile(r"<impl \[.*\]>::sort(_by|_by_key|_unstable|_unstable_by|_unstable_by_key|_by_cached_key)?$|<impl \[T\]>::sort")
THROUGH = ("IntoIterator>::into_iter", "<impl [T]>::iter", "DerefMut>::deref_mut", "Deref>::deref", "Iterator::enumerate", "Vec::<T, A>::iter")


def hash_ordered_vectors(fn):
    """locals that hold a Vec collected from a hash container's iterator: (local, block of the collect call)"""
    out = []
    for bi, t in M.calls_in(fn):
        d = t[1].get("inst") or t[1].get("def") or ""
        if COLLECT.search(t[1].get("def") or "") or "::collect::<" in d:
            if HASH_ITER_TY.search(d) and re.search(r"Vec<|VecDeque<|String", t[3].get("ty", "")):
                out.append((t[3]["l"], bi))
    return out


def loops_over_local(fn, local):
    """(cfg, head, body, next-block) of loops whose iterator derives from `local`"""
    from cfgtools import Defs, origin
    defs = Defs(fn)
    cfg = M.CFG(fn)
    loops = {}
    for tail, head in cfg.back_edges():
        loops.setdefault(head, set()).update(natural_loop(cfg, tail, head))
    out = []
    for bi, t in M.calls_in(fn):
        if bi not in cfg.reach or not (t[1].get("def") or "").endswith("::next") or not t[2]:
            continue
        o = origin(defs, t[2][0], through_calls=THROUGH)
        base = o[1] if o[0] in ("multi", "param") else None
        if base is None and o[0] == "place":
            base = o[1]["l"]
        if base is None and o[0] == "call":
            base = o[1][3]["l"]
        # follow one more level of moves: `_53 = move _51` where _51 = into_iter(move _43)
        hops = 0
        while base is not None and base != local and hops < 6:
            hops += 1
            ds = defs.all(base)
            nxt = None
            for d in ds:
                if d[0] == "assign" and d[2][2][0] == "use" and d[2][2][1][0] in ("copy", "move") and not d[2][2][1][1]["p"]:
                    nxt = d[2][2][1][1]["l"]
                elif d[0] == "call" and d[2][2] and any((d[2][1].get("def") or "").endswith(x) for x in THROUGH) and d[2][2][0][0] in ("copy", "move"):
                    nxt = d[2][2][0][1]["l"]
                elif d[0] == "assign" and d[2][2][0] == "ref":
                    nxt = d[2][2][1]["l"]
            base = nxt
        if base == local:
            for head, body in loops.items():
                if bi in body:
                    out.append((cfg, head, body, bi))
    return out


ORDER_SINK = re.compile(r"<impl \[.*\]>::(join|concat|first|last|get)$|::join$|::concat$|Join<.*>>::join$|Concat<.*>>::concat$|Vec::<T, A>::(pop|remove|swap_remove)$|"
                        r"Debug>::fmt$|Argument::<'_>::new_debug|ops::Index<I>>::index$")


def order_sinks(fn, local):
    """calls that read a vector in its element order without a loop (join, concat, first/last, index, Debug formatting):
    (block, callee) for every such call whose argument derives from `local` through borrows, derefs and moves"""
    tainted = {local}
    changed = True
    stm = []
    for bi, b in enumerate(fn["blocks"]):
        for s_ in b.get("stmts", []):
            stm.append((bi, s_))
    calls = list(M.calls_in(fn))
    while changed:
        changed = False
        for bi, s_ in stm:
            if s_[0] != "assign":
                continue
            dst, rv = s_[1], s_[2]
            src = None
            if rv[0] == "use" and rv[1][0] in ("copy", "move"):
                src = rv[1][1]["l"]
            elif rv[0] in ("ref", "addr"):
                src = rv[1]["l"]
            elif rv[0] == "cast" and rv[-1] and isinstance(rv[-1], list) and rv[-1][0] in ("copy", "move"):
                src = rv[-1][1]["l"]
            if src in tainted and dst["l"] not in tainted:
                tainted.add(dst["l"])
                changed = True
        for bi, t in calls:
            name = t[1].get("def") or ""
            if any(name.endswith(x) for x in THROUGH + ("Vec::<T, A>::as_slice", "Borrow<[T]>>::borrow", "AsRef<[T]>>::as_ref", "Index<I>>::index")) and t[2] \
                    and t[2][0][0] in ("copy", "move") and t[2][0][1]["l"] in tainted and t[3]["l"] not in tainted and not name.endswith("Index<I>>::index"):
                tainted.add(t[3]["l"])
                changed = True
    out = []
    for bi, t in calls:
        name = t[1].get("def") or ""
        if ORDER_SINK.search(name) and any(a[0] in ("copy", "move") and a[1]["l"] in tainted for a in t[2]):
            out.append((bi, name))
    return out


def sorted_before(fn, cfg, local, block):
    """a slice sort of `local` dominates `block`"""
    from cfgtools import Defs
    defs = Defs(fn)
    for bi, t in M.calls_in(fn):
        if not SORT.search(t[1].get("def") or "") or not t[2]:
            continue
        # trace the receiver back to the local through &mut / deref_mut
        l = t[2][0][1]["l"] if t[2][0][0] in ("copy", "move") else None
        hops = 0
        while l is not None and l != local and hops < 8:
            hops += 1
            d = defs.single(l)
            if d is None:
                break
            if d[0] == "assign" and d[2][2][0] == "ref":
                l = d[2][2][1]["l"]
            elif d[0] == "assign" and d[2][2][0] == "use" and d[2][2][1][0] in ("copy", "move"):
                l = d[2][2][1][1]["l"]
            elif d[0] == "call" and d[2][2] and d[2][2][0][0] in ("copy", "move"):
                l = d[2][2][0][1]["l"]
            else:
                break
        if l == local and cfg.dominates(bi, block):
            name = t[1].get("def") or ""
            inst = t[1].get("inst") or ""
            if re.search(r"sort(_unstable)?_by_key|sort_by_cached_key", name):
                # a key that is only a projection of the element leaves ties in their previous (hash) order
                m = re.search(r"sort(?:_unstable)?_by(?:_cached)?_key::<(.*), \{closure", inst) or re.search(r"sort(?:_unstable)?_by(?:_cached)?_key::<([^,>]+)", inst)
                elem = re.search(r"<impl \[(.*)\]>::sort", inst)
                kty = m.group(1).strip() if m else None
                ety = elem.group(1).strip().lstrip("&") if elem else None
                if kty is not None and ety is not None and kty.lstrip("&") != ety:
                    return ("partial", kty, ety)
                return True
            if re.search(r"sort(_unstable)?_by$", name):
                return ("comparator",)
            return True
    return False


def run(ctx, chk):
    chk.explanation = EXPL
    P = ctx.program
    chk.rule("C19.R1", "no static / thread-local state in either crate", floor=2)
    chk.rule("C19.R2", "parsers are used through &self; machines and contexts own their data (Freeze+Send+Sync); no unsafe", floor=12)
    chk.rule("C19.R3", "no observable iteration over a hash container", floor=1)
    chk.rule("C19.R4", "no clock / RNG / environment / address in any local function", floor=2)
    chk.rule("C19.R5", "a new machine is all zero except FLAGS=F000h and CS=FFFFh", floor=15)
    chk.rule("C19.R6", "assembler actions leave their bookkeeping (nesting set, source lock) as they found it on every path, error paths included", floor=2)
    chk.assumptions += [
        "std (printing, HashMap with a fixed key set, String) is deterministic apart from hash iteration order",
        "the generated LR drivers (not dumped as MIR) are covered by the type facts of R1/R2: they are safe code without statics",
    ]
    # ---- R1
    for which in ("lib", "bin"):
        m = ctx.facts.mir(which)
        bad = m["statics"]
        if not bad:
            chk.ok("C19.R1", f"crate:{which}", f"0 statics among {len(m['adts'])} ADTs / {len(m['sigs'])} fns / {len(m['consts'])} consts")
        for s in bad:
            if s["mut"] or not s["freeze"] or s["thread_local"]:
                kind = "static mut" if s["mut"] else ("thread_local" if s["thread_local"] else "interior-mutable static")
                chk.violation("C19.R1", s["name"], kind.replace(" ", "-"),
                              f"{kind} {s['name']}: {s['ty']} is state shared by every machine / parser object of the process", s["span"])
            else:
                chk.ok("C19.R1", f"static:{s['name']}", "immutable Freeze static (a constant)")
    # ---- R2
    for which in ("lib", "bin"):
        m = ctx.facts.mir(which)
        adts = {a["name"]: a for a in m["adts"]}
        sigs = {s["name"]: s for s in m["sigs"]}
        for name, w in list(PARSERS.items()) + list(OWNED.items()):
            if w != which:
                continue
            a = adts.get(name)
            if a is None:
                chk.undecided_("C19.R2", name, "type not found (renamed?)")
                continue
            miss = [t for t in ("freeze", "send", "sync") if a.get(t) is not True]
            if miss:
                chk.violation("C19.R2", name, "not-" + "+".join(miss), f"{name} is not {'/'.join(miss)}: it can hold shared or interior-mutable state", name)
            else:
                chk.ok("C19.R2", f"{name}:auto-traits", "Freeze+Send+Sync")
            if name in PARSERS:
                s = sigs.get(name + "::parse")
                if s is None:
                    chk.undecided_("C19.R2", name + "::parse", "signature not found")
                elif s["inputs"] and s["inputs"][0].startswith("&") and not s["inputs"][0].startswith("&mut") and "mut " not in s["inputs"][0].split(" ")[0]:
                    chk.ok("C19.R2", f"{name}::parse", f"receiver {s['inputs'][0]}")
                else:
                    chk.violation("C19.R2", name + "::parse", "receiver-not-shared-ref", f"parse takes {s['inputs'][:1]}: the parser object can change between lines", name)
        nb = 0
        for f in m["fns"]:
            nb += 1
            for sp in f.get("unsafe_blocks", []):
                chk.violation("C19.R2", f["name"], "unsafe-block", f"unsafe block in {f['name']}: Rust's aliasing guarantees (a &VM cannot be written, objects share nothing) no longer follow from the types", sp)
        for s in m["sigs"]:
            if s["unsafe"]:
                chk.violation("C19.R2", s["name"], "unsafe-fn", f"unsafe fn {s['name']}", s["name"])
        chk.ok("C19.R2", f"crate:{which}:unsafe", f"0 unsafe blocks in {nb} bodies, 0 unsafe fns")
    # ---- R3
    nloops = 0
    for which in ("lib", "bin"):
        for f in ctx.facts.mir(which)["fns"]:
            for cfg, head, body, nb, ity in hash_loops(f):
                nloops += 1
                unit = f["name"].split("::")[-1]
                file = f["span"].rsplit(":", 2)[0]
                def is_print(b):
                    t = M.term(f["blocks"][b])
                    return t[0] == "call" and PRINT_CALLEE.search(t[1].get("def") or "")
                prints = [b for b in sorted(body) if is_print(b)]
                # the iterator's own exit: the arm for discriminant 0 (None) of the switch that follows next()
                none_target = None
                nxt = M.succs(f["blocks"][nb])
                if nxt:
                    t = M.term(f["blocks"][nxt[0]])
                    if t[0] == "switch":
                        for val, tgt in t[2]:
                            if val == 0:
                                none_target = tgt
                after = cfg.reachable_from(none_target) if none_target is not None else set()
                early = []
                for b in sorted(body):
                    for s_ in cfg.succ[b]:
                        if s_ in body or s_ == none_target or M.term(f["blocks"][s_])[0] == "unreachable":
                            continue
                        early.append(s_)
                # code reached only by leaving the loop early (with the current element in hand)
                early_only = set()
                for e in early:
                    early_only |= cfg.reachable_from(e) - after
                prints += [b for b in sorted(early_only) if is_print(b)]
                line = f["blocks"][nb]["term"]["line"]
                if prints:
                    how = "prints/formats inside the loop" + (" and leaves it early" if early else "")
                    chk.violation("C19.R3", unit, f"hash-order-output:{ity.split('::')[-2]}",
                                  f"{f['name']} iterates a {ity} (per-process random order) and {how}: which element is reported "
                                  f"{'first' if early else 'in which order'} differs from run to run", f"{file}:{line}")
                else:
                    chk.ok("C19.R3", f"{unit}@bb{head}", f"{ity}: loop body neither prints nor formats")
    # hash iteration collected into a Vec and looped over: deterministic only if sorted first
    for which in ("lib", "bin"):
        for f in ctx.facts.mir(which)["fns"]:
            for local, cb in hash_ordered_vectors(f):
                unit = f["name"].split("::")[-1]
                file = f["span"].rsplit(":", 2)[0]
                for cfg, head, body, nb in loops_over_local(f, local):
                    nloops += 1

                    def is_print(b):
                        t = M.term(f["blocks"][b])
                        return t[0] == "call" and PRINT_CALLEE.search(t[1].get("def") or "")
                    none_target = None
                    nxt = M.succs(f["blocks"][nb])
                    if nxt:
                        t = M.term(f["blocks"][nxt[0]])
                        if t[0] == "switch":
                            none_target = next((tg for v, tg in t[2] if v == 0), None)
                    after = cfg.reachable_from(none_target) if none_target is not None else set()
                    early_only = set()
                    for b in body:
                        for s_ in cfg.succ[b]:
                            if s_ not in body and s_ != none_target and M.term(f["blocks"][s_])[0] != "unreachable":
                                early_only |= cfg.reachable_from(s_) - after
                    observable = any(is_print(b) for b in body | early_only)
                    line = f["blocks"][nb]["term"]["line"]
                    if not observable:
                        chk.ok("C19.R3", f"{unit}@bb{head}", "vector collected from a hash container: loop body neither prints nor formats")
                    elif sorted_before(f, cfg, local, head) is True:
                        chk.ok("C19.R3", f"{unit}@bb{head}", "vector collected from a hash container is sorted (total order on the elements) before the reporting loop")
                    elif isinstance(sorted_before(f, cfg, local, head), tuple) and sorted_before(f, cfg, local, head)[0] == "partial":
                        _, kty, ety = sorted_before(f, cfg, local, head)
                        chk.violation("C19.R3", unit, "hash-order-output:sorted-by-partial-key",
                                      f"{f['name']} sorts the vector collected from a hash container by a key of type {kty}, which is only part of the element ({ety}): "
                                      f"elements with equal keys keep their per-process random order, and the first one reported differs from run to run", f"{file}:{line}")
                    elif isinstance(sorted_before(f, cfg, local, head), tuple):
                        chk.undecided_("C19.R3", f"{unit}@bb{head}", "sorted with a custom comparator: totality of the order not decided")
                    else:
                        chk.violation("C19.R3", unit, "hash-order-output:collected-unsorted",
                                      f"{f['name']} collects a hash container into a vector and reports from it without sorting: the order is still the per-process random hash order",
                                      f"{file}:{line}")
    # ... or read in element order without a loop (join, concat, first/last/index, Debug formatting), or collected into a text
    for which in ("lib", "bin"):
        for f in ctx.facts.mir(which)["fns"]:
            unit = f["name"].split("::")[-1]
            file = f["span"].rsplit(":", 2)[0]
            for bi, t in M.calls_in(f):
                d = t[1].get("inst") or t[1].get("def") or ""
                if (COLLECT.search(t[1].get("def") or "") or "::collect::<" in d) and HASH_ITER_TY.search(d) and re.match(r"(std::string::|alloc::string::)?String$", t[3].get("ty", "")):
                    nloops += 1
                    chk.violation("C19.R3", unit, "hash-order-output:text-collected",
                                  f"{f['name']} concatenates the elements of a hash container into a String in iteration order (per-process random)",
                                  f"{file}:{f['blocks'][bi]['term']['line']}")
            for local, cb in hash_ordered_vectors(f):
                cfg = M.CFG(f)
                for bi, name in order_sinks(f, local):
                    nloops += 1
                    line = f["blocks"][bi]["term"]["line"]
                    sb = sorted_before(f, cfg, local, bi)
                    if sb is True:
                        chk.ok("C19.R3", f"{unit}@bb{bi}", "vector collected from a hash container is sorted before it is read in order")
                    elif isinstance(sb, tuple):
                        chk.undecided_("C19.R3", f"{unit}@bb{bi}", "sorted by a key or comparator before an order-sensitive read: totality not decided")
                    else:
                        chk.violation("C19.R3", unit, "hash-order-output:read-in-order-unsorted",
                                      f"{f['name']} collects a hash container into a vector and reads it in element order ({name.split('::')[-1]}) without sorting: "
                                      f"the resulting text/element differs from run to run", f"{file}:{line}")
    if nloops == 0:
        chk.ok("C19.R3", "all-functions", "no loop over a hash container in either crate", nontrivial=False)
    chk.extra["hash_loops"] = nloops
    # ---- R4
    for which in ("lib", "bin"):
        m = ctx.facts.mir(which)
        ncalls = 0
        hits = []
        for f in m["fns"]:
            for bi, t in M.calls_in(f):
                ncalls += 1
                d = t[1].get("def") or ""
                if NONDET.search(d):
                    hits.append((f, bi, d))
        for f, bi, d in hits:
            chk.violation("C19.R4", f["name"].split("::")[-1], "nondeterministic-source:" + d.split("::")[-1],
                          f"{f['name']} calls {d}: output or state can differ between identical runs",
                          f"{f['span'].rsplit(':', 2)[0]}:{f['blocks'][bi]['term']['line']}")
        if not hits:
            chk.ok("C19.R4", f"crate:{which}", f"{ncalls} call sites, none to a clock/RNG/env/thread-id/pointer-format service")
    # ---- R5
    fn = P.find("lib", "vm::VM::new")
    if fn is None:
        chk.undecided_("C19.R5", "VM::new", "function not found")
    else:
        I = Interp(P)
        st = State()
        st.frames.append({})
        st.pc.append({})
        r = I.run_fn(fn, [], st)
        where = fn["span"].rsplit(":", 1)[0]
        if r is None or r.kind != "agg":
            chk.undecided_("C19.R5", "VM::new", f"abstract value {r!r}")
        else:
            vmadt = P.find_adt("vm::VM")["variants"][0]["fields"]
            arch = P.find_adt("arch::i8086")["variants"][0]["fields"]
            want = {"flag": 0xF000, "cs": 0xFFFF}
            for (fname, fty), v in zip(vmadt, r.fields):
                if fname == "arch":
                    for (rn, rty), rv in zip(arch, v.fields):
                        w = want.get(rn, 0)
                        if rv.kind == "int" and rv.is_const() and rv.lo == w:
                            chk.ok("C19.R5", f"VM::new:{rn}", f"constant {w:#06x}")
                        elif rv.kind == "int" and rv.is_const():
                            chk.violation("C19.R5", "VM::new", f"{rn}-initial-value", f"a new machine has {rn.upper()}={rv.lo:#06x}, required {w:#06x}", where)
                        else:
                            chk.violation("C19.R5", "VM::new", f"{rn}-not-constant", f"{rn.upper()} of a new machine is not a constant: {rv!r}", where)
                elif fname == "mem":
                    if v.kind == "mem" and not v.cells and v.havoc is None and type(v).__name__ == "ZeroMem":
                        chk.ok("C19.R5", "VM::new:mem", "Box::new([0; 1048576]): fresh zeroed array, no store before return")
                    else:
                        chk.violation("C19.R5", "VM::new", "mem-not-zero", f"memory of a new machine is not a fresh zeroed array: {v!r}", where)
        dflt = P.find("lib", "<vm::VM as std::default::Default>::default")
        if dflt is not None:
            cs = [t[1].get("def") for _, t in M.calls_in(dflt)]
            if cs == ["vm::VM::new"]:
                chk.ok("C19.R5", "VM::default", "delegates to VM::new")
            else:
                chk.violation("C19.R5", "VM::default", "not-new", f"Default for VM calls {cs} instead of VM::new", dflt["span"])
    residual_state_rule(ctx, chk)


def residual_state_rule(ctx, chk):
    """R6: pairing on every action path of the assembler (engine A).  Two pieces of the Context are scratch state of one
    macro expansion: the set of macro names being expanded and the source-position lock.  They are not reset by
    Context::clear (checked: if clear resets a field, imbalance of that field is harmless and not reported), so an action
    path -- in particular one that ends in a diagnostic -- that inserts without removing, or locks without unlocking,
    changes what the same objects answer for the next source."""
    from asm import GramEval
    from rules_c13 import guard_events
    GA = ctx.gram("preprocessor")
    E = GramEval(GA)
    # which scratch fields does Context::clear / SourceMapper::clear reset?
    cleared = set()
    for h in GA.g.get("helpers") or []:
        if h["name"] == "clear" and h.get("self_ty") in ("Context", "SourceMapper"):
            txt = __import__("json").dumps(h["body"])
            if "macro_nesting_counter" in txt:
                cleared.add("nesting")
            if h.get("self_ty") == "SourceMapper" and '"lock"' in txt:
                cleared.add("lock-on-mapper-clear")
    ctx_clear = next((h for h in GA.g.get("helpers") or [] if h["name"] == "clear" and h.get("self_ty") == "Context"), None)
    mapper_reset = ctx_clear is not None and "mapper" in __import__("json").dumps(ctx_clear["body"]) and "lock-on-mapper-clear" in cleared
    n_paths = 0
    for nt_data in GA.g["nonterminals"]:
        nt = nt_data["name"]
        for k, pr in enumerate(nt_data["productions"]):
            ua = GA.main_user_action(pr["action"])
            if ua["kind"] != "user":
                continue
            label = GA.prod_label(nt, k)
            where = f"{GA.g['file']}:{pr['line']}"
            touched = False
            for q in E.prod_paths(nt, k):
                if getattr(q, "action", None) != ua["idx"]:
                    continue
                g = guard_events(q)
                ins = [i for i, real in g["inserts"] if real]
                rem = g["removes"]
                locks = [e.op for e in q.effects if e.kind == "mapper" and e.op in ("lock_source", "unlock_source")]
                if not (g["inserts"] or rem or locks):
                    continue
                touched = True
                n_paths += 1
                kind = "error" if any(e.kind == "error" for e in q.effects) else "ok"
                if len(ins) != len(rem) and "nesting" not in cleared:
                    chk.violation("C19.R6", label, f"nesting-set-unbalanced:{kind}-path",
                                  f"{label}: a path ending in {'a diagnostic' if kind == 'error' else 'success'} inserts {len(ins)} name(s) into the set of macros being expanded and removes {len(rem)}: "
                                  "the name stays behind (Context::clear does not reset the set), so the same objects later reject a valid source as recursive / too deeply nested", where,
                                  witness="conditions of the path: " + "; ".join(f"{c[0]}={c[1]}" for c in q.conds)[:400])
                elif locks.count("lock_source") != locks.count("unlock_source") and not mapper_reset:
                    chk.violation("C19.R6", label, f"source-lock-unbalanced:{kind}-path",
                                  f"{label}: a path locks the source position {locks.count('lock_source')} time(s) and unlocks it {locks.count('unlock_source')} time(s)", where)
                else:
                    chk.ok("C19.R6", f"{label}#{kind}#{n_paths}", f"{len(ins)} insert(s)/{len(rem)} remove(s), {locks.count('lock_source')} lock(s)/{locks.count('unlock_source')} unlock(s)")
    if ctx_clear is None:
        chk.undecided_("C19.R6", "Context::clear", "function not found in the sources")
