"""C13 — macros: recursion-guard protocol, unknown macro rejected, expansion errors re-raised at the use site,
input-driven recursion depth.  The expansion text itself (regex / string replacement) is not decided."""
from asm import GramEval
from astev import Str, Res, tmpl_str
import mir as M

EXPL = (
    "R1 guard protocol in macro_use: on every path that reaches the nested PreprocessorParser::parse the test "
    "macro_nesting_counter.contains(name) (taken false) precedes insert(name), which precedes the parse, and remove(name) "
    "follows it on both the Ok and the Err result; the contains-true path ends in a diagnostic without expanding. "
    "R2 an unknown macro name ends in a diagnostic and emits nothing. R3 an error inside the expansion is re-raised as "
    "a diagnostic of the use site (error! with the outer start/end). R4 depth: the action -> parse -> action cycle is "
    "driven by the input; the rule looks for any depth bound (a comparison involving the nesting set's size or a counter) "
    "on the path to the nested parse. R5 macro_def stores the body under the macro's name after replacing parameters by "
    "positional placeholders; macro_use substitutes the same placeholder syntax (format strings compared). "
    "NOT decided: that regex whole-word substitution equals hand expansion (run-time regex/string semantics)."
)


def run(ctx, chk):
    chk.explanation = EXPL
    GA = ctx.gram("preprocessor")
    E = GramEval(GA)
    chk.rule("C13.R1", "recursion guard: contains -> insert -> parse -> remove on every path", floor=2)
    chk.rule("C13.R2", "unknown macro name is rejected without emitting anything", floor=1)
    chk.rule("C13.R3", "errors inside an expansion are reported at the use site", floor=1)
    chk.rule("C13.R4", "nesting depth of macro expansion is bounded", floor=1)
    chk.rule("C13.R8", "a chain of 64 nested macro uses is still expanded (the depth test counts the open expansions correctly)", floor=1)
    chk.rule("C13.R5", "definition and use agree on the placeholder syntax", floor=1)
    chk.rule("C13.R7", "a macro argument is substituted in a form the assembler can read back", floor=4)
    chk.rule("C13.R6", "parameters are matched as whole words: the pattern is \\b<one name or a group>\\b", floor=1)
    if "macro_use" not in GA.nts:
        chk.violation("C13.R1", "macro_use", "missing", "no macro_use nonterminal", GA.g["file"])
        return
    for k, p in enumerate(GA.productions("macro_use")):
        label = GA.prod_label("macro_use", k)
        where = f"{GA.g['file']}:{p['line']}"
        paths = E.prod_paths("macro_use", k)
        parse_paths = [q for q in paths if any(e.kind == "nested_parse" for e in q.effects)]
        if not parse_paths:
            chk.violation("C13.R1", label, "no-expansion", f"{label}: no path expands the macro", where)
        depth_bound = False
        for q in parse_paths:
            g = guard_events(q)
            ip = g["parse"][0]
            # the name is known not to be in the set before it is inserted: `contains` answered false, or `insert` reported a new element
            absent_known = [i for i, known in g["tests"] if known == "absent" and i < ip]
            ins = [i for i, real in g["inserts"] if real and i < ip]
            rem = [i for i in g["removes"] if i > ip]
            if not absent_known:
                chk.violation("C13.R1", label, "parse-without-recursion-test", f"{label}: a path expands the macro without having established that its name is not already being expanded "
                              "(no `contains` answered false, no `insert` that reported a new element)", where)
            elif not ins or min(absent_known) > max(ins):
                chk.violation("C13.R1", label, "parse-without-insert", f"{label}: the macro's name is not inserted into the nesting set before the nested parse (indirect recursion goes undetected)", where)
            elif not rem:
                chk.violation("C13.R1", label, "no-remove-after-parse", f"{label}: the name is not removed after the nested parse on every path (a second, legitimate use of the macro is rejected as recursive)", where)
            elif len(g["keys"]) > 1:
                chk.violation("C13.R1", label, "guard-key-mismatch", f"{label}: contains/insert/remove use different keys {sorted(g['keys'])}", where)
            else:
                chk.ok("C13.R1", f"{label}#{'err' if any(e.kind == 'error' for e in q.effects) else 'ok'}", "name known absent < insert < parse < remove")
            for c in q.conds:
                if (".len()" in c[0] and "macro_nesting" in c[0]) or "depth" in c[0].lower():
                    depth_bound = True
        rec_paths = [q for q in paths if any(known == "present" for _, known in guard_events(q)["tests"])]
        if rec_paths and all(any(e.kind == "error" for e in q.effects) and not any(e.kind in ("nested_parse", "push") for e in q.effects) for q in rec_paths):
            chk.ok("C13.R1", f"{label}#recursive", "recursive use ends in a diagnostic without expanding")
        else:
            chk.violation("C13.R1", label, "recursion-not-rejected", f"{label}: the path on which the name is already being expanded does not end in a diagnostic", where)
        # R2
        from asm import key_presence
        unk = [q for q in paths if any(key_presence(c, "macro_map") is False for c in q.conds)]
        if unk and all(any(e.kind == "error" for e in q.effects) and not any(e.kind in ("nested_parse", "push") for e in q.effects) for q in unk):
            chk.ok("C13.R2", label, "macro_map.get(name) == None -> error!")
        else:
            chk.violation("C13.R2", label, "unknown-macro-not-rejected", f"{label}: an unknown macro name is not rejected with a diagnostic", where)
        # R3
        errp = [q for q in parse_paths if any("matches Err" in c[0] for c in q.conds)]
        from rules_c16 import own_location
        if errp and all(any(e.kind == "error" and own_location(getattr(e, "startv", None), e.start) and own_location(getattr(e, "endv", None), e.end) for e in q.effects) for q in errp):
            chk.ok("C13.R3", label, "Err(e) of the nested parse -> error!(start, end, ..)")
        elif errp:
            chk.violation("C13.R3", label, "expansion-error-not-at-use-site", f"{label}: an error inside the expansion is not re-raised with the position of the macro use", where)
        else:
            chk.violation("C13.R3", label, "expansion-error-ignored", f"{label}: the result of the nested parse is not examined for errors", where)
        # R8 how deep a chain is still accepted: the size test sees the open expansions, with or without the current one
        import re as _re
        depths = set()
        for q in parse_paths:
            ins_lines = [int(e.line) for e in q.effects if e.kind == "map" and "macro_nesting" in (e.target or "") and e.op in ("insert", "push") and str(getattr(e, "line", "")).isdigit()]
            for c in q.conds:
                m_ = _re.search(r"macro_nesting\w*\.len\(\)\s*(>=|>)\s*(\d+)", c[0])
                if m_ and c[1] is False and len(c) > 2 and c[2] is not None and ins_lines:
                    k_ = int(m_.group(2)) + (1 if m_.group(1) == ">" else 0)
                    after_insert = int(c[2]) > min(ins_lines)
                    depths.add(k_ - 1 if after_insert else k_)
        if len(depths) == 1:
            d_ = next(iter(depths))
            if d_ >= 64:
                chk.ok("C13.R8", label, f"chains of up to {d_} nested macro uses are expanded")
            else:
                chk.violation("C13.R8", label, "nesting-limit-below-64",
                              f"{label}: the size test of the nesting set lets at most {d_} nested uses through (it is made after the current macro was inserted, or against a smaller "
                              f"constant): a valid acyclic chain of 64 macros is rejected as 'too deep'", where)
        elif parse_paths and depth_bound:
            chk.undecided_("C13.R8", label, "the form of the depth test is not `set.len() >= K` / `> K` on the expanding path")
        # R4
        if parse_paths:
            if depth_bound:
                chk.ok("C13.R4", label, "a depth test guards the nested parse")
            else:
                chk.violation("C13.R4", label, "unbounded-expansion-depth",
                              f"{label}: each nested macro use re-enters PreprocessorParser::parse natively (action -> parse -> action) and nothing bounds the depth: "
                              f"a chain m1 -> m2 -> ... -> mN of distinct macros recurses N parser activations deep and exhausts the stack for large N", where)
    whole_word_rule(ctx, chk)
    argument_round_trip(ctx, chk)
    # R5 placeholder syntax
    fm_def = fmt_strings(GA, "macro_def")
    fm_use = fmt_strings(GA, "macro_use")
    if "{{{}}}" in fm_def and "{{{}}}" in fm_use:
        chk.ok("C13.R5", "placeholders", "both sides use {i}")
    elif fm_def & fm_use:
        chk.ok("C13.R5", "placeholders", f"shared placeholder format {sorted(fm_def & fm_use)}")
    else:
        chk.violation("C13.R5", "macro_def/macro_use", "placeholder-syntax", f"definition writes placeholders with {sorted(fm_def)}, use substitutes {sorted(fm_use)}", GA.g["file"])


def guard_events(q, target="context.macro_nesting_counter"):
    """the nesting-set protocol of one action path, read off its effects and branch conditions:
    tests    [(effect index, 'absent'|'present')]  what the path knows about the name being in the set, from a `contains`
             whose answer the path branched on, or from the bool an `insert` returned (true = new element)
    inserts  [(effect index, really_inserted)]      an insert that reported `false` changed nothing
    removes  [effect index], parse [effect index], keys {key expression}"""
    def call_result(op):
        for c in q.conds:
            desc, truth = c[0], c[1]
            d = desc.strip()
            neg = 0
            while d.startswith("!"):
                d = d[1:].strip()
                neg += 1
            if f"macro_nesting_counter.{op}(" in d and "==" not in d:
                return bool(truth) != bool(neg % 2)
        return None
    out = {"tests": [], "inserts": [], "removes": [], "parse": [], "keys": set()}
    for i, e in enumerate(q.effects):
        if e.kind == "nested_parse":
            out["parse"].append(i)
        if e.kind != "map" or getattr(e, "target", "") != target:
            continue
        if e.op in ("contains", "insert", "remove") and e.arg_descs:
            out["keys"].add(e.arg_descs[0].lstrip("&").replace(".to_string()", "").replace(".to_owned()", "").replace(".clone()", ""))
        if e.op == "contains":
            r = call_result("contains")
            if r is not None:
                out["tests"].append((i, "present" if r else "absent"))
        elif e.op == "insert":
            r = call_result("insert")
            if r is not None:
                out["tests"].append((i, "absent" if r else "present"))
            out["inserts"].append((i, r is not False))
        elif e.op == "remove":
            out["removes"].append(i)
    return out


def fmt_strings(G, nt):
    out = set()
    if nt not in G.nts:
        return out

    def walk(n):
        if isinstance(n, dict):
            if n.get("k") == "macro" and n.get("name") == "format" and n.get("args") and n["args"][0].get("k") == "lit":
                out.add(n["args"][0]["v"])
            for v in n.values():
                walk(v)
        elif isinstance(n, list):
            for v in n:
                walk(v)
    from asm import action_and_helper_asts
    for p in G.productions(nt):
        for ast in action_and_helper_asts(G, p):
            walk(ast)
    return out


def whole_word_rule(ctx, chk):
    """C13.R6: the regex that finds a parameter in the macro body is built from a format literal; the literal must anchor
    the parameter on both sides with \\b.  If the hole receives several names joined with `|`, the alternation has to be
    grouped: `\\b a|b|c \\b` parses as (\\ba)|(b)|(c\\b), so only the first name is anchored on the left and only the last on the
    right, and the middle ones match inside longer words."""
    GA = ctx.gram("preprocessor")
    if "macro_def" not in GA.nts:
        chk.undecided_("C13.R6", "macro_def", "nonterminal not found")
        return
    for k, p in enumerate(GA.productions("macro_def")):
        ua = GA.main_user_action(p["action"])
        where = f"{GA.g['file']}:{p['line']}"
        found = []

        def walk(n, loopvars):
            if isinstance(n, dict):
                lv = loopvars
                if n.get("k") == "for":
                    names = []

                    def pat(q):
                        if isinstance(q, dict):
                            if q.get("k") == "ident":
                                names.append(q["name"])
                            for v in q.values():
                                pat(v)
                        elif isinstance(q, list):
                            for v in q:
                                pat(v)
                    pat(n.get("pat"))
                    lv = loopvars | set(names)
                if n.get("k") == "macro" and n.get("name") == "format" and n.get("args") and n["args"][0].get("k") == "lit" and "\\b" in str(n["args"][0].get("v")):
                    found.append((n, lv))
                for v in n.values():
                    walk(v, lv)
            elif isinstance(n, list):
                for v in n:
                    walk(v, loopvars)
        walk(ua.get("ast"), frozenset())
        if not found:
            chk.undecided_("C13.R6", "macro_def", "no \\b-anchored pattern literal found (parameters matched some other way)")
            continue
        for n, lv in found:
            lit = n["args"][0]["v"]
            args = n["args"][1:]
            if lit.count("{}") != 1 or len(args) != 1:
                chk.undecided_("C13.R6", "macro_def", f"pattern literal {lit!r} has {lit.count('{}')} holes")
                continue
            pre, post = lit.split("{}")
            a = args[0]
            while a.get("k") in ("ref", "un", "paren") and "e" in a:
                a = a["e"]
            joined = a.get("k") == "mcall" and a.get("m") == "join"
            single = a.get("k") == "path" and len(a.get("segs", [])) == 1 and a["segs"][0] in lv
            grouped = (pre.endswith("(") or pre.endswith("(?:")) and post.startswith(")")
            anchored = pre.replace("(?:", "").replace("(", "").endswith("\\b") and post.replace(")", "").startswith("\\b")
            if not anchored:
                chk.violation("C13.R6", "macro_def", "not-anchored", f"the parameter pattern {lit!r} is not \\b-anchored on both sides: parameters are replaced inside longer words", where)
            elif joined and not grouped:
                chk.violation("C13.R6", "macro_def", "alternation-not-grouped",
                              f"the pattern {lit!r} receives the parameter names joined with '|' without a group: it parses as (\\bp1)|(p2)|..|(pn\\b), so the first parameter also "
                              f"matches as a prefix, the last as a suffix and the others anywhere inside a word (e.g. parameter `d` in `dec`)", where)
            elif single or (joined and grouped):
                chk.ok("C13.R6", "macro_def", f"{lit!r} with {'one parameter name' if single else 'a grouped alternation'}: whole-word match")
            else:
                chk.undecided_("C13.R6", "macro_def", f"argument of the pattern literal not recognised ({a.get('k')})")


def argument_round_trip(ctx, chk):
    """C13.R7: macro_use substitutes the *value* of each general_string argument into the body and parses the result with
    the assembler grammar again.  The value of an operand nonterminal is its emitted (interpreter) spelling, so every
    template a general_string alternative can yield must itself be accepted by the assembler grammar in an operand
    position of the same class; otherwise a legal argument makes the expansion fail (or mean something else)."""
    from asm import GramEval
    from astev import Str, tmpl_str
    from lang import instantiate, parse_lines
    GA = ctx.gram("preprocessor")
    E = GramEval(GA)
    if "general_string" not in GA.nts:
        chk.undecided_("C13.R7", "general_string", "nonterminal not found")
        return
    ctxs = []
    for k, p in enumerate(GA.productions("general_string")):
        label = GA.prod_label("general_string", k)
        v = None
        for q in E.prod_paths("general_string", k):
            if isinstance(q.ret, Str):
                v = q.ret if v is None else Str(v.t | q.ret.t)
        if v is None:
            chk.undecided_("C13.R7", label, "value of the alternative is not a template")
            continue
        for t in sorted(v.t, key=tmpl_str):
            if any(part[0] == "hole" and part[1] in ("unknown", "replaced") for part in t):
                chk.undecided_("C13.R7", label, f"argument text `{tmpl_str(t)}` is not followed by the action evaluator")
                continue
            for text, holes in instantiate(t, False)[:1]:
                first = text.split()[0] if text.split() else ""
                if first == "byte":
                    sent = f"start: mov al, {text}\n"
                elif first == "word":
                    sent = f"start: mov ax, {text}\n"
                elif first in ("al", "bl", "cl", "dl", "ah", "bh", "ch", "dh"):
                    sent = f"start: mov al, {text}\n" if first != "al" else f"start: mov bl, {text}\n"
                elif text.strip().lstrip("-").isdigit():
                    sent = f"start: mov ax, {text}\n"
                elif first in ("es", "ds", "ss", "cs"):
                    sent = f"start: mov ax, {text}\n"
                elif first in ("ax", "bx", "cx", "dx", "si", "di", "sp", "bp"):
                    sent = f"start: mov es, {text}\n"
                else:
                    sent = f"start: jmp {text}\n"
                ctxs.append((label, p, text, sent))
    number_argument_value(ctx, chk, GA, E)
    res = parse_lines(ctx.facts.gram_path("preprocessor"), [c[3] for c in ctxs]) if ctxs else []
    seen = set()
    for (label, p, text, sent), r in zip(ctxs, res):
        shape = "with-segment-override" if ":" in text else "plain"
        if r["ok"]:
            if (label, shape) not in seen:
                seen.add((label, shape))
                chk.ok("C13.R7", f"{label}:{shape}", f"`{text}` is accepted again in operand position")
        else:
            key = (label, shape, "bad")
            if key in seen:
                continue
            seen.add(key)
            tok = r["tokens"][r["at_token"]][1] if r.get("tokens") and r.get("at_token") is not None and r["at_token"] < len(r["tokens"]) else "<end>"
            chk.violation("C13.R7", label, f"argument-not-reparsable:{shape}",
                          f"{label}: the argument is substituted as `{text}` (the emitted spelling), which the assembler grammar does not accept inside the expansion "
                          f"(stops at `{tok}`): a macro used with this kind of argument is rejected although the hand-expanded instruction is legal",
                          f"{GA.g['file']}:{p['line']}", witness=f"macro ld(a) -> mov al, a <- ; ld({text.replace(':', '')})")


def number_argument_value(ctx, chk, GA, E):
    """C13.R7 (numbers): a bare number argument is substituted as the Display of the value of its nonterminal.  If that
    nonterminal is of a signed type and takes unsigned literals through a cast (`<n:u_word_num> => n as i16`), a literal
    with the top bit set is re-spelled as a negative number.  That is a defect exactly when some position that accepts
    the literal as written rejects the negative spelling: decided by parsing, for the contexts below, the sentence with
    2^(w-1) (control: must be accepted) and with -2^(w-1)."""
    from astev import Str, hinfo
    from lang import parse_lines
    import mir as M
    for k, p in enumerate(GA.productions("general_string")):
        label = GA.prod_label("general_string", k)
        nts_ = [s_["name"] for s_ in p["symbols"] if s_["t"] == "nt"]
        tys = set()
        for q in E.prod_paths("general_string", k):
            if isinstance(q.ret, Str):
                for t in q.ret.t:
                    if len(t) == 1 and t[0][0] == "hole" and t[0][1] == "num":
                        tys.add(hinfo(t[0]).get("ty"))
        if not tys or len(nts_) != 1:
            continue
        ty = sorted(tys)[0]
        it = M.int_type(ty or "")
        if len(tys) != 1 or not it:
            chk.undecided_("C13.R7", f"{label}:value", f"type of the number argument not unique: {sorted(map(str, tys))}")
            continue
        width, signed = it[0], (ty or "").startswith("i")
        if not signed:
            chk.ok("C13.R7", f"{label}:value", f"a number argument is substituted as the decimal spelling of a {ty}: same value wherever a number is accepted")
            continue
        # does the signed nonterminal take unsigned literals through a cast?
        via = None
        todo, seen_ = [nts_[0]], set()
        while todo:
            n = todo.pop()
            if n in seen_ or n not in GA.nts:
                continue
            seen_.add(n)
            for pp in GA.productions(n):
                inner = [s_["name"] for s_ in pp["symbols"] if s_["t"] == "nt"]
                if len(inner) == 1 and not any(s_["t"] == "term" for s_ in pp["symbols"]):
                    ity = M.int_type((GA.nts.get(inner[0], {}).get("type") or ""))
                    if ity and (GA.nts[inner[0]]["type"] or "").startswith("u") and ity[0] >= width:
                        via = inner[0]
                    else:
                        todo.append(inner[0])
        if via is None:
            chk.ok("C13.R7", f"{label}:value", f"signed number argument ({ty}); no unsigned literal reaches it through a cast")
            continue
        hi, lo = 1 << (width - 1), -(1 << (width - 1))
        forms = ["start: and ax, {}\n", "start: mov word [{}], ax\n", "start: test ax, {}\n"] if width == 16 else ["start: and al, {}\n", "start: test al, {}\n"]
        lines = [f.format(v) for f in forms for v in (hi, lo)]
        res = parse_lines(ctx.facts.gram_path("preprocessor"), lines)
        bad = [forms[i] for i in range(len(forms)) if res[2 * i]["ok"] and not res[2 * i + 1]["ok"]]
        if bad:
            chk.violation("C13.R7", label, f"number-argument-respelled-signed:{ty}",
                          f"{label}: a number argument is substituted as the Display of a {ty} that `{via}` literals reach through a cast: {hi} (0x{hi:X}) becomes `{lo}`, "
                          f"which `{bad[0].strip().format('<n>')}` does not accept although it accepts the literal as written: the macro use is rejected where its hand expansion is legal",
                          f"{GA.g['file']}:{p['line']}", witness=f"macro m(v) -> {bad[0].strip().split(': ')[1].format('v')} <- ; m(0x{hi:X})")
        elif any(res[2 * i]["ok"] for i in range(len(forms))):
            chk.ok("C13.R7", f"{label}:value", f"the negative spelling of {hi} is accepted wherever the literal is (contexts tried: {len(forms)})")
        else:
            chk.undecided_("C13.R7", f"{label}:value", "none of the control sentences is accepted by the assembler grammar")
