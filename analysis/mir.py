"""MIR helpers: CFG, dominators, post-dominators, control dependence, call graph (engine P base)."""
import re
from functools import lru_cache


def term(bb):
    t = bb.get("term")
    return t["t"] if t else ["unreachable"]


def succs(bb, unwind=False):
    t = term(bb)
    k = t[0]
    if k == "goto":
        return [t[1]]
    if k == "switch":
        return [a[1] for a in t[2]] + [t[3]]
    if k == "call":
        return [t[4]] if t[4] is not None else []
    if k == "assert":
        return [t[5]]
    if k == "drop":
        return [t[2]]
    return []


class CFG:
    def __init__(self, fn):
        self.fn = fn
        self.blocks = fn["blocks"]
        n = len(self.blocks)
        self.n = n
        self.succ = [succs(b) for b in self.blocks]
        # only non-cleanup blocks reachable from 0 matter
        self.reach = set()
        st = [0]
        while st:
            b = st.pop()
            if b in self.reach:
                continue
            self.reach.add(b)
            st.extend(self.succ[b])
        self.pred = [[] for _ in range(n)]
        for b in self.reach:
            for s in self.succ[b]:
                self.pred[s].append(b)
        self.rpo = self._rpo()
        self.rpo_index = {b: i for i, b in enumerate(self.rpo)}
        self.exits = [b for b in self.reach if not self.succ[b]]
        self._dom = None
        self._pdom = None
        self._cd = None

    def _rpo(self):
        seen = set()
        order = []
        # iterative DFS postorder
        stack = [(0, iter(self.succ[0]))]
        seen.add(0)
        while stack:
            b, it = stack[-1]
            adv = False
            for s in it:
                if s not in seen:
                    seen.add(s)
                    stack.append((s, iter(self.succ[s])))
                    adv = True
                    break
            if not adv:
                order.append(b)
                stack.pop()
        order.reverse()
        return order

    # --- dominators (iterative, Cooper-Harvey-Kennedy) ---
    def _idoms(self, order, index, preds, root):
        idom = {root: root}
        changed = True

        def inter(a, b):
            while a != b:
                while index[a] > index[b]:
                    a = idom[a]
                while index[b] > index[a]:
                    b = idom[b]
            return a

        while changed:
            changed = False
            for b in order:
                if b == root:
                    continue
                ps = [p for p in preds(b) if p in idom]
                if not ps:
                    continue
                new = ps[0]
                for p in ps[1:]:
                    new = inter(p, new)
                if idom.get(b) != new:
                    idom[b] = new
                    changed = True
        return idom

    @property
    def idom(self):
        if self._dom is None:
            self._dom = self._idoms(self.rpo, self.rpo_index, lambda b: self.pred[b], 0)
        return self._dom

    def dominates(self, a, b):
        """a dominates b"""
        idom = self.idom
        if b not in idom:
            return False
        while True:
            if a == b:
                return True
            p = idom[b]
            if p == b:
                return False
            b = p

    @property
    def ipdom(self):
        """immediate post-dominators w.r.t. a virtual exit (-1) joined to every exit block.
        Blocks that cannot reach an exit (infinite loops) are attached to the virtual exit too."""
        if self._pdom is None:
            EXIT = -1
            # reverse graph
            rsucc = {b: list(self.pred[b]) for b in self.reach}
            rsucc[EXIT] = list(self.exits)
            rpred = {b: list(self.succ[b]) for b in self.reach}
            for e in self.exits:
                rpred[e] = rpred[e] + [EXIT]
            # blocks not reaching exit: connect loop heads... find nodes not reachable in reverse graph
            seen = set()
            st = [EXIT]
            while st:
                x = st.pop()
                if x in seen:
                    continue
                seen.add(x)
                st.extend(rsucc.get(x, []))
            missing = [b for b in self.reach if b not in seen]
            while missing:
                # attach the last (in rpo) missing block to EXIT, recompute
                b = max(missing, key=lambda x: self.rpo_index[x])
                rsucc[EXIT].append(b)
                rpred[b] = rpred[b] + [EXIT]
                seen = set()
                st = [EXIT]
                while st:
                    x = st.pop()
                    if x in seen:
                        continue
                    seen.add(x)
                    st.extend(rsucc.get(x, []))
                missing = [b for b in self.reach if b not in seen]
            # rpo of reverse graph
            order = []
            seen = set([EXIT])
            stack = [(EXIT, iter(rsucc[EXIT]))]
            while stack:
                b, it = stack[-1]
                adv = False
                for s in it:
                    if s not in seen:
                        seen.add(s)
                        stack.append((s, iter(rsucc.get(s, []))))
                        adv = True
                        break
                if not adv:
                    order.append(b)
                    stack.pop()
            order.reverse()
            index = {b: i for i, b in enumerate(order)}
            self._pdom = self._idoms(order, index, lambda b: rpred.get(b, []), EXIT)
        return self._pdom

    def postdominates(self, a, b):
        ip = self.ipdom
        if b not in ip:
            return False
        while True:
            if a == b:
                return True
            p = ip[b]
            if p == b:
                return False
            b = p

    @property
    def control_deps(self):
        """block -> set of (branch_block) it is (transitively) control dependent on."""
        if self._cd is None:
            ip = self.ipdom
            direct = {b: set() for b in self.reach}
            for a in self.reach:
                ss = self.succ[a]
                if len(set(ss)) < 2:
                    continue
                stop = ip.get(a)
                for s in set(ss):
                    runner = s
                    while runner != stop and runner != -1 and runner is not None:
                        direct[runner].add(a)
                        nxt = ip.get(runner)
                        if nxt == runner:
                            break
                        runner = nxt
            # transitive closure
            cd = {b: set(direct[b]) for b in self.reach}
            changed = True
            while changed:
                changed = False
                for b in self.reach:
                    add = set()
                    for a in cd[b]:
                        add |= cd[a]
                    if not add <= cd[b]:
                        cd[b] |= add
                        changed = True
            self._cd = cd
            self._cd_direct = direct
        return self._cd

    def back_edges(self):
        be = []
        for b in self.reach:
            for s in self.succ[b]:
                if self.dominates(s, b):
                    be.append((b, s))
        return be

    def loop_heads(self):
        return set(s for _, s in self.back_edges())

    def reachable_from(self, b, avoid=()):
        seen = set()
        st = [b]
        while st:
            x = st.pop()
            if x in seen or x in avoid:
                continue
            seen.add(x)
            st.extend(self.succ[x])
        return seen


def callee(t):
    """Resolved callee def path of a call terminator, or None if indirect."""
    f = t[1]
    if f.get("indirect"):
        return None
    return f["def"]


def calls_in(fn):
    out = []
    for bi, bb in enumerate(fn["blocks"]):
        t = term(bb)
        if t[0] == "call":
            out.append((bi, t))
    return out


_int_re = re.compile(r"^(u|i)(8|16|32|64|128|size)$")


def int_type(ty):
    """(width, signed) for integer-like types, else None."""
    if ty == "bool":
        return (1, False)
    if ty == "char":
        return (32, False)
    m = _int_re.match(ty)
    if not m:
        return None
    w = m.group(2)
    width = 64 if w == "size" else int(w)
    return (width, m.group(1) == "i")


def type_range(ty):
    it = int_type(ty)
    if it is None:
        return None
    w, s = it
    if s:
        return (-(1 << (w - 1)), (1 << (w - 1)) - 1)
    return (0, (1 << w) - 1)
