"""C10 — assembler output is contained in the downstream languages (interpreter, data loader, printer).
Decided completely: every template the assembler can emit is instantiated over its finite hole alphabets
and run through the LR(1) tables + lexer that lalrpop builds from the *current* downstream grammars."""
import re
from asm import GramEval
from astev import Str, Num, tmpl_str, hinfo
from lang import instantiate, parse_lines
import mir as M
from driver_rules import state_switch

EXPL = (
    "R1 template extraction: the value pushed to out.code / out.data on every path of every assembler production, as "
    "a finite set of string templates (engine A; nonterminal values bottom-up). R2 token-level inclusion: every template, "
    "instantiated over all register/keyword alternatives (already expanded) and boundary values of its numeric holes, is "
    "lexed with the destination grammar's own lexer and parsed with its LR(1) tables: out.code -> Interpreter (and, when "
    "it reduces print_stmt, -> Print), out.data -> Data, the driver-appended line -> Interpreter. R3 numeric holes: the "
    "boundary values of the emitted Rust type lie in the range of the downstream conversion that consumes that token. "
    "R4 identifier/keyword clash: downstream literal terminals matching the name regex are also upstream keywords. "
    "R5 every fallible (=>?) downstream action has a registered upstream guarantee, and the guarantees that are constant "
    "sets or guards are compared structurally. R6 the driver has a service arm for every INT(n) the interpreter can return."
)

DEST = {"out.code": "interpreter", "out.data": "data_parser"}

# downstream fallible actions -> the upstream guarantee that makes their Err arm unreachable (R5)
GUARANTEES = {
    ("interpreter", "raw_addr"): "number printed from a u32 < 2^20 (assembler raw_addr yields v % MB): fits u32",
    ("interpreter", "u_byte_num"): "R3: token is the Display of a u8/in-range value",
    ("interpreter", "s_byte_num"): "R3",
    ("interpreter", "u_word_num"): "R3",
    ("interpreter", "s_word_num"): "R3",
    ("interpreter", "call"): "assembler `call` emits only when fn_map.contains_key(name) (checked below)",
    ("interpreter", "ret"): None,  # call-stack precondition: no upstream guarantee exists
    ("interpreter", "jumps_loops"): "assembler rejects DATA labels; undefined labels are rejected by the driver gate (C14.R3)",
    ("interpreter", "int"): "same constant set as the assembler's `int` (compared below)",
    ("interpreter", "byte_label"): "assembler byte_label requires a defined DATA label (checked below)",
    ("interpreter", "word_label"): "assembler word_label requires a defined DATA label (checked below)",
    ("data_parser", "u_word_num"): "R3",
    ("data_parser", "u_byte_num"): "R3",
    ("data_parser", "s_word_num"): "R3",
    ("data_parser", "s_byte_num"): "R3",
    ("print", "raw_addr"): "R3 (usize)",
    ("print", "Print"): "assembler print_stmt rejects s+e >= MB (guard compared below)",
}


def emissions(ctx, E):
    G = E.G
    out = []
    undec = []
    for nt_data in G.g["nonterminals"]:
        nt = nt_data["name"]
        for k, p in enumerate(nt_data["productions"]):
            ua = G.main_user_action(p["action"])
            if ua["kind"] != "user":
                continue
            for path in E.prod_paths(nt, k):
                if getattr(path, "action", None) != ua["idx"]:
                    continue
                for e in path.effects:
                    if e.kind == "push" and e.target in DEST:
                        if isinstance(e.value, Str):
                            for t in e.value.t:
                                out.append({"nt": nt, "k": k, "label": G.prod_label(nt, k), "where": f"{G.g['file']}:{p['line']}",
                                            "target": e.target, "template": t})
                        else:
                            undec.append((G.prod_label(nt, k), repr(e.value)))
    return out, undec


def driver_appended(ctx):
    """string constants the driver pushes onto the code vector (e.g. the final hlt)"""
    drv = ctx.program.find("bin", "driver::driver::CMDDriver::run")
    outs = []
    if not drv:
        return outs
    for bi, t in M.calls_in(drv):
        d = t[1].get("def") or ""
        if d.endswith("to_owned") and t[2] and t[2][0][0] == "const":
            txt = t[2][0][1].get("txt") or ""
            m = re.match(r'^(?:const )?"(.*)"$', txt)
            if m:
                outs.append(m.group(1))
    return outs


def run(ctx, chk):
    chk.explanation = EXPL
    chk.extra["exhaustive"] = True
    thorough = ctx.tier == "thorough"
    GA = ctx.gram("preprocessor")
    E = GramEval(GA)
    chk.rule("C10.R1", "every emission is a finite set of string templates", floor=127)
    chk.rule("C10.R2", "every emitted line is a sentence of its downstream grammar", floor=3000)
    chk.rule("C10.R3", "numeric holes stay within the downstream conversion's range", floor=300)
    chk.rule("C10.R4", "no label name can lex as a downstream keyword", floor=3)
    chk.rule("C10.R5", "every fallible downstream action has an upstream guarantee", floor=15)
    chk.rule("C10.R7", "no downstream error return depends on the machine state (the assembler sees the text only)", floor=2)
    chk.rule("C10.R6", "driver dispatch covers every INT the interpreter can return", floor=1)

    ems, undec = emissions(ctx, E)
    for lab, v in undec:
        chk.undecided_("C10.R1", lab, f"pushed value is not a template: {v}")
    by_prod = {}
    for em in ems:
        by_prod.setdefault((em["nt"], em["k"], em["target"]), []).append(em)
    for (nt, k, tgt), lst in by_prod.items():
        chk.ok("C10.R1", f"{lst[0]['label']} -> {tgt}", f"{len(lst)} template(s), e.g. {tmpl_str(lst[0]['template'])}")
    for u in E.unknown:
        if u[0] in ("expr-kind", "other", "parse_error", "template-overflow"):
            chk.undecided_("C10.R1", f"action construct {u}", "outside the idiom table of the action evaluator")

    # ---- R2/R3: instantiate and parse
    down_eval = {w: GramEval(ctx.gram(w)) for w in ("interpreter", "data_parser", "print")}
    batches = {"interpreter": [], "data_parser": []}
    for em in ems:
        dest = DEST[em["target"]]
        if any(part[0] == "hole" and part[1] == "unknown" for part in em["template"]):
            # a value the action evaluator could not follow (construct outside its idiom table): the emitted text is not
            # known, so nothing is claimed about it - neither inclusion nor a violation
            chk.undecided_("C10.R2", em["label"], f"template `{tmpl_str(em['template'])}` contains a value the action evaluator cannot follow")
            continue
        for text, holes in instantiate(em["template"], thorough):
            batches[dest].append((text, holes, em))
    for s in driver_appended(ctx):
        batches["interpreter"].append((s, [], {"nt": "<driver>", "k": 0, "label": f"driver appends \"{s}\"", "where": "src/driver/driver.rs",
                                               "target": "out.code", "template": (("lit", s),)}))
    print_batch = []
    n_lines = 0
    for dest, items in batches.items():
        res = parse_lines(ctx.facts.gram_path(dest), [t for t, _, _ in items])
        n_lines += len(items)
        for (text, holes, em), r in zip(items, res):
            check_line(ctx, chk, dest, text, holes, em, r, down_eval)
            if dest == "interpreter" and r["ok"] and any(x[0] == "print_stmt" for x in r["reductions"]):
                print_batch.append((text, holes, em))
    res = parse_lines(ctx.facts.gram_path("print"), [t for t, _, _ in print_batch])
    n_lines += len(print_batch)
    for (text, holes, em), r in zip(print_batch, res):
        check_line(ctx, chk, "print", text, holes, em, r, down_eval)
    chk.extra["lines_parsed"] = n_lines
    chk.extra["templates"] = len(ems)

    # ---- R4 keyword clash
    name_re = re.compile(r"^[_a-zA-Z][_a-zA-Z0-9]*$")
    up_lits = set(t.strip('"') for t in GA.g["terminals"] if t.startswith('"'))
    for w in ("interpreter", "data_parser", "print"):
        dl = set(t.strip('"') for t in ctx.gram(w).g["terminals"] if t.startswith('"'))
        clash = sorted(x for x in dl if name_re.match(x) and x not in up_lits)
        if clash:
            chk.violation("C10.R4", w, "keyword-clash:" + ",".join(clash), f"a label/procedure named {clash} is an identifier for the assembler but a keyword for the {w} grammar", ctx.gram(w).g["file"])
        else:
            chk.ok("C10.R4", w, f"{len(dl)} downstream literals, all upstream keywords or non-identifiers")

    # ---- R5 fallible downstream actions
    for w in ("interpreter", "data_parser", "print"):
        G = ctx.gram(w)
        for nt_data in G.g["nonterminals"]:
            nt = nt_data["name"]
            fall = [k for k, p in enumerate(nt_data["productions"]) if G.main_user_action(p["action"]).get("fallible")]
            if not fall:
                continue
            key = (w, nt)
            where = f"{G.g['file']}:{nt_data['line']}"
            if key not in GUARANTEES:
                # the table of guarantees is keyed by nonterminal name: a renamed or split nonterminal cannot be told from
                # a new fallible action by this rule, so this is reported as not decided, never as a defect
                chk.undecided_("C10.R5", f"{w}:{nt}", f"downstream nonterminal {nt} of the {w} grammar can return an error and no upstream guarantee is registered for it")
            elif GUARANTEES[key] is None:
                chk.violation("C10.R5", f"{w}:{nt}", "no-upstream-guarantee", f"{w} `{nt}` fails at run time ('Internal Error : Should not have reached here') for accepted programs: nothing upstream establishes its precondition", where)
            else:
                chk.ok("C10.R5", f"{w}:{nt}", GUARANTEES[key])
    structural_guarantees(ctx, chk, E, down_eval)
    machine_state_errors(ctx, chk)

    # ---- R6 driver dispatch
    drv = ctx.program.find("bin", "driver::driver::CMDDriver::run")
    ints_interp = int_constants(down_eval["interpreter"], "int")
    if drv is None or not ints_interp:
        chk.undecided_("C10.R6", "CMDDriver::run", "driver or interpreter int set not found")
    else:
        arms = set()
        for bb in drv["blocks"]:
            t = M.term(bb)
            if t[0] == "switch" and t[1][0] in ("copy", "move") and t[1][1]["ty"] == "u8":
                vals = set(v for v, _ in t[2])
                if 0 in vals:
                    arms = vals
        missing = (ints_interp | {0}) - arms
        if missing:
            chk.violation("C10.R6", "CMDDriver::run", "int-without-arm:" + ",".join(map(str, sorted(missing))),
                          f"the interpreter can return INT({sorted(missing)}) but the driver has no arm for it", drv["span"])
        else:
            chk.ok("C10.R6", "CMDDriver::run", f"arms {sorted(arms)} cover {sorted(ints_interp | {0})}")


def check_line(ctx, chk, dest, text, holes, em, r, down_eval):
    tstr = tmpl_str(em["template"])
    unit = f"{em['label']} => {tstr}"
    if not r["ok"]:
        at = r.get("at_token", r.get("at"))
        toks = [t[1] for t in r.get("tokens", [])]
        bad = toks[at] if isinstance(at, int) and at < len(toks) else "<end of line>"
        chk.violation("C10.R2", em["label"], f"rejected-by-{dest}:at-{tok_class(bad) if at != 0 else 'mnemonic:' + bad}",
                      f"emitted line `{text}` is not accepted by the {dest} grammar (stops at `{bad}`, expected one of {r.get('expected', [])[:6]})",
                      em["where"], text)
        return
    chk.ok("C10.R2", f"{dest}:{text}", None)
    # R3
    G = ctx.gram(dest)
    for h in holes:
        if "num" not in h:
            continue
        idx = None
        for i, t in enumerate(r["tokens"]):
            if t[2] == h["at"]:
                idx = i
        if idx is None:
            chk.undecided_("C10.R3", unit, f"number {h['text']} not found as one token")
            continue
        conv = None
        for red in r["reductions"]:
            nt, k, act, pos, n = red
            if pos == idx + 1 and n == 1:
                for path in down_eval[dest].prod_paths(nt, k):
                    for e in path.effects:
                        if e.kind == "from_str_radix":
                            conv = (nt, e.ty, e.radix)
                if conv:
                    break
        if conv is None:
            chk.undecided_("C10.R3", unit, f"no conversion found for token {h['text']}")
            continue
        rng = M.type_range(conv[1])
        if conv[2] != 10:
            chk.violation("C10.R3", em["label"], f"radix-{conv[2]}", f"`{text}`: decimal text {h['text']} is parsed downstream with radix {conv[2]}", em["where"])
        elif rng and not (rng[0] <= h["num"] <= rng[1]):
            chk.violation("C10.R3", em["label"], f"{h['ty']}-into-{conv[1]}:{shape_of(em['template'])}",
                          f"`{text}`: the assembler can emit {h['num']} (type {h['ty']}) where {dest} `{conv[0]}` converts with {conv[1]}::from_str_radix", em["where"], text)
        else:
            chk.ok("C10.R3", f"{dest}:{text}:{h['text']}", f"{h['ty']} value {h['num']} within {conv[1]}")


def tok_class(t):
    if re.match(r"^-?[0-9]+$", t):
        return "number"
    if re.match(r"^[_a-zA-Z][_a-zA-Z0-9]*$", t):
        return "name"
    return t


def shape_of(template):
    """line-free, register-free shape of a template for violation keys"""
    s = tmpl_str(template)
    s = re.sub(r"\b(ax|bx|cx|dx|sp|bp|si|di)\b", "R16", s)
    s = re.sub(r"\b(al|ah|bl|bh|cl|ch|dl|dh)\b", "R8", s)
    s = re.sub(r"\b(es|ds|ss|cs)\b", "SEG", s)
    s = re.sub(r"^(sal|sar|shr|rol|ror|rcl|rcr)\b", "SHIFT", s)
    return s


def int_constants(E, nt):
    """integer literals compared against in the conditions of a production (e.g. n == 3 || n == 0x10 || n == 0x21)"""
    G = E.G
    vals = set()
    if nt not in G.nts:
        return vals
    helpers, consts = {}, {}
    for h in G.g.get("helpers") or []:
        (consts if h.get("kind") == "const" else helpers).setdefault(h["name"], []).append(h)

    def follow(ast, depth=0):
        """the tests applied to the number: in the action itself, in a helper predicate the action calls on it
        (`is_supported(n)`), and the literals of a constant table it is looked up in (`TABLE.contains(&n)`)"""
        collect_int_cmps(ast, vals)
        if depth > 2:
            return

        def walk(n):
            if isinstance(n, dict):
                if n.get("k") == "call" and isinstance(n.get("f"), dict) and n["f"].get("k") == "path":
                    hs = helpers.get(n["f"]["segs"][-1]) or []
                    if len(hs) == 1 and len(hs[0]["params"]) == 1:
                        follow(hs[0]["body"], depth + 1)
                if n.get("k") == "mcall" and n.get("m") == "contains" and isinstance(n.get("recv"), dict) and n["recv"].get("k") == "path":
                    cs = consts.get(n["recv"]["segs"][-1]) or []
                    if len(cs) == 1:
                        lits_of(cs[0]["expr"], vals)
                for v in n.values():
                    walk(v)
            elif isinstance(n, list):
                for v in n:
                    walk(v)
        walk(ast)
    for k, p in enumerate(G.productions(nt)):
        follow(G.main_user_action(p["action"]).get("ast"))
    return vals


def lits_of(n, out):
    if isinstance(n, dict):
        if n.get("k") == "lit" and n.get("ty") == "int" and isinstance(n.get("v"), int):
            out.add(n["v"])
        for v in n.values():
            lits_of(v, out)
    elif isinstance(n, list):
        for v in n:
            lits_of(v, out)


def has_contains_on_const(n):
    if isinstance(n, dict):
        if n.get("k") == "mcall" and n.get("m") == "contains" and isinstance(n.get("recv"), dict) and n["recv"].get("k") == "path" and n["recv"]["segs"][-1].isupper():
            return True
        return any(has_contains_on_const(v) for v in n.values())
    if isinstance(n, list):
        return any(has_contains_on_const(v) for v in n)
    return False


def collect_int_cmps(node, vals):
    """integer literals a value is tested against: `x == 3`, `matches!(x, 3 | 0x10)`, `[3, 0x10].contains(&x)`,
    literal (or-)patterns of match arms"""
    def lits(n, out):
        if isinstance(n, dict):
            if n.get("k") == "lit" and (n.get("ty") == "int" or (isinstance(n.get("e"), dict) and n["e"].get("ty") == "int")):
                v = n.get("v") if n.get("ty") == "int" else n["e"].get("v")
                if isinstance(v, int):
                    out.add(v)
            for v in n.values():
                lits(v, out)
        elif isinstance(n, list):
            for v in n:
                lits(v, out)
    if isinstance(node, dict):
        if node.get("k") == "bin" and node.get("op") in ("==", "!="):
            for side in (node["l"], node["r"]):
                if side.get("k") == "lit" and side.get("ty") == "int" and isinstance(side.get("v"), int):
                    vals.add(side["v"])
        if node.get("k") == "macro" and node.get("name") == "matches":
            if node.get("args") and len(node["args"]) >= 2:
                lits(node["args"][1], vals)
            else:
                import re as _re
                for tok in _re.findall(r"0x[0-9a-fA-F]+|\b\d+\b", (node.get("tokens") or "").split(",", 1)[-1]):
                    vals.add(int(tok, 0))
        if node.get("k") == "mcall" and node.get("m") == "contains" and isinstance(node.get("recv"), dict) and node["recv"].get("k") in ("array", "ref", "paren"):
            lits(node["recv"], vals)
        if node.get("k") == "match":
            for arm in node.get("arms") or []:
                lits(arm.get("pat"), vals)
        for v in node.values():
            collect_int_cmps(v, vals)
    elif isinstance(node, list):
        for v in node:
            collect_int_cmps(v, vals)


def machine_state_errors(ctx, chk):
    """R7.  What the assembler can guarantee about a line it emits is a property of the text of that line.  A downstream
    action whose `Err(..)` return is control dependent on a branch that reads the machine (registers, memory: anything
    reached through the `vm` parameter) fails or not depending on the run, so no upstream check can make it unreachable.
    Dependence: flow-insensitive closure from the `vm` parameter over the action's MIR (may); feasibility of the Err arm:
    abstract run of the production with free numerals and a free machine.  Both must say yes for a report."""
    from cfgtools import may_depend, operand_locals
    from units import run_production
    from absint import Unsupported
    for w in ("print", "data_parser", "interpreter"):
        G = ctx.gram(w)
        for nt_data in G.g["nonterminals"]:
            nt = nt_data["name"]
            for k, p in enumerate(nt_data["productions"]):
                ua = G.main_user_action(p["action"])
                if not ua.get("fallible"):
                    continue
                fn = G.action_fn(ua["idx"])
                label = f"{w}: {G.prod_label(nt, k)}"
                if fn is None:
                    chk.undecided_("C10.R7", label, "no MIR for the action")
                    continue
                vm_locals = {i for i in range(1, fn["argc"] + 1) if re.search(r"\bVM\b", fn["locals"][i]["ty"] or "")}
                if not vm_locals:
                    chk.ok("C10.R7", label, "the action has no machine parameter", nontrivial=False)
                    continue
                cfg = M.CFG(fn)
                tainted = may_depend(fn, vm_locals)
                err_blocks = []
                for bi, bb in enumerate(fn["blocks"]):
                    if bb.get("cleanup"):
                        continue
                    for s_ in bb["stmts"]:
                        if s_[0] == "assign" and s_[1]["l"] == 0 and not s_[1]["p"] and s_[2][0] == "agg" and "Result" in (s_[2][1].get("name") or "") and s_[2][1].get("variant") == 1:
                            err_blocks.append(bi)
                if not err_blocks:
                    chk.undecided_("C10.R7", label, "the action's error return is not a literal Err(..) (propagated from a call)")
                    continue
                dep_branch = None
                for bi in err_blocks:
                    for a in cfg.control_deps.get(bi, ()):
                        t = M.term(fn["blocks"][a])
                        if t[0] == "switch" and operand_locals(t[1]) & tainted:
                            dep_branch = (bi, a)
                if dep_branch is None:
                    chk.ok("C10.R7", label, f"{len(err_blocks)} Err return(s), none control dependent on a value read from the machine")
                    continue
                try:
                    I, st, v, r = run_production(ctx, w, nt, k)
                    outs = {o[3] for o in r.outcomes if o[0] == ()}
                except Unsupported as e:
                    chk.undecided_("C10.R7", label, f"feasibility of the Err arm not decided: {e}")
                    continue
                if outs and outs <= {"ok"}:
                    chk.ok("C10.R7", label, "the machine-dependent Err arm is infeasible")
                elif not outs:
                    chk.undecided_("C10.R7", label, "outcome of the abstract run not recorded")
                else:
                    line = fn["blocks"][dep_branch[1]]["term"].get("line")
                    chk.violation("C10.R7", label, "error-depends-on-machine-state",
                                  f"{label}: the action returns Err(..) under a branch that depends on the machine state (registers/memory read through `vm`): whether an emitted line is "
                                  f"accepted then depends on the run, which no check in the assembler can exclude -> 'Internal Error : Should not have reached here'",
                                  f"{G.g['file']}:{p['line']}", witness=f"branch at line {line} of the generated action; machine state chosen so that it is taken")


def structural_guarantees(ctx, chk, E, down_eval):
    GA = E.G
    # int constant sets
    up = int_constants(E, "int")
    dn = int_constants(down_eval["interpreter"], "int")
    if up and dn:
        if up <= dn:
            chk.ok("C10.R5", "int-constant-sets", f"assembler {sorted(up)} within interpreter {sorted(dn)}")
        else:
            chk.violation("C10.R5", "int", "int-sets-differ", f"assembler accepts int {sorted(up - dn)} which the interpreter rejects", GA.g["file"])
    else:
        chk.undecided_("C10.R5", "int-constant-sets", "constant sets not found")
    # call: emission only under fn_map.contains_key
    for nt, guard in (("call", "context.fn_map.contains_key"), ("byte_label", "context.label_map.get"), ("word_label", "context.label_map.get")):
        if nt not in GA.nts:
            chk.undecided_("C10.R5", nt, "assembler nonterminal not found")
            continue
        okc = True
        found = False
        for k, p in enumerate(GA.productions(nt)):
            for path in E.prod_paths(nt, k):
                succeeds = not any(e.kind == "error" for e in path.effects)
                if not succeeds:
                    continue
                found = True
                conds = " ".join(c[0] for c in path.conds)
                from asm import key_presence
                mapname = guard.split(".")[1]
                # the key is known to be present on this path, however the test is written (contains_key, get matched
                # against Some, is_some, the entry API ..)
                if guard not in conds and not any(key_presence(c, mapname) is True or key_presence(c, "context." + mapname) is True for c in path.conds):
                    okc = False
        if found and okc:
            chk.ok("C10.R5", f"{nt}-guard", f"every successful path passes a test on {guard}")
        elif found:
            chk.violation("C10.R5", nt, "guard-missing", f"assembler `{nt}` can succeed without testing {guard}", GA.g["file"])
    # print mem s : e guard  (s+e >= MB rejected upstream; downstream errs on end >= MB)
    # the production that takes two addresses separated by ':' must have a rejecting path that is taken under a comparison;
    # whether the comparison is the right bound is a value question (C17.R3 decides it on the printer's side)
    found = False
    any_error = False
    two_addr = False
    for k, p in enumerate(GA.productions("print_stmt")):
        syms_ = [s_["name"] for s_ in p["symbols"]]
        if '":"' not in syms_ or len([s_ for s_ in p["symbols"] if s_["t"] == "nt" and GA.nts.get(s_["name"], {}).get("type") in ("u32", "usize", "u16")]) < 2:
            continue
        two_addr = True
        for path in E.prod_paths("print_stmt", k):
            if any(e.kind == "error" for e in path.effects):
                any_error = True
                if any(re.search(r"<|>", c[0]) and "matches" not in c[0] for c in path.conds):
                    found = True
    if found:
        chk.ok("C10.R5", "print-range-guard", "assembler rejects a range under a comparison before emitting `print mem s : e`")
    elif two_addr and not any_error:
        chk.violation("C10.R5", "print_stmt", "range-guard-missing", "assembler emits `print mem s : e` without any rejecting path (downstream Print returns an error for s+e >= MB)", GA.g["file"])
    else:
        chk.undecided_("C10.R5", "print-range-guard", "the rejecting path of `print mem s : e` is not taken under a recognisable comparison")
