"""C16 — diagnostics and run-time messages cite the source line that caused them."""
from asm import GramEval
from astev import Str, Num, tmpl_str
import re
import mir as M
from driver_rules import trace_value, find_parse_call

EXPL = (
    "R1 push <=> add_entry: on every path of every assembler action each out.code.push is followed by exactly one "
    "mapper.add_entry(x) before the next push or the end, and x is the @L lookaround bound at the production's first "
    "symbol (the @R after the closing brace for a procedure's implied ret). R2 macro expansion: set_source(start) and "
    "lock_source() precede, unlock_source() follows the nested parse on every path (balance => `lock -= 1` cannot "
    "underflow). R3 in CMDDriver::run every position handed to get_err_pos is the source-map entry of the executing "
    "index (or the recorded position of an undefined label) unmodified - no arithmetic on it. R4 preprocess() uses the "
    "error's own start for line and column. NOT decided: the line/column arithmetic inside LexerHelper (loops over a "
    "vector of newline offsets: value level), in particular the last line of a file without trailing newline."
)


def run(ctx, chk):
    chk.explanation = EXPL
    GA = ctx.gram("preprocessor")
    E = GramEval(GA)
    chk.rule("C16.R1", "every emitted instruction gets exactly one source-map entry, at the start of its production", floor=100)
    chk.rule("C16.R2", "source locking is balanced around macro expansion", floor=1)
    chk.rule("C16.R3", "driver messages use the map entry of the executing index unmodified", floor=6)
    chk.rule("C16.R4", "syntax diagnostics use the error's own position", floor=1)
    chk.rule("C16.R6", "every assembler diagnostic cites a location of the production that raises it", floor=40)
    chk.rule("C16.R5", "while the source is locked (macro expansion) the recorded source position cannot change", floor=1)
    chk.rule("C16.R7", "position lookups are functions of the position alone (their objects hold no interior-mutable state)", floor=1)
    position_lookup_rule(ctx, chk)
    chk.rule("C16.R9", "a column is the offset of the position in its line: position - line start", floor=1)
    column_rule(ctx, chk)
    chk.rule("C16.R11", "the table of line boundaries is built from the text that the messages are cut from, newline-terminated and not changed afterwards", floor=1)
    line_table_text_rule(ctx, chk)
    chk.rule("C16.R10", "a position the assembler records for a later report is a position in the source, also inside a macro expansion", floor=1)
    recorded_position_rule(ctx, chk, GA, E)
    for nt_data in GA.g["nonterminals"]:
        nt = nt_data["name"]
        for k, p in enumerate(nt_data["productions"]):
            ua = GA.main_user_action(p["action"])
            if ua["kind"] != "user":
                continue
            label = GA.prod_label(nt, k)
            where = f"{GA.g['file']}:{p['line']}"
            for path in E.prod_paths(nt, k):
                if getattr(path, "action", None) != ua["idx"]:
                    continue
                seq = [e for e in path.effects if (e.kind == "push" and e.target == "out.code") or (e.kind == "mapper" and e.op == "add_entry")]
                if not any(e.kind == "push" for e in seq):
                    if any(e.kind == "mapper" for e in seq):
                        chk.violation("C16.R1", label, "entry-without-push", f"{label}: add_entry without a pushed instruction shifts every later line mapping", where)
                    continue
                ok_ = True
                i = 0
                while i < len(seq):
                    if seq[i].kind == "push":
                        if i + 1 >= len(seq) or seq[i + 1].kind != "mapper":
                            chk.violation("C16.R1", label, "push-without-entry", f"{label}: an instruction is pushed without a source-map entry: every later instruction is attributed to the wrong line", where)
                            ok_ = False
                            break
                        a = seq[i + 1].args[0] if seq[i + 1].args else None
                        look = getattr(a, "look", None)
                        want = ("L", 0)
                        if nt == "procedure":
                            # the implied ret is written at the closing brace: the start location of the "}" terminal.
                            # (An end location @R is the position of the *following* character, which is the line
                            # terminator when the token ends the line: the lookup then cites the next line.)
                            braces = [i for i, sy in enumerate(p["symbols"]) if sy["t"] == "term" and sy["name"].strip('"') == "}"]
                            want = ("L", braces[-1]) if braces else ("L", 0)
                        li = getattr(a, "look_in", None)
                        if look is None and li is not None and nt == "procedure":
                            # the position comes from a wrapper nonterminal: it must be the start of a "}" terminal there
                            inner_nt, (kind_, pos_) = li
                            ip = GA.productions(inner_nt)[0]
                            sy = ip["symbols"][pos_] if pos_ < len(ip["symbols"]) else None
                            # the wrapper must be the last brace-bearing symbol of the procedure production
                            if kind_ == "L" and sy is not None and sy["t"] == "term" and sy["name"].strip('"') == "}" and not braces:
                                chk.ok("C16.R1", label, f"one push, entry at the start of the closing brace (through {inner_nt})")
                                i += 2
                                continue
                            chk.violation("C16.R1", label, f"entry-position-{kind_}", f"{label}: the implied ret is mapped to @{kind_} of symbol {pos_} of {inner_nt}, not to the start of the closing brace", where)
                            ok_ = False
                            break
                        if look is None:
                            chk.violation("C16.R1", label, "entry-not-a-position", f"{label}: add_entry({seq[i + 1].arg_descs}) is not a lookaround position of this production", where)
                            ok_ = False
                            break
                        if look != want:
                            chk.violation("C16.R1", label, f"entry-position-{look[0]}{'' if look[0] == 'R' else look[1]}",
                                          f"{label}: the instruction is mapped to @{look[0]} at symbol {look[1]}, expected @{want[0]} at symbol {want[1]} (start of the instruction"
                                          f"{' = the closing brace' if nt == 'procedure' else ''})"
                                          + ("; an end location is the position of the following character: when the token ends its line the next line is cited" if look[0] == "R" else ""), where)
                            ok_ = False
                            break
                        i += 2
                    else:
                        chk.violation("C16.R1", label, "entry-without-push", f"{label}: add_entry not preceded by a push", where)
                        ok_ = False
                        break
                if ok_:
                    chk.ok("C16.R1", label, "push;add_entry(@L0)" if nt != "procedure" else "push;add_entry(@L of the closing brace)")
    # R2
    if "macro_use" in GA.nts:
        for k, p in enumerate(GA.productions("macro_use")):
            label = GA.prod_label("macro_use", k)
            where = f"{GA.g['file']}:{p['line']}"
            n = 0
            for path in E.prod_paths("macro_use", k):
                kinds = [(e.kind, getattr(e, "op", "")) for e in path.effects]
                if ("nested_parse", "") not in kinds:
                    if ("mapper", "lock_source") in kinds or ("mapper", "unlock_source") in kinds:
                        chk.violation("C16.R2", label, "lock-without-parse", f"{label}: lock/unlock on a path without nested parse", where)
                    continue
                n += 1
                idx = {kk: i for i, kk in enumerate(kinds)}
                ip = kinds.index(("nested_parse", ""))
                locks = [i for i, kk in enumerate(kinds) if kk == ("mapper", "lock_source")]
                unlocks = [i for i, kk in enumerate(kinds) if kk == ("mapper", "unlock_source")]
                sets = [i for i, kk in enumerate(kinds) if kk == ("mapper", "set_source")]
                if len(locks) != 1 or len(unlocks) != 1 or not (locks[0] < ip < unlocks[0]):
                    chk.violation("C16.R2", label, "unbalanced-lock", f"{label}: lock_source/unlock_source do not bracket the nested parse on every path (locks {locks}, unlocks {unlocks}, parse {ip})", where)
                elif not sets or sets[0] > locks[0]:
                    chk.violation("C16.R2", label, "set_source-order", f"{label}: set_source(start) must precede lock_source()", where)
                else:
                    a = path.effects[sets[0]].args[0] if path.effects[sets[0]].args else None
                    if getattr(a, "look", None) != ("L", 0):
                        chk.violation("C16.R2", label, "set_source-position", f"{label}: set_source is not given the start of the macro use", where)
                    else:
                        chk.ok("C16.R2", f"{label}#path{n}", "set_source(@L0); lock; parse; unlock")
    lock_discipline(ctx, chk)
    diagnostic_positions(ctx, chk, GA, E)
    # R3 driver
    drv = ctx.program.find("bin", "driver::driver::CMDDriver::run")
    if drv is None:
        chk.undecided_("C16.R3", "CMDDriver::run", "driver not found")
    else:
        driver_message_positions(ctx, chk, drv)
    # R4 preprocess
    pp = ctx.program.find("bin", "driver::preprocess::preprocess")
    if pp is None:
        chk.undecided_("C16.R4", "preprocess", "function not found")
    else:
        n = 0
        from driver_rules import local_closure
        # the lookup may be written in preprocess() itself or in a local helper / closure it uses for the message
        for g in local_closure(ctx.program, pp):
            if not g["name"].startswith("driver::"):
                continue
            for bi, t in M.calls_in(g):
                if (t[1].get("def") or "").endswith("get_err_pos") and len(t[2]) >= 2:
                    n += 1
                    chain = trace_value(g, bi, t[2][1])
                    if any(c[0] == "rvalue" and c[1][0] == "bin" for c in chain):
                        chk.violation("C16.R4", "preprocess", "position-arithmetic", "the diagnostic position is modified before the line lookup", g["span"])
                    else:
                        chk.ok("C16.R4", f"{g['name'].split('::')[-1]}@bb{bi}", "error start passed unmodified")
        if n == 0:
            chk.violation("C16.R4", "preprocess", "no-line-lookup", "preprocess() no longer maps the error position to a line", pp["span"])


def lock_discipline(ctx, chk):
    """C16.R5: every assignment to SourceMapper.source_last outside construction/reset is control dependent on a test of
    the lock counter: during a (nested) macro expansion all instructions keep the position of the outermost macro use."""
    from cfgtools import Defs, origin
    P = ctx.program
    n = 0
    for (which, name), fn in P.by_name.items():
        if which != "lib" or "::SourceMapper::" not in name:
            continue
        short = name.split("::")[-1]
        if short in ("clear", "new", "default", "get_source_map"):
            continue
        cfg = M.CFG(fn)
        defs = Defs(fn)
        cd = cfg.control_deps
        for bi, bb in enumerate(fn["blocks"]):
            if bb.get("cleanup") or bi not in cfg.reach:
                continue
            for s_ in bb["stmts"]:
                if s_[0] != "assign":
                    continue
                fl = [e[2] for e in s_[1]["p"] if isinstance(e, list) and e[0] == "f"]
                if fl[-1:] != ["source_last"]:
                    continue
                n += 1
                guarded = False
                for a in cd.get(bi, ()):
                    t = M.term(fn["blocks"][a])
                    if t[0] != "switch":
                        continue
                    o = origin(defs, t[1])
                    pl = None
                    if o[0] == "place":
                        pl = o[1]
                    elif o[0] == "rvalue" and o[1][0] == "bin":
                        for side in (o[1][2], o[1][3]):
                            so = origin(defs, side)
                            if so[0] == "place":
                                pl = so[1]
                    if pl is not None and [e[2] for e in pl["p"] if isinstance(e, list) and e[0] == "f"][-1:] == ["lock"]:
                        guarded = True
                where = f"{fn['span'].rsplit(':', 2)[0]}:{s_[3]}"
                if guarded:
                    chk.ok("C16.R5", f"SourceMapper::{short}@{s_[3]}", "source_last is written only under a test of the lock counter")
                else:
                    chk.violation("C16.R5", f"SourceMapper::{short}", "source-position-written-while-locked",
                                  f"SourceMapper::{short} assigns source_last without testing the lock: inside a nested macro expansion the position becomes an offset "
                                  f"into the expanded text and every later instruction of the expansion is attributed to an unrelated line", where)
    if n == 0:
        chk.undecided_("C16.R5", "SourceMapper", "no assignment to source_last found")


def own_location(v, desc):
    """is the position value derived from a lookaround (@L/@R) of the production itself, or a recorded definition site?"""
    poly = getattr(v, "poly", None)
    if poly:
        for mono in poly:
            if any(isinstance(x, str) and (x.startswith("@L") or x.startswith("@R")) for x in mono):
                return True
    if getattr(v, "look", None) is not None:
        return True
    if desc and "source_position" in desc:
        return True  # the position of an earlier definition, recorded from its own @L
    return False


def diagnostic_positions(ctx, chk, GA, E):
    """C16.R6: error!(start, end, ..) of an assembler action must be given locations of its own production.  Positions
    taken from somewhere else - typically the (start, end) of an error returned by the nested parse of a macro expansion,
    which are offsets into the expanded text - make the diagnostic cite an unrelated line of the file."""
    for nt_data in GA.g["nonterminals"]:
        nt = nt_data["name"]
        for k, p in enumerate(nt_data["productions"]):
            ua = GA.main_user_action(p["action"])
            if ua["kind"] != "user":
                continue
            label = GA.prod_label(nt, k)
            where = f"{GA.g['file']}:{p['line']}"
            seen = set()
            for q in E.prod_paths(nt, k):
                if getattr(q, "action", None) != ua["idx"]:
                    continue
                for e in q.effects:
                    if e.kind != "error" or e.start is None:
                        continue
                    sig = (e.line, e.start, e.end)
                    if sig in seen:
                        continue
                    seen.add(sig)
                    oks = own_location(getattr(e, "startv", None), e.start)
                    oke = own_location(getattr(e, "endv", None), e.end)
                    if oks and oke:
                        chk.ok("C16.R6", f"{label}@{e.line}", f"error!({e.start}, {e.end}, ..)")
                    else:
                        which = "start" if not oks else "end"
                        chk.violation("C16.R6", label, f"diagnostic-{which}-not-own-location",
                                      f"{label}: error!({e.start}, {e.end}, ..) - the {which} position is not a location of this production (it is bound somewhere else, e.g. "
                                      f"by a pattern on the error of a nested parse, whose positions are offsets into the expanded macro text): the diagnostic cites an unrelated line", where)


def driver_message_positions(ctx, chk, drv):
    """C16.R3 on terms: every message of the execution loop that cites a source line gets it from
    get_err_pos(lh, *source_map.get(&idx).unwrap()) with idx the index of the instruction being executed and the
    position handed on unmodified -- whether the lookup is written in place, in a closure or in a helper."""
    from driver_rules import LoopModel, local_closure, has_unknown
    from symterm import SymFlow, subterms, strip, show
    P = ctx.program
    L = LoopModel(ctx, drv)
    if not L.ok:
        chk.undecided_("C16.R3", "CMDDriver::run", L.why or "loop not recognised")
        return
    F = L.F
    entry, _, _ = F.run(L.head, stop={L.head})

    def lookup_of(term):
        """(key term, arithmetic?) if term is the (unwrapped, dereferenced) payload of a map lookup, possibly modified"""
        gets = [x for x in subterms(term) if x[0] == "call" and x[1].endswith("::get") and "HashMap" in x[1] and len(x[2]) >= 2]
        arith = [x for x in subterms(term) if x[0] in ("bin", "binO") and any(y in gets for y in subterms(x))]
        return (strip(gets[0][2][1]) if gets else None), bool(arith), arith

    def judge(unit, pos_term, key_is, where):
        key, arith, ar = lookup_of(pos_term)
        if key is None:
            chk.undecided_("C16.R3", unit, f"position not recognised as a source-map entry: {show(pos_term)[:80]}")
        elif arith:
            op = ar[0][1]
            const = [x[1] for x in ar[0][2:] if isinstance(x, tuple) and x[0] == "const"]
            chk.violation("C16.R3", "CMDDriver::run", f"position-arithmetic:{op}O{const}" if not str(op).endswith("O") else f"position-arithmetic:{op}{const}",
                          f"a message position is computed as source-map entry {op} {const}: for an instruction shorter than that the next line is cited", where)
        elif key != key_is:
            if has_unknown(key):
                chk.undecided_("C16.R3", unit, f"looked-up index not in closed form: {show(key)[:60]}")
            else:
                chk.violation("C16.R3", "CMDDriver::run", "position-of-other-instruction",
                              f"a message looks up the source position of {show(key)}, not of the instruction being executed ({show(key_is)})", where)
        else:
            chk.ok("C16.R3", unit, "position = source_map[idx], passed unmodified")

    file_ = drv["span"].rsplit(":", 2)[0]
    for bi, t in M.calls_in(drv):
        if bi not in entry:
            continue
        d = t[1].get("def") or ""
        where = f"{file_}:{drv['blocks'][bi]['term']['line']}"
        if d.endswith("get_err_pos") and len(t[2]) >= 2:
            judge(f"get_err_pos@bb{bi}", F.call_args(entry[bi], bi)[1], L.cur, where)
            continue
        g = P.fns.get(t[1].get("id")) if t[1].get("local") else None
        if g is None or not g["name"].startswith("driver::driver::"):
            continue
        sites = [(f2, b2, t2) for f2 in local_closure(P, g) for b2, t2 in M.calls_in(f2) if (t2[1].get("def") or "").endswith("get_err_pos")]
        if not sites:
            continue
        # a helper/closure that does the lookup: its own lookup must use one of its parameters, and this call passes idx there
        args = F.call_args(entry[bi], bi)
        flat = []
        for a in args:
            a = strip(a)
            flat.extend(a[3] if a[0] == "agg" and a[1] == "tuple" else [a])
        for f2, b2, t2 in sites:
            F2 = SymFlow(f2)
            e2, _, _ = F2.run(0)
            if b2 not in e2:
                continue
            pos = F2.call_args(e2[b2], b2)[1]
            key, arith, ar = lookup_of(pos)
            unit = f"{g['name'].split('::')[-1]}@bb{bi}"
            if key is None or key[0] != "init" or not (1 <= key[1] <= f2["argc"]):
                chk.undecided_("C16.R3", unit, f"helper's looked-up index is not one of its parameters: {show(key) if key else show(pos)[:60]}")
                continue
            if arith:
                judge(unit, pos, key, where)
                continue
            passed = [strip(x) for x in flat]
            if L.cur in passed:
                chk.ok("C16.R3", unit, "helper looks up its parameter; called with idx")
            elif any(has_unknown(x) for x in passed):
                chk.undecided_("C16.R3", unit, "argument not in closed form")
            else:
                chk.violation("C16.R3", "CMDDriver::run", "position-of-other-instruction",
                              f"the position helper is called with {[show(x) for x in passed if x[0] != 'ref'][:2]}, not with the index of the instruction being executed", where)


def position_lookup_rule(ctx, chk):
    """R7.  The line shown for a position is computed by lookup functions of the shape (&T, usize) -> usize / (usize, ..)
    on a local type T (LexerHelper::get_newline_before, get_bounds, ..).  For the cited line to be that of the position,
    such a lookup must be a function of (the immutable content of T, the position): T must be Freeze (no Cell / RefCell /
    atomic inside, so nothing can be remembered from one lookup to the next through &T) and the receiver a shared
    reference.  Type facts of the compiler (engine T); the shape, not the names, selects the functions."""
    import re
    n = 0
    for which in ("lib", "bin"):
        m = ctx.facts.mir(which)
        adts = {a["name"]: a for a in m["adts"]}
        for s in m["sigs"]:
            ins = s.get("inputs") or []
            out = (s.get("output") or "").replace(" ", "")
            if len(ins) != 2 or ins[1] != "usize" or not re.fullmatch(r"usize|\((usize,?)+\)|std::option::Option<\(?(usize,?)+\)?>", out):
                continue
            recv = ins[0]
            if not recv.startswith("&"):
                continue
            core = re.sub(r"^&('\w+ )?(mut )?", "", recv)
            a = adts.get(core) or adts.get(core.replace("emulator_8086_lib::", ""))
            short = s["name"].split("::")[-1]
            if a is None:
                if re.fullmatch(r"\[usize\]|std::vec::Vec<usize>", core):
                    chk.ok("C16.R7", f"{short}({core})", "lookup in a plain table of offsets")
                continue
            n += 1
            if recv.startswith("&mut"):
                chk.violation("C16.R7", s["name"], "lookup-through-mutable-receiver", f"{s['name']} looks a position up through `{recv}`: a lookup can change the object it reads", s["name"])
            elif a.get("freeze") is not True:
                chk.violation("C16.R7", s["name"], "lookup-on-interior-mutable-state",
                              f"{s['name']} answers position lookups from {core}, which is not Freeze (it contains a Cell/RefCell/atomic): the answer for a position can depend on "
                              f"the lookups made before it, so a message can cite another line than the one the position is in", s["name"],
                              witness="two lookups in descending order of position")
            else:
                chk.ok("C16.R7", f"{short}({core.split('::')[-1]})", "shared receiver, Freeze type: the answer depends on the position and the immutable table only")


def column_rule(ctx, chk):
    """C16.R9.  A function that turns a position into (line, line start, line end) is recognised by its shape: a local
    function `(&T, usize) -> (usize, usize, usize)`.  In every caller the three results and the position argument are
    followed through copies, borrows and dereferences (a may-analysis over locals); every subtraction between two of them is
    classified.  `position - start` is the column; `end - start` is the length of the line; anything else that involves the
    position (`end - position`, `start - position`) is not a column of the offending token and, for `start - position`,
    underflows for every position that is not the first of its line."""
    P = ctx.program
    n = 0
    for which in ("bin", "lib"):
        m = ctx.facts.mir(which)
        sigs = {s_["name"]: s_ for s_ in m["sigs"]}
        for f in m["fns"]:
            file = f["span"].rsplit(":", 2)[0]
            unit = f["name"].split("::")[-1]
            calls = []
            for bi, t in M.calls_in(f):
                if not t[1].get("local") or len(t[2]) != 2:
                    continue
                if (t[2][1][1].get("ty") if t[2][1][0] != "const" else "usize") != "usize":
                    continue
                rty = (t[3].get("ty") or "").replace(" ", "")
                roles_by_field = None
                if rty == "(usize,usize,usize)":
                    roles_by_field = {0: "line", 1: "start", 2: "end"}
                else:
                    # a local struct of positions with fields named for their roles (`LinePos { line, start, end }`)
                    adt = next((a for a in m["adts"] + (ctx.facts.mir("lib")["adts"] if which == "bin" else []) if a["name"].split("::")[-1] == rty.split("::")[-1] and a.get("variants")), None)
                    if adt is not None and len(adt["variants"]) == 1:
                        fl = adt["variants"][0]["fields"]
                        rb = {}
                        for i_, fd in enumerate(fl):
                            nm = (fd[0] if isinstance(fd, (list, tuple)) else str(fd)).lower()
                            if (fd[1] if isinstance(fd, (list, tuple)) else "usize") != "usize":
                                continue
                            if "start" in nm or "begin" in nm:
                                rb[i_] = "start"
                            elif "end" in nm:
                                rb[i_] = "end"
                            elif "line" in nm or "row" in nm:
                                rb[i_] = "line"
                        if "start" in rb.values() and "end" in rb.values():
                            roles_by_field = rb
                if roles_by_field is None:
                    continue
                calls.append((bi, t, roles_by_field))
            if not calls:
                continue
            for bi, t, roles_by_field in calls:
                res = t[3]["l"]
                tags = {}   # local -> set of roles ("pos", "line", "start", "end"); a pointer to a tagged value carries the tag

                def add(l, r):
                    s0 = tags.setdefault(l, set())
                    if r not in s0:
                        s0.add(r)
                        return True
                    return False
                stm = [(b_i, s_) for b_i, b in enumerate(f["blocks"]) for s_ in b.get("stmts", []) if s_[0] == "assign"]
                # backward: where the position argument came from
                if t[2][1][0] != "const":
                    add(t[2][1][1]["l"], "pos")
                changed = True
                while changed:
                    changed = False
                    for b_i, s_ in stm:
                        dst, rv = s_[1], s_[2]
                        if dst["p"] or "pos" not in tags.get(dst["l"], ()):
                            continue
                        src = None
                        if rv[0] == "use" and rv[1][0] in ("copy", "move") and all(x == "deref" for x in rv[1][1]["p"]):
                            src = rv[1][1]["l"]
                        elif rv[0] == "ref" and all(x == "deref" for x in rv[1]["p"]):
                            src = rv[1]["l"]
                        if src is not None and add(src, "pos"):
                            changed = True
                # forward
                changed = True
                while changed:
                    changed = False
                    for b_i, s_ in stm:
                        dst, rv = s_[1], s_[2]
                        if dst["p"]:
                            continue
                        src, proj = None, None
                        if rv[0] == "use" and rv[1][0] in ("copy", "move"):
                            src, proj = rv[1][1]["l"], rv[1][1]["p"]
                        elif rv[0] == "ref":
                            src, proj = rv[1]["l"], rv[1]["p"]
                        if src is None:
                            continue
                        if src == res and len(proj) == 1 and isinstance(proj[0], list) and proj[0][0] == "f":
                            if add(dst["l"], roles_by_field.get(proj[0][1], "?")):
                                changed = True
                        elif all(x == "deref" for x in proj):
                            for r in list(tags.get(src, ())):
                                if add(dst["l"], r):
                                    changed = True
                # subtractions

                def roles(op):
                    if op[0] == "const":
                        return set()
                    return tags.get(op[1]["l"], set()) if all(x == "deref" for x in op[1]["p"]) else set()
                subs = []
                for b_i, s_ in stm:
                    rv = s_[2]
                    if rv[0] in ("binop", "checked") and len(rv) >= 4 and str(rv[1]).startswith("Sub"):
                        subs.append((b_i, rv[2], rv[3], s_[3] if len(s_) > 3 else None))
                for b_i, t2 in M.calls_in(f):
                    d = t2[1].get("def") or ""
                    if re.search(r"ops::Sub<.*>>::sub$|::wrapping_sub$|::checked_sub$|::saturating_sub$|::overflowing_sub$", d) and len(t2[2]) == 2:
                        subs.append((b_i, t2[2][0], t2[2][1], f["blocks"][b_i]["term"].get("line")))
                for b_i, a, b, line in subs:
                    ra, rb = roles(a) & {"pos", "start", "end"}, roles(b) & {"pos", "start", "end"}
                    if not ra or not rb or len(ra) > 1 or len(rb) > 1:
                        continue
                    pair = (next(iter(ra)), next(iter(rb)))
                    n += 1
                    if pair == ("pos", "start"):
                        chk.ok("C16.R9", f"{unit}@bb{b_i}", "column = position - line start")
                    elif pair == ("end", "start"):
                        chk.ok("C16.R9", f"{unit}@bb{b_i}", "length of the line", nontrivial=False)
                    elif "pos" in pair:
                        chk.violation("C16.R9", unit, f"column-is-{pair[0]}-minus-{pair[1]}",
                                      f"{f['name']} computes `{pair[0]} - {pair[1]}` from the results of the line lookup: the column of the offending token is `position - line start`; "
                                      f"this value is the distance to the {'end' if 'end' in pair else 'start'} of the line" +
                                      (" and underflows for a token that is not first in its line" if pair == ("start", "pos") else ""), f"{file}:{line}")
    chk.extra["columns"] = n
    if n == 0:
        chk.undecided_("C16.R9", "line-lookup", "no subtraction between a position and the results of a line lookup `(&T, usize) -> (usize, usize, usize)` (or a struct with "
                       "start/end fields) found: columns are computed in a form this rule does not follow")


def recorded_position_rule(ctx, chk, GA, E):
    """C16.R10.  Besides the source map, the assembler hands positions to the driver inside records it keeps in its context
    (forward references).  Every instruction production can be reached inside a macro expansion, where lookarounds are
    offsets into the expanded text; such a record therefore may not contain a bare lookaround.  Accepted: a value obtained
    from the source mapper by a method that consults the lock (the mapper knows the position of the outermost use)."""
    import json as _json
    helpers = [h for h in (GA.g.get("helpers") or []) if h.get("kind") != "const"]

    def lock_aware(method):
        for h in helpers:
            if h.get("name") == method and "lock" in _json.dumps(h.get("body") or h.get("expr") or "") and "source_last" in _json.dumps(h.get("body") or h.get("expr") or ""):
                return True
        return False
    seen = 0
    for nt_data in GA.g["nonterminals"]:
        nt = nt_data["name"]
        for k, p in enumerate(nt_data["productions"]):
            ua = GA.main_user_action(p["action"])
            if ua["kind"] != "user" or "undefined_labels" not in (ua.get("code") or ""):
                continue
            label = GA.prod_label(nt, k)
            where = f"{GA.g['file']}:{p['line']}"
            for path in E.prod_paths(nt, k):
                if getattr(path, "action", None) != ua["idx"]:
                    continue
                for i, e in enumerate(path.effects):
                    if not (e.kind == "map" and e.target == "context.undefined_labels" and e.op in ("insert", "push")):
                        continue
                    seen += 1
                    comps = []
                    for a in e.args:
                        comps.extend(a.elems if getattr(a, "k", None) == "tup" else [a])
                    raw = [c for c in comps if isinstance(c, Num) and c.poly and all(isinstance(t_, tuple) and t_ and all(str(x_).startswith(("@L", "@R")) for x_ in t_) for t_ in c.poly)]
                    via = [x for x in path.effects[:i] if x.kind == "mapper" and x.op not in ("add_entry", "set_source", "lock_source", "unlock_source")]
                    if raw and via and all(lock_aware(x.op) for x in via):
                        chk.undecided_("C16.R10", f"{label}:record", "the record keeps a bare lookaround next to a position obtained from the source mapper; which of the two the driver "
                                       "reports is not followed")
                    elif raw:
                        chk.violation("C16.R10", label, "recorded-position-relative-to-expansion",
                                      f"{label}: the forward-reference record keeps the production's own lookaround; inside a macro expansion that is an offset into the expanded text, "
                                      f"so the driver's 'used but not defined' report cites whatever source line lies at that offset (or leaves the text: `end - pos` underflows)", where)
                    elif via and all(lock_aware(x.op) for x in via):
                        chk.ok("C16.R10", f"{label}:record", f"position obtained through SourceMapper::{via[0].op}, which answers with the outermost use while the source is locked")
                    else:
                        chk.undecided_("C16.R10", f"{label}:record", "origin of the recorded position not recognised")
    if not seen:
        chk.undecided_("C16.R10", "records", "no forward-reference record found in the assembler actions")


def line_table_text_rule(ctx, chk):
    """C16.R11.  The driver cuts the line it shows out of a text with bounds taken from a table of newline positions.  The
    table is built (somewhere below a call that returns a LexerHelper-like value) from a `&str` of a local String.  Two
    structural facts are needed for the bounds to fit the text: (a) the String is not modified on any path after the call
    that built the table (a later `push` makes the table one line short: the last line gets the bounds of the line before);
    (b) the text is newline-terminated when the table is built: an unconditional `push('\\n')`, or a test `ends_with('\\n')`
    whose failing side pushes one, lies on every path to the call - unless the table constructor itself adds an end
    sentinel (then undecided).  Mutations are recognised as `&mut` borrows of the String local."""
    from cfgtools import Defs
    m = ctx.facts.mir("bin")
    lib = ctx.facts.mir("lib")
    table_types = set()
    for s_ in lib["sigs"] + m["sigs"]:
        # a constructor of a position table: fn(&str) -> T  whose T has lookup methods (&T, usize) -> (usize, ..)
        pass
    found = 0
    for f in m["fns"]:
        cfg = None
        for bi, t in M.calls_in(f):
            rty = t[3].get("ty") or ""
            if not t[1].get("local") and "LexerHelper" not in rty:
                continue
            if "LexerHelper" not in rty or not t[2]:
                continue
            strargs = [a for a in t[2] if a[0] != "const" and (a[1].get("ty") or "") == "&str"]
            if not strargs:
                continue
            cfg = cfg or M.CFG(f)
            defs = Defs(f)
            # origin of the &str: deref of a &String that borrows a local String
            l = strargs[0][1]["l"]
            text = None
            for _ in range(8):
                d = defs.single(l)
                if d is None:
                    break
                if d[0] == "call" and d[2][2] and d[2][2][0][0] in ("copy", "move"):
                    l = d[2][2][0][1]["l"]
                elif d[0] == "assign" and d[2][2][0] == "ref":
                    src = d[2][2][1]
                    if not [x for x in src["p"] if x != "deref"] and "String" in (f["locals"][src["l"]]["ty"] or "") and not (f["locals"][src["l"]]["ty"] or "").startswith("&"):
                        text = src["l"]
                        break
                    l = src["l"]
                elif d[0] == "assign" and d[2][2][0] == "use" and d[2][2][1][0] in ("copy", "move"):
                    l = d[2][2][1][1]["l"]
                else:
                    break
            unit = f["name"].split("::")[-1]
            file = f["span"].rsplit(":", 2)[0]
            if text is None:
                if unit != "preprocess":
                    chk.undecided_("C16.R11", f"{unit}@bb{bi}", "the text the table is built from is not a local String of this function")
                continue
            found += 1
            tname = f["locals"][text].get("name") or f"_{text}"
            # (a) mutable borrows of the text reachable after the call
            after = cfg.reachable_from(t[4]) if t[4] is not None else set()
            muts = []
            for b_i, b in enumerate(f["blocks"]):
                for s_ in b.get("stmts", []):
                    if s_[0] == "assign" and s_[2][0] == "ref" and s_[2][1]["l"] == text and not s_[2][1]["p"] and len(s_[2]) > 2 and "mut" in str(s_[2][2]):
                        muts.append((b_i, s_[3] if len(s_) > 3 else None))
            late = [(b_i, ln) for b_i, ln in muts if b_i in after]
            if late:
                chk.violation("C16.R11", unit, "text-modified-after-line-table-built",
                              f"{f['name']}: `{tname}` is modified after the table of its line boundaries was built from it: the table no longer describes the text the messages are cut "
                              f"from (a newline appended afterwards is not in the table, so the last line is shown with the bounds of the line before it)", f"{file}:{late[0][1]}")
            else:
                chk.ok("C16.R11", f"{unit}:{tname}:not-modified-after", "no mutable borrow of the text is reachable from the call that builds the table")
            # (b) newline-terminated on every path to the call
            pushes, tests = [], []
            for b_i, t2 in M.calls_in(f):
                d = t2[1].get("def") or ""
                nl = any(a[0] == "const" and (a[1].get("val") == 10 or a[1].get("txt") in ('"\\n"', "'\\n'")) for a in t2[2])
                if not nl:
                    continue
                if d.endswith("String::push") or d.endswith("String::push_str"):
                    pushes.append(b_i)
                elif "ends_with" in d:
                    nxt = t2[4]
                    tt = M.term(f["blocks"][nxt]) if nxt is not None else None
                    if tt and tt[0] == "switch":
                        false_t = next((tg for v, tg in tt[2] if v == 0), None)
                        tests.append((b_i, false_t))
            ok_b = False
            for pb in pushes:
                if cfg.dominates(pb, bi):
                    ok_b = True
            for tb, false_t in tests:
                if cfg.dominates(tb, bi) and false_t is not None and bi not in cfg.reachable_from(false_t, avoid=set(pushes)):
                    ok_b = True
            if ok_b:
                chk.ok("C16.R11", f"{unit}:{tname}:terminated", "every path to the table-building call appends a newline or has tested that the text ends in one")
            else:
                ctor = next((g for g in lib["fns"] if g["name"].endswith("LexerHelper::new")), None)
                sentinel = False
                if ctor is not None:
                    c2 = M.CFG(ctor)
                    loops = set()
                    for tail, head in c2.back_edges():
                        from rules_c19 import natural_loop
                        loops |= natural_loop(c2, tail, head)
                    sentinel = any((t3[1].get("def") or "").endswith("::push") and b3 not in loops for b3, t3 in M.calls_in(ctor))
                if sentinel or late:
                    chk.undecided_("C16.R11", f"{unit}:{tname}:terminated", "no newline guarantee before the call" + (" (reported as modified-after)" if late else "; the table constructor adds an entry outside its scan loop"))
                else:
                    chk.violation("C16.R11", unit, "text-not-newline-terminated",
                                  f"{f['name']}: the table of line boundaries is built from `{tname}` without making sure that it ends in a newline; for a file whose last line is not "
                                  f"terminated the lookup answers with the bounds of the line before it", f"{file}:{f['blocks'][bi]['term'].get('line')}")
    if not found:
        chk.undecided_("C16.R11", "driver", "no call that builds a line table from a local text found")
