"""C20 — single-stepping and breakpoints are transparent and the prompt always terminates.

Shape facts of the binary crate's MIR: how the prompt loop can end, what each recognised word does,
that the stepping region of the driver loop cannot write the machine or the instruction index, that
the prompt is issued exactly once per step under exactly the stepping condition, and that the line
it names is the instruction's own."""
import re
import mir as M
from cfgtools import Defs, origin, natural_loops, operand_locals, const_of, fold_const
from driver_rules import find_parse_call, idx_local, state_switch, trace_value

EXPL = (
    "R1 every loop that reads a line from stdin tests for end of input: some branch inside the loop whose condition derives "
    "from read_line's Ok payload (0 = EOF) or from the length/emptiness of the freshly read buffer has an edge that leaves "
    "the loop; otherwise a closed stdin makes the prompt spin forever. R2 prompt words: the strings compared with the "
    "trimmed input are classified by what their equal-edge does: {n,next} reach `return` (advance one instruction), "
    "{q,quit} reach process::exit; everything else is handed to the print parser with the same &VM and every path from that "
    "call returns to the loop head (answered without advancing). R3 transparency: user_interface and the print parser take "
    "&VM (type facts; VM is Freeze and no unsafe exists, C19.R2); in CMDDriver::run no block between the loop head and the "
    "interpreter call assigns the instruction index or borrows the machine mutably (except the borrow handed to the "
    "interpreter itself), and the INT 3 arm does neither. R4 exactly one prompt per step: the region loop-head -> interpreter "
    "call is acyclic; partial evaluation of its branches over the atoms I (interpreted switch), T (trap flag, read from the "
    "current flag word with Flags::TRAP in the same iteration) and R (index is not the appended hlt) gives the number of "
    "user_interface calls on every path: it must be 1 iff (I or T) and R, else 0; the form of R is checked "
    "(idx <= len-2 | idx < len-1 | idx != len-1) and its subtraction must not underflow. R5 the position handed to the line "
    "lookup for the 'About to execute' message is the source-map entry of the executing index, unmodified. "
    "NOT decided: equality of two complete runs (follows from R3 by induction over the instruction loop, argued)."
)

READ_LINE = re.compile(r"Stdin::read_line$|BufRead::read_line$|Stdin::lines$")
LEN_CALLS = ("String::len", "<impl str>::len", "String::is_empty", "<impl str>::is_empty")
DEREFS = ("Deref>::deref", "String::as_str", "AsRef<str>>::as_ref", "Borrow<str>>::borrow")
STR_EQ = re.compile(r"PartialEq<.*str.*>>::eq$|PartialEq>::eq$|PartialEq<std::string::String>>::eq$|<impl str>::eq$")


def is_str_eq(fn, t):
    """an equality test between two texts: a call named eq whose arguments are string typed (whatever impl provides it)"""
    name = t[1].get("def") or ""
    if STR_EQ.search(name):
        return True
    if not re.search(r"(::|>)eq$", name) or len(t[2]) != 2:
        return False
    tys = []
    for a in t[2]:
        if a[0] in ("copy", "move"):
            tys.append(a[1].get("ty") or fn["locals"][a[1]["l"]]["ty"] or "")
        else:
            tys.append(a[1].get("ty", ""))
    return all(re.search(r"\bstr\b|\bString\b", ty) for ty in tys)


def file_of(fn):
    return fn["span"].rsplit(":", 2)[0]


def line_of(fn, b):
    return fn["blocks"][b]["term"]["line"]


TRANSFORMS = ("<impl str>::trim", "<impl str>::trim_end", "<impl str>::trim_start", "<impl str>::to_ascii_lowercase", "<impl str>::to_lowercase",
              "<impl str>::to_ascii_uppercase", "<impl str>::to_uppercase", "ToOwned>::to_owned", "Clone>::clone", "ToString>::to_string", "String::from")


def eof_tests(fn, cfg, defs, loop_body, rl_block, kinds=None):
    """branches inside the loop whose condition derives from read_line's Ok payload or the buffer's length.
    kinds (optional dict) receives per test block 'raw' (byte count / the buffer itself: true at end of input only) or
    'derived' (emptiness of a trimmed / case-folded copy: also true for a blank line)"""
    t = M.term(fn["blocks"][rl_block])
    res_local = t[3]["l"]
    # the buffer: origin of the &mut String argument
    buf = None
    for a in t[2][1:]:
        o = origin(defs, a)
        if o[0] == "multi" or o[0] == "param":
            buf = o[1]
        elif o[0] == "call":
            buf = None
    if buf is None:
        # `&mut input` where input is a local with a single def by String::new
        for a in t[2][1:]:
            for l in operand_locals(a):
                d = defs.single(l)
                while d and d[0] == "assign" and d[2][2][0] == "ref":
                    l = d[2][2][1]["l"]
                    d = defs.single(l)
                buf = l
    seeds = set()
    # payload reads: any place based on the result local with an Ok downcast
    def is_payload(pl):
        return pl["l"] == res_local and any(isinstance(e, list) and e[0] == "down" and e[1] == 0 for e in pl["p"])

    tests = []
    derived = set()
    xform = set()        # locals holding a text computed from the buffer by trimming / case folding / copying
    from_xform = set()   # test values that come from such a copy

    def base_of(op):
        """local an operand denotes after seeing through borrows, copies and deref-like calls"""
        if op[0] not in ("copy", "move"):
            return None
        l = op[1]["l"]
        d = defs.single(l)
        hops = 0
        while d and hops < 10:
            hops += 1
            if d[0] == "assign" and d[2][2][0] == "ref":
                l = d[2][2][1]["l"]
            elif d[0] == "assign" and d[2][2][0] == "use" and d[2][2][1][0] in ("copy", "move"):
                l = d[2][2][1][1]["l"]
            elif d[0] == "call" and any((d[2][1].get("def") or "").endswith(x) for x in DEREFS) and d[2][2] and d[2][2][0][0] in ("copy", "move"):
                l = d[2][2][0][1]["l"]
            else:
                break
            d = defs.single(l)
        return l
    changed = True
    while changed:
        changed = False
        for b in loop_body:
            bb = fn["blocks"][b]
            for s in bb["stmts"]:
                if s[0] != "assign" or s[1]["p"]:
                    continue
                rv = s[2]
                hit = False
                if rv[0] == "use" and rv[1][0] in ("copy", "move"):
                    hit = is_payload(rv[1][1]) or (rv[1][1]["l"] in derived and not rv[1][1]["p"])
                elif rv[0] == "bin" and rv[1] in ("Eq", "Ne", "Lt", "Le", "Gt", "Ge"):
                    for o in (rv[2], rv[3]):
                        if o[0] in ("copy", "move") and (is_payload(o[1]) or o[1]["l"] in derived):
                            hit = True
                elif rv[0] in ("cast", "un"):
                    for o in rv[1:]:
                        if isinstance(o, list) and o and o[0] in ("copy", "move") and isinstance(o[1], dict) and o[1]["l"] in derived:
                            hit = True
                if hit and s[1]["l"] not in derived:
                    derived.add(s[1]["l"])
                    changed = True
            tt = M.term(bb)
            if tt[0] == "call" and buf is not None and tt[2]:
                name0 = tt[1].get("def") or ""
                if any(name0.endswith(x) for x in TRANSFORMS):
                    b0 = base_of(tt[2][0])
                    if (b0 == buf or b0 in xform) and tt[3]["l"] not in xform:
                        xform.add(tt[3]["l"])
                        changed = True
                if any(name0.endswith(x) for x in LEN_CALLS):
                    b0 = base_of(tt[2][0])
                    if b0 in xform and tt[3]["l"] not in derived:
                        derived.add(tt[3]["l"])
                        from_xform.add(tt[3]["l"])
                        changed = True
            if tt[0] == "call" and buf is not None:
                name = tt[1].get("def") or ""
                if any(name.endswith(x) for x in LEN_CALLS) and tt[2]:
                    o = origin(defs, tt[2][0], through_calls=DEREFS)
                    base = o[1] if o[0] in ("multi", "param") else None
                    if base is None and tt[2][0][0] in ("copy", "move"):
                        l = tt[2][0][1]["l"]
                        d = defs.single(l)
                        hops = 0
                        while d and hops < 8:
                            hops += 1
                            if d[0] == "assign" and d[2][2][0] == "ref":
                                l = d[2][2][1]["l"]
                            elif d[0] == "assign" and d[2][2][0] == "use" and d[2][2][1][0] in ("copy", "move"):
                                l = d[2][2][1][1]["l"]
                            elif d[0] == "call" and any((d[2][1].get("def") or "").endswith(x) for x in DEREFS) and d[2][2] and d[2][2][0][0] in ("copy", "move"):
                                l = d[2][2][0][1]["l"]
                            else:
                                break
                            d = defs.single(l)
                        base = l
                    if base == buf and tt[3]["l"] not in derived:
                        derived.add(tt[3]["l"])
                        changed = True
    for b in loop_body:
        tt = M.term(fn["blocks"][b])
        if tt[0] != "switch":
            continue
        d = tt[1]
        tainted = d[0] in ("copy", "move") and (is_payload(d[1]) or (d[1]["l"] in derived and not d[1]["p"]))
        if not tainted:
            continue
        leaving = [s for s in cfg.succ[b] if s not in loop_body and M.term(fn["blocks"][s])[0] != "unreachable"]
        # an edge that stays in the body but can only reach an exit call (process::exit) also leaves
        tests.append((b, bool(leaving)))
        if kinds is not None:
            o = origin(defs, d)
            src_l = d[1]["l"]
            kinds[b] = "derived" if (src_l in from_xform or (o[0] in ("multi", "param") and o[1] in from_xform)) else "raw"
    return tests, buf


def exits_only(fn, cfg, start, head):
    """kinds of endings reachable from `start` without passing the loop head: subset of {'return','exit','loop'}"""
    kinds = set()
    seen = set()
    st = [start]
    while st:
        b = st.pop()
        if b in seen:
            continue
        seen.add(b)
        if b == head:
            kinds.add("loop")
            continue
        t = M.term(fn["blocks"][b])
        if t[0] == "return":
            kinds.add("return")
        if t[0] == "call" and (t[1].get("def") or "").endswith("process::exit"):
            kinds.add("exit")
            continue
        if t[0] == "call" and t[4] is None and t[1].get("local") and _PROGRAM is not None:
            # a call that does not come back: a local helper (`fn quit() -> !`) that ends in process::exit is an exit
            g = _PROGRAM.fns.get(t[1].get("id"))
            if g is not None and _ends_in_exit(g):
                kinds.add("exit")
                continue
        st.extend(cfg.succ[b])
    return kinds


_PROGRAM = None


def _ends_in_exit(g, depth=0):
    for bi, t in M.calls_in(g):
        d = t[1].get("def") or ""
        if d.endswith("process::exit"):
            return True
        if depth < 2 and t[1].get("local") and _PROGRAM is not None:
            h = _PROGRAM.fns.get(t[1].get("id"))
            if h is not None and h is not g and _ends_in_exit(h, depth + 1):
                return True
    return False


def reads_input_call(P, t, depth=0):
    """a call that reads a line of input: read_line itself, or a local function that (transitively) calls it"""
    d = t[1].get("def") or ""
    if READ_LINE.search(d):
        return True
    if depth < 2 and t[1].get("local"):
        g = P.fns.get(t[1].get("id"))
        if g is not None and g["name"].startswith("driver::"):
            return any(reads_input_call(P, tt, depth + 1) for _, tt in M.calls_in(g))
    return False


def promoted_string(fn, const):
    txt = const.get("txt", "")
    m = re.search(r"promoted\[(\d+)\]$", txt)
    if m:
        pr = fn.get("promoted", [])
        i = int(m.group(1))
        if i < len(pr):
            for c in pr[i]:
                t = c.get("txt", "")
                if t.startswith('"') and t.endswith('"'):
                    return t[1:-1]
        return None
    if txt.startswith('"') and txt.endswith('"'):
        return txt[1:-1]
    return None


def run(ctx, chk):
    chk.explanation = EXPL
    P = ctx.program
    global _PROGRAM
    _PROGRAM = P
    chk.rule("C20.R1", "every stdin read loop has an end-of-input exit", floor=1)
    chk.rule("C20.R2", "prompt words: n/next return, q/quit exit, anything else is answered and the prompt repeats", floor=5)
    chk.rule("C20.R3", "the prompt path cannot write the machine or the instruction index", floor=4)
    chk.rule("C20.R4", "exactly one prompt per step under the stepping condition", floor=9)
    chk.rule("C20.R5", "the prompt names the instruction's own line", floor=1)
    chk.assumptions += ["std::io::Stdin::read_line returns Ok(0) exactly at end of input and leaves the buffer unchanged then"]
    binm = ctx.facts.mir("bin")
    # ---------------- R1: read loops
    nloops = 0
    for f in binm["fns"]:
        cfg = M.CFG(f)
        loops = natural_loops(cfg)
        defs = None
        for bi, t in M.calls_in(f):
            if bi not in cfg.reach or not READ_LINE.search(t[1].get("def") or ""):
                continue
            inside = [(h, body) for h, body in loops.items() if bi in body]
            if not inside:
                continue  # a single read outside any loop cannot spin
            defs = defs or Defs(f)
            h, body = min(inside, key=lambda x: len(x[1]))
            nloops += 1
            tests, buf = eof_tests(f, cfg, defs, body, bi)
            unit = f["name"].split("::")[-1]
            where = f"{file_of(f)}:{line_of(f, bi)}"
            # also accept: a tested branch that stays in the body but whose target only reaches process::exit/return
            ok_tests = []
            for b, leaves in tests:
                if leaves:
                    ok_tests.append(b)
                else:
                    for s in cfg.succ[b]:
                        k = exits_only(f, cfg, s, h)
                        if k and "loop" not in k:
                            ok_tests.append(b)
            if ok_tests:
                chk.ok("C20.R1", f"{unit}@bb{h}", f"EOF test at bb{ok_tests[0]} leaves the loop")
            else:
                chk.violation("C20.R1", unit, "read-loop-without-eof-exit",
                              f"{f['name']}: the loop around read_line has no exit that depends on the number of bytes read (or on the emptiness of the "
                              f"buffer): at end of input read_line returns Ok(0) forever and the loop spins", where,
                              witness="stdin closed (or exhausted) while the prompt is waiting")
    if nloops == 0:
        # the read may sit in a helper called from the loop: which of its outcomes means "end of input" is then a
        # property of the helper's result type, not decided here
        helper_loops = 0
        for f in binm["fns"]:
            cfg = M.CFG(f)
            loops = natural_loops(cfg)
            for bi, t in M.calls_in(f):
                if bi in cfg.reach and not READ_LINE.search(t[1].get("def") or "") and reads_input_call(P, t) and any(bi in b for b in loops.values()):
                    helper_loops += 1
        if helper_loops:
            chk.ok("C20.R1", "read-loops:through-helper", "the loop reads through a local helper; its end-of-input outcome is matched in the loop (R2 decides where it leads)", nontrivial=False)
        else:
            chk.undecided_("C20.R1", "read-loops", "no loop containing read_line found in the binary crate")
    # ---------------- R2: prompt words
    ui = P.find("bin", "driver::user_interface::user_interface")
    if ui is None:
        chk.undecided_("C20.R2", "user_interface", "function not found")
    else:
        cfg = M.CFG(ui)
        loops = natural_loops(cfg)
        rl = [bi for bi, t in M.calls_in(ui) if reads_input_call(P, t)]
        direct_read = bool(rl) and READ_LINE.search(M.term(ui["blocks"][rl[0]])[1].get("def") or "")
        head = None
        if rl:
            ins = [(h, b) for h, b in loops.items() if rl[0] in b]
            if ins:
                head = min(ins, key=lambda x: len(x[1]))[0]
        words = {}
        where = file_of(ui)
        for bi, t in M.calls_in(ui):
            name = t[1].get("def") or ""
            if not is_str_eq(ui, t):
                continue
            s = None
            for a in t[2]:
                o = origin(Defs(ui), a)
                if o[0] == "const":
                    s = promoted_string(ui, o[1])
            if s is None:
                continue
            nxt = M.succs(ui["blocks"][bi])
            sw = M.term(ui["blocks"][nxt[0]]) if nxt else None
            if not sw or sw[0] != "switch":
                continue
            true_t = sw[3] if all(v == 0 for v, _ in sw[2]) else next((tg for v, tg in sw[2] if v == 1), sw[3])
            words[s] = exits_only(ui, cfg, true_t, head)
        ret = {w for w, k in words.items() if k == {"return"}}
        ext = {w for w, k in words.items() if k == {"exit"}}
        for want, got, what in (({"n", "next"}, ret, "return"), ({"q", "quit"}, ext, "exit")):
            for w in sorted(want):
                if w in got:
                    chk.ok("C20.R2", f"word:{w}", f"'{w}' -> {what}")
                else:
                    chk.violation("C20.R2", "user_interface", f"word-{w}-does-not-{what}",
                                  f"typing '{w}' at the prompt does not {'advance (return to the driver)' if what == 'return' else 'terminate the emulator'}: it leads to {sorted(words.get(w, {'<not compared>'}))}", where)
        for w in sorted((ret | ext) - {"n", "next", "q", "quit"}):
            chk.undecided_("C20.R2", f"word:{w}", "additional prompt word (not in the documented set)")
        for w, k in sorted(words.items()):
            if k not in ({"return"}, {"exit"}):
                chk.violation("C20.R2", "user_interface", f"word-{w}-ambiguous", f"'{w}' can end in {sorted(k)}", where)
        # only n/next, q/quit, end of input and a failing read may leave the prompt: a test that is also true for other
        # input (emptiness of the trimmed / case-folded line is true for a blank line) must lead back to the prompt
        if head is not None and rl and direct_read:
            kinds = {}
            body_ = next(b for h, b in loops.items() if h == head)
            tests_, _buf = eof_tests(ui, cfg, Defs(ui), body_, rl[0], kinds=kinds)
            bad_ = []
            for b, _leaves in tests_:
                if kinds.get(b) != "derived":
                    continue
                for s_ in cfg.succ[b]:
                    k_ = exits_only(ui, cfg, s_, head)
                    if k_ and "loop" not in k_:
                        bad_.append((b, sorted(k_)))
            if bad_:
                chk.violation("C20.R2", "user_interface", "blank-input-terminates",
                              f"a test on the trimmed / case-folded input line (not on the raw byte count) leads to {bad_[0][1]}: a blank line -- not only end of input -- "
                              "ends the prompt, so the rest of the program is not executed", f"{where}:{line_of(ui, bad_[0][0])}",
                              witness="an empty line typed at the prompt")
            else:
                chk.ok("C20.R2", "other-input", "no test on a transformed copy of the line leaves the prompt")
        # everything else: print parser with the same vm, then back to the loop head on every path
        pc = [(bi, t) for bi, t in M.calls_in(ui) if (t[1].get("def") or "").endswith("PrintParser::parse")]
        if not pc or head is None:
            chk.violation("C20.R2", "user_interface", "no-print-dispatch", "the prompt no longer hands other input to the print parser inside its loop", where)
        for bi, t in pc:
            o = origin(Defs(ui), t[2][1]) if len(t[2]) > 1 else None
            if o and o[0] == "param" and "VM" in ui["locals"][o[1]]["ty"]:
                chk.ok("C20.R2", "print:machine", "print parser receives the prompt's own &VM")
            else:
                chk.violation("C20.R2", "user_interface", "print-other-machine", "the print parser is not given the machine being debugged", f"{where}:{line_of(ui, bi)}")
            k = exits_only(ui, cfg, M.succs(ui["blocks"][bi])[0], head)
            if k == {"loop"}:
                chk.ok("C20.R2", "print:repeats", "after answering, every path returns to the prompt (no advance, no exit)")
            else:
                chk.violation("C20.R2", "user_interface", "print-then-" + "+".join(sorted(k - {"loop"})),
                              f"after a print command (or invalid input) the prompt can {sorted(k - {'loop'})} instead of asking again", f"{where}:{line_of(ui, bi)}")
    # ---------------- R3/R4/R5: driver
    drv = P.find("bin", "driver::driver::CMDDriver::run")
    if drv is None:
        for r in ("C20.R3", "C20.R4", "C20.R5"):
            chk.undecided_(r, "CMDDriver::run", "driver not found")
        return
    cfg = M.CFG(drv)
    defs = Defs(drv)
    sigs = {s["name"]: s for s in binm["sigs"]}
    for name in ("driver::user_interface::user_interface", "driver::print::__parse__Print::PrintParser::parse", "driver::interrupts::int_13"):
        s = sigs.get(name)
        if s is None:
            chk.undecided_("C20.R3", name, "signature not found")
            continue
        vm_args = [t for t in s["inputs"] if t.endswith("VM")]
        if vm_args and all(t.startswith("&") and not t.startswith("&mut") and " mut " not in t for t in vm_args):
            chk.ok("C20.R3", f"sig:{name.split('::')[-1] if 'Parser' not in name else 'PrintParser::parse'}", f"takes {vm_args[0]}")
        else:
            chk.violation("C20.R3", name.split("::")[-1], "machine-passed-mutably", f"{name} takes {vm_args or s['inputs']}: it can modify the machine while it is being inspected", name)
    pb, pt = find_parse_call(drv)
    idx = idx_local(drv)
    loops = natural_loops(cfg)
    main = [(h, b) for h, b in loops.items() if pb in b] if pb is not None else []
    if pb is None or idx is None or not main:
        chk.undecided_("C20.R3", "CMDDriver::run", "instruction loop / index variable not identified")
        return
    head, body = max(main, key=lambda x: len(x[1]))
    where = file_of(drv)
    # vm local: the local whose &mut is passed to Interpreter::parse
    vm_local = None
    for a in pt[2]:
        if a[0] in ("copy", "move") and "VM" in a[1].get("ty", "") and "mut" in a[1].get("ty", ""):
            l = a[1]["l"]
            for _ in range(6):
                d = defs.single(l)
                if d and d[0] == "assign" and d[2][2][0] == "ref":
                    l = d[2][2][1]["l"]
                    if not d[2][2][1]["p"]:
                        vm_local = l
                else:
                    break
    # region: blocks on paths head -> parse call (the call block excluded: it is the execution itself)
    fwd = cfg.reachable_from(head, avoid={pb})
    region = {b for b in fwd if pb in cfg.reachable_from(b)} | {head}
    region.discard(pb)
    pre_parse = set()
    # blocks that only prepare the interpreter call's arguments: straight-line predecessors of the call block
    b = pb
    while len(cfg.pred[b]) == 1 and len(cfg.succ[cfg.pred[b][0]]) == 1:
        b = cfg.pred[b][0]
        pre_parse.add(b)

    def region_rules(blocks, label, allow_blocks=()):
        bad = False
        for b in sorted(blocks):
            bb = drv["blocks"][b]
            for s in bb["stmts"]:
                if s[0] != "assign":
                    continue
                if s[1]["l"] == idx and not s[1]["p"]:
                    chk.violation("C20.R3", "CMDDriver::run", f"{label}:index-assigned", f"the {label} assigns the instruction index: stepping changes control flow", f"{where}:{s[3]}")
                    bad = True
                if vm_local is not None and s[1]["l"] == vm_local and s[1]["p"]:
                    chk.violation("C20.R3", "CMDDriver::run", f"{label}:machine-written", f"the {label} writes a field of the machine", f"{where}:{s[3]}")
                    bad = True
                if s[2][0] == "ref" and s[2][2] == "mut" and vm_local is not None and s[2][1]["l"] == vm_local and b not in allow_blocks:
                    chk.violation("C20.R3", "CMDDriver::run", f"{label}:machine-borrowed-mutably", f"the {label} takes &mut of the machine", f"{where}:{s[3]}")
                    bad = True
        return not bad

    if region_rules(region, "prompt path", allow_blocks=pre_parse | {pb}):
        chk.ok("C20.R3", "prompt-path", f"{len(region)} blocks between the loop head and the interpreter call: no write to idx (_{idx}) or the machine (_{vm_local})")
    # INT 3 arm
    sb, arms, otherwise = state_switch(ctx, drv)
    int_sw = None
    if sb is not None and "INT" in arms:
        t = M.term(drv["blocks"][arms["INT"]])
        if t[0] == "switch":
            int_sw = t
    if int_sw is None:
        chk.undecided_("C20.R3", "INT3-arm", "INT dispatch not identified")
    else:
        tgt3 = next((tg for v, tg in int_sw[2] if v == 3), None)
        if tgt3 is None:
            chk.violation("C20.R3", "CMDDriver::run", "int3-not-dispatched", "INT 3 has no arm in the driver", where)
        else:
            others = set()
            for v, tg in int_sw[2]:
                if v != 3:
                    others |= cfg.reachable_from(tg, avoid={head})
            arm = cfg.reachable_from(tgt3, avoid={head}) - others
            calls = [(b, M.term(drv["blocks"][b])) for b in arm if M.term(drv["blocks"][b])[0] == "call"]
            has_ui = any((t[1].get("def") or "").endswith("user_interface") for _, t in calls)
            if region_rules(arm, "INT 3 arm") and has_ui:
                chk.ok("C20.R3", "INT3-arm", f"{len(arm)} blocks: prompt issued, no write to the machine; falls through to the common idx+1")
            elif not has_ui:
                chk.violation("C20.R3", "CMDDriver::run", "int3-without-prompt", "the INT 3 arm does not open the prompt", where)
            after = cfg.reachable_from(tgt3, avoid={head})
            inc = [s for b in after for s in drv["blocks"][b]["stmts"] if s[0] == "assign" and s[1]["l"] == idx and not s[1]["p"]]
            if len(inc) >= 1:
                chk.ok("C20.R3", "INT3-advance", "after the breakpoint prompt the index advances through the common increment")
    # ---------------- R4: truth table over I, T, R
    def side_form(sd):
        """('idx', a) for idx + a | ('len', b, line) for len(code) - b | None"""
        oo = origin(defs, sd)
        if (oo[0] == "multi" and oo[1] == idx) or (oo[0] == "place" and oo[1]["l"] == idx and not [e for e in oo[1]["p"] if e != "deref"]):
            return ("idx", 0, None)
        if oo[0] == "call" and (oo[1][1].get("def") or "").endswith("::len"):
            # the length of the code vector *when* it was read: before the push of the terminating hlt it is one less than
            # the length the loop runs against
            lb = oo[2] if len(oo) > 2 else None
            pushes = [bi_ for bi_, t_ in M.calls_in(drv) if (t_[1].get("def") or "").endswith("Vec::<T, A>::push") and bi_ not in body]
            if lb is not None and len(pushes) == 1:
                if cfg.dominates(pushes[0], lb):
                    return ("len", 0, None)
                if cfg.dominates(lb, pushes[0]):
                    return ("len", 1, None)
                return None
            return ("len", 0, None)
        binrv = None
        line = None
        if oo[0] == "place":
            d = defs.single(oo[1]["l"])
            if d and d[0] == "assign" and d[2][2][0] == "bin":
                binrv, line = d[2][2], d[2][3]
        elif oo[0] == "rvalue" and oo[1][0] == "bin":
            binrv = oo[1]
        if binrv is not None and binrv[1] in ("AddO", "Add", "SubO", "Sub"):
            c = const_of(binrv[3])
            inner = side_form(binrv[2])
            if c is not None and inner is not None:
                sign = 1 if binrv[1].startswith("Add") else -1
                if inner[0] == "idx":
                    return ("idx", inner[1] + sign * c, line)
                return ("len", inner[1] - sign * c, line if sign < 0 else inner[2])
        return None


    _idxd = []

    def idx_derived():
        """locals whose value is built from the index variable (copies, borrows, aggregates such as Some(idx))"""
        if _idxd:
            return _idxd[0]
        S = {idx}
        changed = True
        while changed:
            changed = False
            for bb_ in drv["blocks"]:
                for s_ in bb_.get("stmts", []):
                    if s_[0] != "assign" or s_[1]["p"] or s_[1]["l"] in S:
                        continue
                    rv = s_[2]
                    srcs = []
                    if rv[0] == "use" and rv[1][0] in ("copy", "move"):
                        srcs = [rv[1][1]["l"]]
                    elif rv[0] == "ref":
                        srcs = [rv[1]["l"]]
                    elif rv[0] == "agg":
                        srcs = [a_[1]["l"] for a_ in rv[2] if a_[0] in ("copy", "move")]
                    if any(x in S for x in srcs):
                        S.add(s_[1]["l"])
                        changed = True
        _idxd.append(S)
        return S

    def classify(b):
        """atom of the switch at block b: 'I', 'T', 'R' or None (+ detail)"""
        t = M.term(drv["blocks"][b])
        o = origin(defs, t[1])
        if o[0] == "place":
            pl = o[1]
            if 1 <= pl["l"] <= drv["argc"] and any(isinstance(e, list) and e[0] == "f" for e in pl["p"]) and pl.get("ty") == "bool":
                return "I", pl
        if o[0] == "call":
            name = o[1][1].get("def") or ""
            if name.endswith("get_flag_state"):
                return "T", o
        if o[0] == "rvalue" and o[1][0] == "bin" and o[1][1] in ("Ne", "Eq", "Gt"):
            # (vm.arch.flag & <single-bit mask>) != 0 : the flag bit read directly
            for x, y in ((o[1][2], o[1][3]), (o[1][3], o[1][2])):
                if const_of(y) == 0:
                    ao = origin(defs, x)
                    if ao[0] == "rvalue" and ao[1][0] == "bin" and ao[1][1] == "BitAnd":
                        for fx, mx in ((ao[1][2], ao[1][3]), (ao[1][3], ao[1][2])):
                            m = fold_const(defs, mx)
                            fo = origin(defs, fx)
                            if m is not None and m > 0 and m & (m - 1) == 0 and fo[0] == "place" and \
                                    [e[2] for e in fo[1]["p"] if isinstance(e, list) and e[0] == "f"][-1:] == ["flag"]:
                                return "T", ("mask", fo, m, o[1][1] == "Eq", ao[2] if len(ao) > 2 else o[2])
        if o[0] == "rvalue" and o[1][0] == "bin" and o[1][1] in ("Le", "Lt", "Ne", "Ge", "Gt", "Eq"):
            fa, fb = side_form(o[1][2]), side_form(o[1][3])
            if fa and fb and {fa[0], fb[0]} == {"idx", "len"}:
                return "R", o
        # a comparison of the index with something that is neither the length nor a constant - a remembered index
        # (`prompted != Some(idx)`, `idx != last`): the prompt would depend on which instruction was prompted for before
        if o[0] == "call" and re.search(r"PartialEq(<.*>)?>?::(eq|ne)$", o[1][1].get("def") or "") and not is_str_eq(drv, o[1]):
            args_ = [a_[1]["l"] for a_ in o[1][2] if a_[0] in ("copy", "move")]
            if any(l_ in idx_derived() for l_ in args_) and len(o) > 2 and o[2] in body:
                return "P", o
        if o[0] == "rvalue" and o[1][0] == "bin" and o[1][1] in ("Ne", "Eq"):
            fa, fb = side_form(o[1][2]), side_form(o[1][3])
            for f1, other in ((fa, o[1][3]), (fb, o[1][2])):
                if f1 and f1[0] == "idx" and side_form(other) is None and const_of(other) is None:
                    oo_ = origin(defs, other)
                    if oo_[0] in ("place", "multi"):
                        return "P", o
        if o[0] == "call":
            # a comparison of texts (== / != between strings): the prompt would depend on what the instruction says
            ct = o[1]
            nm = ct[1].get("def") or ""
            if is_str_eq(drv, ct) or (re.search(r"(::|>)ne$", nm) and is_str_eq(drv, (ct[0], dict(ct[1], **{"def": nm[:-2] + "eq"})) + tuple(ct[2:]))):
                # .. evaluated in the iteration itself (a test made once before the loop says nothing about the
                # instruction about to execute)
                if len(o) > 2 and o[2] in body and cfg.dominates(head, o[2]):
                    return "H", o
        return None, o

    r_forms = []
    t_ok = []

    def walk(b, asg, count, seen):
        """all paths from b to the parse call under the atom assignment: yields prompt counts"""
        if b == pb:
            yield count
            return
        if b in seen:
            yield None  # cycle inside the region
            return
        seen = seen | {b}
        bb = drv["blocks"][b]
        t = M.term(bb)
        if t[0] == "call" and (t[1].get("def") or "").endswith("user_interface"):
            count += 1
        if t[0] == "switch":
            atom, o = classify(b)
            if atom in ("H", "P"):
                atom = None
            if atom is None and len([s_ for s_ in cfg.succ[b] if s_ in region or s_ == pb]) > 1:
                unknown_tests.add(b)
            if atom is not None:
                v = asg[atom]
                if atom == "R":
                    rv = o[1]
                    # truth of the comparison when R (= idx is a source instruction) holds
                    # forms accepted below; here: R true <=> comparison true for Le/Lt/Ne, false for Ge/Gt/Eq
                    cmp_true = v if rv[1] in ("Le", "Lt", "Ne") else (not v)
                    val = 1 if cmp_true else 0
                else:
                    val = 1 if v else 0
                    if atom == "T" and o[0] == "mask" and o[3]:
                        val = 1 - val  # (flag & mask) == 0
                tgt = next((tg for vv, tg in t[2] if vv == val), t[3])
                yield from walk(tgt, asg, count, seen)
                return
        succ = [s for s in cfg.succ[b] if s in region or s == pb]
        if not succ:
            return
        for s in succ:
            yield from walk(s, asg, count, seen)

    table_ok = True
    rows = 0
    unknown_tests = set()   # switches crossed by the walk whose meaning the rule does not know
    for iv in (False, True):
        for tv in (False, True):
            for rvv in (False, True):
                asg = {"I": iv, "T": tv, "R": rvv}
                unknown_tests.clear()
                counts = set(walk(head, asg, 0, frozenset()))
                crossed = set(unknown_tests)
                want = 1 if ((iv or tv) and rvv) else 0
                rows += 1
                unit = f"I={int(iv)},T={int(tv)},R={int(rvv)}"
                if counts == {want}:
                    chk.ok("C20.R4", f"row:{unit}", f"{want} prompt(s) on every path")
                elif None in counts:
                    chk.undecided_("C20.R4", f"row:{unit}", "a cycle lies between the loop head and the interpreter call")
                    table_ok = False
                elif len(counts) > 1 and crossed:
                    # both outcomes are possible only because a test the rule cannot read was followed both ways
                    chk.undecided_("C20.R4", f"row:{unit}", f"{sorted(counts)} prompts depending on a test the rule does not classify (bb{sorted(crossed)[0]})")
                    table_ok = False
                else:
                    table_ok = False
                    chk.violation("C20.R4", "CMDDriver::run", f"prompts:{unit}={sorted(counts)}",
                                  f"with interpreted={int(iv)}, TF={int(tv)}, source-instruction={int(rvv)} the driver issues {sorted(counts)} prompts before executing, expected {want}",
                                  where)
    # the atoms themselves
    sw_blocks = [b for b in region if M.term(drv["blocks"][b])[0] == "switch"]
    atoms = {}
    for b in sw_blocks:
        a, o = classify(b)
        if a:
            atoms.setdefault(a, []).append((b, o))
    uic_blocks = [b for b in region if M.term(drv["blocks"][b])[0] == "call" and (M.term(drv["blocks"][b])[1].get("def") or "").endswith("user_interface")]
    guards = set()
    for b in uic_blocks:
        guards |= set(cfg.control_deps.get(b, ()))
    unread = [b for b in sw_blocks if b in guards and classify(b)[0] is None]
    for b, o in atoms.get("H", []):
        if b in guards:
            chk.violation("C20.R4", "CMDDriver::run", "prompt-depends-on-instruction-text",
                          "whether the prompt is shown depends on a comparison of texts (the instruction's own text): an instruction the user wrote with that text "
                          "(e.g. a hlt of the program itself) is executed without a prompt, although exactly one prompt precedes each executed instruction while stepping",
                          f"{where}:{line_of(drv, b)}", witness="start: mov ax,1 / hlt, run with -i")
    for b, o in atoms.get("P", []):
        if b in guards:
            chk.violation("C20.R4", "CMDDriver::run", "prompt-depends-on-previous-index",
                          "whether the prompt is shown depends on a comparison of the index with a remembered value: an instruction that is executed twice in a row "
                          "(a jump to its own line, the iterations of a REP) gets one prompt for all its executions, although exactly one prompt precedes each executed "
                          "instruction while stepping", f"{where}:{line_of(drv, b)}", witness="w: loop w with CX >= 2, run with -i")
    for a in ("I", "T", "R"):
        if a not in atoms and unread:
            chk.undecided_("C20.R4", f"atom:{a}", f"no test of this kind was recognised, and the prompt is guarded by a test the rule does not classify (bb{unread[0]})")
        elif a == "R" and any(b in guards for b, _ in atoms.get("H", [])):
            pass   # reported above: the exclusion is made on the instruction's text instead of its index
        elif a not in atoms:
            chk.violation("C20.R4", "CMDDriver::run", f"atom-{a}-missing",
                          {"I": "the stepping region never tests the interpreted switch", "T": "the stepping region never tests the trap flag",
                           "R": "the stepping region never excludes the appended hlt"}[a], where)
    for b, o in atoms.get("T", []):
        if o[0] == "mask":
            _, fo, m, inv, cb = o
            flag_ok = fo[1]["l"] == vm_local
            trap_ok = (m == 1 << 8)
            in_iter = cb in body and cfg.dominates(head, cb)
            if flag_ok and trap_ok and in_iter:
                chk.ok("C20.R4", f"atom:T@bb{b}", "vm.arch.flag & (1<<8) evaluated in the same iteration")
            else:
                chk.violation("C20.R4", "CMDDriver::run", "trap-flag-source",
                              f"the stepping condition's flag test is not TF of the current flag word (flag word current: {flag_ok}, mask {m:#x} is TF: {trap_ok}, same iteration: {in_iter})",
                              f"{where}:{line_of(drv, cb)}")
            continue
        t = o[1]
        cb = o[2]
        flag_ok = False
        trap_ok = False
        if len(t[2]) == 2:
            fo = origin(defs, t[2][0])
            if fo[0] == "place" and fo[1]["l"] == vm_local and [e[2] for e in fo[1]["p"] if isinstance(e, list) and e[0] == "f"][-1:] == ["flag"]:
                flag_ok = True
            ko = origin(defs, t[2][1])
            if ko[0] == "rvalue" and ko[1][0] == "agg" and ko[1][1].get("vname") == "TRAP":
                trap_ok = True
        in_iter = cb in body and cfg.dominates(head, cb)
        if flag_ok and trap_ok and in_iter:
            chk.ok("C20.R4", f"atom:T@bb{b}", "get_flag_state(vm.arch.flag, Flags::TRAP) evaluated in the same iteration")
        else:
            chk.violation("C20.R4", "CMDDriver::run", "trap-flag-source",
                          f"the stepping condition's flag test is not TF of the current flag word (flag word current: {flag_ok}, Flags::TRAP: {trap_ok}, same iteration: {in_iter})",
                          f"{where}:{line_of(drv, cb)}")
    for b, o in atoms.get("R", []):
        rv = o[1]

        fa, fb = side_form(rv[2]), side_form(rv[3])
        form = None
        under = None
        if fa and fb and {fa[0], fb[0]} == {"idx", "len"}:
            idx_left = fa[0] == "idx"
            fi, fl = (fa, fb) if idx_left else (fb, fa)
            opn = rv[1] if idx_left else {"Le": "Ge", "Lt": "Gt", "Ge": "Le", "Gt": "Lt"}.get(rv[1], rv[1])
            # idx + a OP len - b   <=>   idx OP len - (a + b)
            form = (opn, fi[1] + fl[1])
            if fl[1] > 0:
                under = (fl[1], fl[2])
        if form in (("Le", 2), ("Lt", 1), ("Ne", 1)):
            chk.ok("C20.R4", f"atom:R@bb{b}", f"idx {form[0]} len-{form[1]}: excludes exactly the appended hlt")
        elif form is None:
            chk.undecided_("C20.R4", f"atom:R@bb{b}", "form of the index bound not recognised")
        else:
            chk.violation("C20.R4", "CMDDriver::run", f"bound:{form[0]}-{form[1]}",
                          f"the prompt is issued only while idx {form[0]} len-{form[1]}: this does not exclude exactly the appended hlt (source instructions run without a prompt, or the hlt gets one)",
                          where)
        if under is not None:
            c, line = under
            # len(code) >= 1 after the appended hlt; len == 1 (no source instruction) is attainable: `start:` alone
            if c >= 2:
                chk.violation("C20.R4", "CMDDriver::run", f"bound-underflow:len-{c}",
                              f"`len - {c}` underflows (checked arithmetic: abort) when the program has no instruction: out.code = [hlt], len = 1; reached as soon as stepping is on",
                              f"{where}:{line}", witness="program `start:` run with --interpreted")
            else:
                chk.ok("C20.R4", f"bound-arith@bb{b}", f"len - {c} cannot underflow: len >= 1 after the appended hlt")
        elif form is not None:
            chk.ok("C20.R4", f"bound-arith@bb{b}", "nothing is subtracted from the length: no underflow")
    # not nested
    uic = [b for b in region if M.term(drv["blocks"][b])[0] == "call" and (M.term(drv["blocks"][b])[1].get("def") or "").endswith("user_interface")]
    for b in uic:
        inner = [h for h, bd in loops.items() if b in bd and h != head]
        if inner:
            chk.violation("C20.R4", "CMDDriver::run", "prompt-in-nested-loop", "the prompt call sits in a nested loop: more than one prompt per step", f"{where}:{line_of(drv, b)}")
    chk.extra["stepping_region_blocks"] = len(region)
    chk.extra["truth_table_rows"] = rows
    # ---------------- R5: position of the stepping message
    n = 0
    for bi, t in M.calls_in(drv):
        if bi not in region or not (t[1].get("def") or "").endswith("get_err_pos"):
            continue
        n += 1
        chain = trace_value(drv, bi, t[2][1])
        arith = [c for c in chain if c[0] == "rvalue" and c[1][0] == "bin"]
        if arith:
            rv = arith[0][1]
            const = [o[1].get("val") for o in rv[2:] if o[0] == "const"]
            chk.violation("C20.R5", "CMDDriver::run", f"position-arithmetic:{rv[1]}{const}",
                          f"the 'About to execute' message looks up source-map entry {rv[1].rstrip('O')} {const}: for an instruction shorter than that "
                          f"(e.g. `hlt`, `nop`, `ret`, `cld` at the start of a line) the following line is named", f"{where}:{line_of(drv, bi)}")
        else:
            # the position must come from source_map.get(&idx)
            src = [c for c in chain if c[0] == "call"]
            chk.ok("C20.R5", f"get_err_pos@bb{bi}", "source-map entry of idx passed unmodified")
    if n == 0:
        chk.undecided_("C20.R5", "stepping-message", "no line lookup in the stepping region")
