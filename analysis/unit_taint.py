"""Index-unit analysis (C15.R2): positions counted in *characters* (from `chars().enumerate()`) versus
positions counted in *bytes* (str::len, char_indices, lalrpop locations carried by ParseError, regex
offsets).  Interprocedural, flow-insensitive, field-based may-analysis over the MIR of both crates.

Locations: (fn, local, tuple-index|None), (adt, field) for fields of local structs, (fn, 'ret', i|None).
A sink is (a) slicing a str/String with a Range whose bound may be a CHAR index, (b) an ordering
comparison or subtraction whose two operands carry different units (one only CHAR, the other only BYTE).
Sound as a may-analysis of where character counts can flow; a reported sink is a place where the two
units meet, which is wrong for every text containing a multi-byte character before the position."""
import re
import mir as M

CHAR, BYTE = "char-index", "byte-offset"
MID = "displaced-byte-offset"   # a byte offset moved by a constant of 2 or more / halved: need not be a character boundary

ENUM_CHARS = re.compile(r"Enumerate<std::str::Chars")
CHAR_INDICES = re.compile(r"CharIndices")
BYTE_CALLS = re.compile(r"<impl str>::len$|String::len$|<impl str>::find$|<impl str>::rfind$|Match::<'.*>::start$|Match::<'.*>::end$|Match::start$|Match::end$")
STR_INDEX = re.compile(r"ops::Index<I> for str>::index$|<std::string::String as std::ops::Index<I>>::index$|<impl str>::get$|<impl str>::split_at$")
PASS_FIRST = re.compile(r"IntoIterator>::into_iter$|Iterator::enumerate$|<impl \[T\]>::iter$|Vec::<T, A>::iter$|Deref>::deref$|clone::Clone>::clone$|Clone::clone$|Iterator::copied$|Iterator::cloned$|Option::<T>::unwrap$|Option::<&T>::copied$|Iterator::rev$|<impl \[T\]>::last$|<impl \[T\]>::first$|<impl \[T\]>::get$|Index<I>>::index$|HashMap::<K, V, S, A>::get$|Iterator::skip$|Iterator::take$")
ENUM_OTHER = re.compile(r"Enumerate<")
PUSH = re.compile(r"Vec::<T, A>::push$|Vec::<T, A>::insert$|HashSet::<T, S, A>::insert$|VecDeque::<T, A>::push_back$")
MINMAX = re.compile(r"cmp::Ord::min$|cmp::Ord::max$|cmp::min$|cmp::max$|cmp::Ord::clamp$")
STEP_CALLS = re.compile(r"::(saturating|wrapping|checked|overflowing)_(add|sub)$")
BOUNDARY_CALLS = re.compile(r"is_char_boundary$|floor_char_boundary$|ceil_char_boundary$")
MAP_INSERT = re.compile(r"HashMap::<K, V, S, A>::insert$")


def carries(ty):
    """can a value of this type hold a position?"""
    return "usize" in ty or "u64" in ty or "u32" in ty


class UnitAnalysis:
    def __init__(self, program, lookaround_params=None):
        """lookaround_params: {fn id: [param local numbers whose value (tuple index 1) is an @L/@R location]}"""
        self.P = program
        self.look = lookaround_params or {}
        self.units = {}  # loc -> set
        self.fns = [f for f in program.fns.values()]
        self.by_id = program.fns
        self.sinks = []
        self.changed = True

    # ---- locations
    def key_of_place(self, fn, pl):
        """location key(s) a place reads from / writes to: list, most specific first"""
        l = pl["l"]
        lty = fn["locals"][l]["ty"]
        fields = [e for e in pl["p"] if isinstance(e, list) and e[0] == "f"]
        keys = []
        # struct field of a local ADT reached through the place
        cur_ty = lty
        for e in pl["p"]:
            if isinstance(e, list) and e[0] == "f":
                adt = self.adt_of(cur_ty)
                if adt is not None:
                    keys.append(("field", adt["name"], e[2]))
                    fl = dict((n, t) for n, t in adt["variants"][0]["fields"]) if adt["kind"] == "Struct" else {}
                    cur_ty = fl.get(e[2], "?")
                else:
                    cur_ty = "?"
        ti = None
        core = re.sub(r"^&('\w+ )?(mut )?", "", lty)
        if core.startswith("("):
            if fields:
                ti = fields[0][1]
        elif re.match(r"^(std::option::|core::option::)?Option<&?\(", core) or re.match(r"^(std::option::|core::option::)?Option<\(", core):
            if len(fields) >= 2:
                ti = fields[1][1]
        keys.append(("local", fn["id"], l, ti))
        if ti is not None and not fields:
            pass
        return keys

    def adt_of(self, ty):
        core = re.sub(r"^&('\w+ )?(mut )?", "", ty).strip()
        core = core.replace("emulator_8086_lib::", "")
        for name, a in self.P.adts.items():
            if core == name or core.endswith("::" + name.split("::")[-1]) and name.split("::")[-1] == core.split("::")[-1]:
                return a
        return None

    def get(self, key):
        return self.units.get(key, frozenset())

    def add(self, key, us):
        if not us:
            return
        cur = self.units.get(key, frozenset())
        new = cur | us
        if new != cur:
            self.units[key] = new
            self.changed = True

    def place_units(self, fn, pl):
        us = frozenset()
        if "ParseError<" in fn["locals"][pl["l"]]["ty"] and pl["p"] and "usize" in pl.get("ty", ""):
            us |= frozenset({BYTE})  # lalrpop error locations are byte offsets
        keys = self.key_of_place(fn, pl)
        for k in keys:
            us |= self.get(k)
        # a whole-tuple read also sees nothing per-index; a per-index read also sees the whole-local entry
        last = keys[-1]
        if last[3] is not None:
            us |= self.get(("local", last[1], last[2], None))
        return us

    def operand_units(self, fn, op):
        if op[0] in ("copy", "move"):
            return self.place_units(fn, op[1])
        return frozenset()

    def write_place(self, fn, pl, us):
        if not us:
            return
        for k in self.key_of_place(fn, pl):
            self.add(k, us)

    # ---- transfer
    def seed(self):
        for fn in self.fns:
            if re.search(r"::__action\d+$", fn["name"]):
                for l in range(1, fn["argc"] + 1):
                    ty = fn["locals"][l]["ty"]
                    if ty.startswith("(usize,") and ty.endswith("usize)"):
                        # lalrpop hands every symbol to the action as (start location, value, end location): byte offsets
                        self.add(("local", fn["id"], l, 0), frozenset({BYTE}))
                        self.add(("local", fn["id"], l, 2), frozenset({BYTE}))
                        if l in self.look.get(fn["id"], ()):
                            self.add(("local", fn["id"], l, 1), frozenset({BYTE}))

    def run(self):
        self.seed()
        it = 0
        while self.changed and it < 60:
            self.changed = False
            it += 1
            for fn in self.fns:
                self.step_fn(fn)
        self.collect_sinks()
        return self

    def step_fn(self, fn):
        for bi, bb in enumerate(fn["blocks"]):
            if bb.get("cleanup"):
                continue
            for s in bb["stmts"]:
                if s[0] != "assign":
                    continue
                lhs, rv = s[1], s[2]
                k = rv[0]
                us = frozenset()
                if k == "use":
                    if rv[1][0] in ("copy", "move") and not rv[1][1]["p"] and not lhs["p"]:
                        # whole-local copy: keep tuple indices apart
                        src = rv[1][1]["l"]
                        for ti in (None, 0, 1, 2):
                            u = self.get(("local", fn["id"], src, ti))
                            if u:
                                self.add(("local", fn["id"], lhs["l"], ti), u)
                        continue
                    us = self.operand_units(fn, rv[1])
                elif k == "ref":
                    if not rv[1]["p"] or rv[1]["p"] == ["deref"]:
                        src = rv[1]["l"]
                        if not lhs["p"]:
                            for ti in (None, 0, 1, 2):
                                u = self.get(("local", fn["id"], src, ti))
                                if u:
                                    self.add(("local", fn["id"], lhs["l"], ti), u)
                            continue
                    us = self.place_units(fn, rv[1])
                elif k == "cast":
                    us = self.operand_units(fn, rv[2]) if isinstance(rv[2], list) else frozenset()
                elif k == "bin":
                    op = rv[1]
                    if op in ("Add", "AddO", "Sub", "SubO", "AddUnchecked", "SubUnchecked"):
                        us = self.operand_units(fn, rv[2]) | self.operand_units(fn, rv[3])
                        if BYTE in us and any(self.big_const(o) for o in (rv[2], rv[3])):
                            us |= frozenset({MID})
                    elif op in ("Div", "Shr", "ShrUnchecked") and BYTE in self.operand_units(fn, rv[2]):
                        us = frozenset({MID})   # half of a position / a midpoint
                    # Mul/Div/Rem/compare results are not positions
                elif k == "agg":
                    kind = rv[1]
                    if isinstance(kind, dict) and kind.get("k") == "tuple" and not lhs["p"]:
                        for i, o in enumerate(rv[2]):
                            self.add(("local", fn["id"], lhs["l"], i), self.operand_units(fn, o))
                        continue
                    if isinstance(kind, dict) and kind.get("k") == "adt":
                        # struct literal / Range: fields union into the local; struct fields by name
                        allu = frozenset()
                        for i, o in enumerate(rv[2]):
                            u = self.operand_units(fn, o)
                            allu |= u
                            names = kind.get("fields") or []
                            adt = self.P.adts.get((kind.get("name") or "").replace("emulator_8086_lib::", ""))
                            if adt is not None and i < len(names):
                                self.add(("field", adt["name"], names[i]), u)
                        us = allu
                if us and carries(lhs.get("ty", "usize")):
                    self.write_place(fn, lhs, us)
            t = M.term(bb)
            if t[0] == "call":
                self.step_call(fn, bi, t)

    def step_call(self, fn, bi, t):
        fref, args, dest = t[1], t[2], t[3]
        name = fref.get("def") or ""
        inst = fref.get("inst") or name
        cid = fref.get("id")
        callee = self.by_id.get(cid) if not fref.get("indirect") else None
        dkey = ("local", fn["id"], dest["l"], None)
        if callee is not None:
            for i, a in enumerate(args):
                if i < callee["argc"]:
                    u = self.operand_units(fn, a)
                    self.add(("local", callee["id"], i + 1, None), u)
                    if a[0] in ("copy", "move") and not a[1]["p"]:
                        for ti in (0, 1, 2):
                            uu = self.get(("local", fn["id"], a[1]["l"], ti))
                            if uu:
                                self.add(("local", callee["id"], i + 1, ti), uu)
            for ti in (None, 0, 1, 2):
                u = self.get(("local", callee["id"], 0, ti))
                if u and not dest["p"]:
                    self.add(("local", fn["id"], dest["l"], ti), u)
            return
        if name.endswith("::next") and "Iterator" in name:
            recv = self.operand_units(fn, args[0]) if args else frozenset()
            if ENUM_CHARS.search(inst):
                self.add(("local", fn["id"], dest["l"], 0), frozenset({CHAR}))
            elif CHAR_INDICES.search(inst):
                self.add(("local", fn["id"], dest["l"], 0), frozenset({BYTE}))
            elif ENUM_OTHER.search(inst):
                self.add(("local", fn["id"], dest["l"], 1), recv)
            else:
                self.add(dkey, recv)
            return
        if BYTE_CALLS.search(name):
            self.add(dkey, frozenset({BYTE}))
            return
        if PUSH.search(name) and len(args) >= 2:
            u = self.operand_units(fn, args[-1])
            self.taint_pointee(fn, args[0], u)
            return
        if MAP_INSERT.search(name) and len(args) >= 3:
            u = self.operand_units(fn, args[2])
            self.taint_pointee(fn, args[0], u)
            return
        if MINMAX.search(name) and args:
            u = frozenset()
            for a in args:
                u |= self.operand_units(fn, a)
            self.add(dkey, u)
            return
        if STEP_CALLS.search(name) and len(args) == 2:
            u = self.operand_units(fn, args[0]) | self.operand_units(fn, args[1])
            if BYTE in u and self.big_const(args[1]):
                u |= frozenset({MID})
            self.add(dkey, u)
            self.add(("local", fn["id"], dest["l"], 0), u)   # checked_/overflowing_ forms: payload / first field
            return
        if PASS_FIRST.search(name) and args:
            u = self.operand_units(fn, args[0])
            self.add(dkey, u)
            return

    @staticmethod
    def big_const(op):
        return op[0] == "const" and isinstance(op[1].get("val"), int) and op[1]["val"] >= 2

    def taint_pointee(self, fn, op, us):
        """`&mut place` passed as receiver: the place's locations get the units"""
        if not us or op[0] not in ("copy", "move"):
            return
        l = op[1]["l"]
        # find the ref definition(s) of l
        seen = 0
        cur = l
        for _ in range(6):
            found = None
            for bb in fn["blocks"]:
                for s in bb["stmts"]:
                    if s[0] == "assign" and s[1]["l"] == cur and not s[1]["p"] and s[2][0] == "ref":
                        found = s[2][1]
            if found is None:
                break
            self.write_place(fn, found, us)
            self.add(("local", fn["id"], found["l"], None), us) if not found["p"] else None
            if [e for e in found["p"] if e != "deref"]:
                break
            cur = found["l"]
        self.add(("local", fn["id"], l, None), us)

    # ---- sinks
    def collect_sinks(self):
        self.sinks = []
        for fn in self.fns:
            file = fn["span"].rsplit(":", 2)[0]
            for bi, bb in enumerate(fn["blocks"]):
                if bb.get("cleanup"):
                    continue
                for s in bb["stmts"]:
                    if s[0] != "assign" or s[2][0] != "bin":
                        continue
                    op = s[2][1]
                    if op not in ("Lt", "Le", "Gt", "Ge", "Eq", "Ne", "Sub", "SubO"):
                        continue
                    a = self.operand_units(fn, s[2][2])
                    b = self.operand_units(fn, s[2][3])
                    if (a == {CHAR} and b == {BYTE}) or (a == {BYTE} and b == {CHAR}):
                        self.sinks.append({"kind": "mixed-comparison" if op not in ("Sub", "SubO") else "mixed-subtraction", "fn": fn["name"], "op": op,
                                           "where": f"{file}:{s[3]}", "left": sorted(a), "right": sorted(b)})
                t = M.term(bb)
                if t[0] == "call" and STR_INDEX.search(t[1].get("def") or "") and len(t[2]) >= 2:
                    u = self.operand_units(fn, t[2][1])
                    if CHAR in u:
                        self.sinks.append({"kind": "str-sliced-by-char-index", "fn": fn["name"], "op": "index", "where": f"{file}:{bb['term']['line']}",
                                           "left": sorted(u), "right": []})
                    elif MID in u and not re.search(r"<impl str>::get$", t[1].get("def") or "") and "__action" not in fn["name"]:
                        # panicking forms only (`get` answers None); a function that consults the character boundaries
                        # itself is left undecided
                        checked = any(BOUNDARY_CALLS.search(t2[1].get("def") or "") or CHAR_INDICES.search(t2[1].get("inst") or "") for _, t2 in M.calls_in(fn))
                        self.sinks.append({"kind": "str-sliced-at-displaced-offset" + (":boundary-consulted" if checked else ""), "fn": fn["name"], "op": "index",
                                           "where": f"{file}:{bb['term']['line']}", "left": sorted(u), "right": []})
        return self.sinks

    def sources(self):
        out = []
        for fn in self.fns:
            for bi, t in M.calls_in(fn):
                inst = t[1].get("inst") or ""
                if (t[1].get("def") or "").endswith("::next") and ENUM_CHARS.search(inst):
                    out.append((fn["name"], fn["blocks"][bi]["term"]["line"], CHAR))
                elif (t[1].get("def") or "").endswith("::next") and CHAR_INDICES.search(inst):
                    out.append((fn["name"], fn["blocks"][bi]["term"]["line"], BYTE))
        return out
