"""Program: the MIR of both crates as one call universe, std models, and harnesses that build the
abstract machine state (14 register atoms + flag word + abstract memory)."""
import re
import mir as M
from absint import (
    IntV, AggV, EnumV, TopV, RefV, MemV, FnV, UNIT, State, Interp, Unsupported, MB,
)
from domains import Lin, bits_dep_all, bits_const

# strings, vectors and counters are shorter than 2^48 (no address space holds more): stated assumption
ISIZE_MAX = (1 << 48) - 1
# whether an iterator is exhausted depends on the iteration count: an implicit free variable of the loop
ITER = frozenset({("iter", 0)})


class Program:
    def __init__(self, facts):
        self.facts = facts
        self.fns = {}
        self.by_name = {}
        self.adts = {}
        self.consts = {}
        self.sigs = {}
        for which in ("lib", "bin"):
            m = facts.mir(which)
            for f in m["fns"]:
                self.fns[f["id"]] = f
                self.by_name[(which, f["name"])] = f
            for a in m["adts"]:
                self.adts[a["name"]] = a
            for c in m["consts"]:
                self.consts[(which, c["name"])] = c
            for s in m["sigs"]:
                self.sigs[(which, s["name"])] = s
        self.opaque = set()
        self._model_cache = {}

    def find(self, which, name):
        """the function `name` of crate `which`; if it is not at that path any more (moved to another module), the
        unique function of the crate with the same last two path segments (Type::method), else the same last segment"""
        f = self.by_name.get((which, name))
        if f is not None:
            return f
        segs = name.split("::")
        for n in (2, 1):
            if len(segs) < n:
                continue
            tail = "::".join(segs[-n:])
            if n == 1 and (tail[:1].isupper() or tail in ("new", "default", "run", "parse", "clear")):
                continue
            c = [v for (w, k), v in self.by_name.items() if w == which and (k == tail or k.endswith("::" + tail)) and "{closure" not in k]
            if len(c) == 1:
                return c[0]
        return None

    def find_adt(self, name):
        """the type `name`; if it moved to another module, the unique type with the same own name"""
        a = self.adts.get(name)
        if a is not None:
            return a
        tail = name.rsplit("::", 1)[-1]
        c = [v for k, v in self.adts.items() if k.rsplit("::", 1)[-1] == tail]
        return c[0] if len(c) == 1 else None

    def fn(self, which, name):
        return self.by_name[(which, name)]

    def lib(self, name):
        return self.by_name[("lib", name)]

    def model_for(self, cid, fref):
        if cid in self._model_cache:
            return self._model_cache[cid]
        m = None
        if cid not in self.fns or cid in self.opaque:
            name = fref.get("def", cid) if fref else cid
            for pat, fnc in MODELS:
                if pat.search(name):
                    m = fnc
                    break
        self._model_cache[cid] = m
        return m


def fresh_value(I, P, ty, name, depth=0):
    """a value of type ty made of fresh atoms"""
    ty = ty.strip()
    while ty.startswith("&"):
        ty = re.sub(r"^&('\w+ )?(mut )?", "", ty)
    if M.int_type(ty):
        return I.new_atom(ty, name)
    adt = P.adts.get(ty)
    if adt is None and "::" in ty and "<" not in ty:
        # the other crate names a re-exported type by its public path: unique match on the type's own name
        cands = [a for n, a in P.adts.items() if n.rsplit("::", 1)[-1] == ty.rsplit("::", 1)[-1]]
        if len(cands) == 1:
            adt = cands[0]
            ty = adt["name"]
    if adt and depth < 3:
        if adt["kind"] == "Struct":
            return AggV(ty, [fresh_value(I, P, fty, f"{name}.{fname}", depth + 1) for fname, fty in adt["variants"][0]["fields"]])
        if adt["kind"] == "Enum":
            forced = getattr(I, "force_enum", {}).get(ty)
            if forced is not None:
                v = adt["variants"][forced]
                return EnumV(ty, forced, tuple(fresh_value(I, P, fty, f"{name}.{v['name']}.{fname}", depth + 1) for fname, fty in v["fields"]), len(adt["variants"]))
            alts = {}
            for i, v in enumerate(adt["variants"]):
                alts[i] = tuple(fresh_value(I, P, fty, f"{name}.{v['name']}.{fname}", depth + 1) for fname, fty in v["fields"])
            return EnumV(ty, None, (), len(adt["variants"]), frozenset({(name + "#variant", 0)}), alts)
    return TopV(ty, frozenset({(name, 0)}), tag=("fresh", name))


# ----------------------------------------------------------------------------------------------
# models of std / regex / lalrpop_util callees.  model(I, st, args, dest_ty, fn, bb, line, fref) -> V


def _deps(I, st, args):
    d = frozenset()
    for a in args:
        d |= I.deep_deps(st, a)
    return d


def _deref(I, st, v):
    n = 0
    while v.kind == "ref" and n < 4:
        v = I.read_loc(st, v.loc)
        n += 1
    return v


def m_identity(I, st, args, dest_ty, *r):
    return args[0] if args else UNIT


def m_clone(I, st, args, dest_ty, *r):
    return _deref(I, st, args[0])


def m_wrapping(op):
    def f(I, st, args, dest_ty, *r):
        a, b = args
        if a.kind != "int" or b.kind != "int":
            return IntV.top(dest_ty, a.deps() | b.deps())
        return I.binop(st, op, a, b, dest_ty)  # plain Add/Sub = wrapping semantics
    return f


def m_rotate(left):
    """uN::rotate_left / rotate_right: with a constant count the result is a permutation of the operand's bits"""
    def f(I, st, args, dest_ty, *r):
        a, n = args[0], args[1]
        if a.kind != "int":
            return TopV(dest_ty, a.deps() | n.deps())
        if n.kind == "int" and n.is_const():
            w = a.w
            k = n.lo % w
            if not left:
                k = (w - k) % w
            bits = tuple(a.bits[(i - k) % w] for i in range(w))
            if k == 0:
                return a
            tlo, thi = M.type_range(a.ty)
            return IntV(a.ty, bits, tlo, thi, None, False, a.lineage)
        return IntV.top(a.ty, a.deps() | n.deps())
    return f


def m_minmax(is_min):
    def f(I, st, args, dest_ty, *r):
        a, b = _deref(I, st, args[0]), _deref(I, st, args[1])
        if a.kind != "int" or b.kind != "int" or a.ty != b.ty:
            return m_top(I, st, args, dest_ty)
        if a.is_const() and b.is_const():
            return IntV.const(a.ty, min(a.lo, b.lo) if is_min else max(a.lo, b.lo))
        lo = min(a.lo, b.lo) if is_min else max(a.lo, b.lo)
        hi = min(a.hi, b.hi) if is_min else max(a.hi, b.hi)
        if (is_min and a.hi <= b.lo) or (not is_min and a.lo >= b.hi):
            return a
        if (is_min and b.hi <= a.lo) or (not is_min and b.lo >= a.hi):
            return b
        return IntV(a.ty, bits_dep_all(a.w, a.deps() | b.deps()), lo, hi, None, False, a.lineage | b.lineage)
    return f


def m_bitcount(kind):
    def f(I, st, args, dest_ty, *r):
        a = _deref(I, st, args[0])
        if a.kind != "int":
            return m_top(I, st, args, dest_ty)
        w = a.w
        if a.is_const():
            v = a.lo & ((1 << w) - 1)
            if kind == "ones":
                res = bin(v).count("1")
            elif kind == "tz":
                res = w if v == 0 else (v & -v).bit_length() - 1
            else:
                res = w - v.bit_length()
            return IntV.const("u32", res)
        return IntV("u32", bits_dep_all(32, a.deps()), 0, w, None, False, a.lineage)
    return f


def m_abs(I, st, args, dest_ty, *r):
    a = _deref(I, st, args[0])
    if a.kind != "int":
        return m_top(I, st, args, dest_ty)
    if a.is_const():
        return IntV.const(a.ty, abs(a.lo))
    lo = 0 if a.lo <= 0 <= a.hi else min(abs(a.lo), abs(a.hi))
    hi = max(abs(a.lo), abs(a.hi))
    aff = Lin(0, ((("abs", a.aff, 0), 1),)) if a.aff is not None else None
    return IntV(a.ty, bits_dep_all(a.w, a.deps()), lo, hi, aff, False, a.lineage)


def m_to_bytes(little):
    """iN::to_le_bytes / to_be_bytes: byte k is bits 8k..8k+7 of the value"""
    def f(I, st, args, dest_ty, *r):
        a = args[0]
        if a.kind != "int" or not M.int_type(a.ty):
            return TopV(dest_ty, a.deps())
        n = M.int_type(a.ty)[0] // 8
        uty = "u" + a.ty[1:]
        u = I.cast_int(a, uty)
        out = []
        for k in range(n):
            sh = u if k == 0 else I.binop(st, "Shr", u, IntV.const("u32", 8 * k), uty)
            out.append(I.cast_int(sh, "u8"))
        return AggV("array", out if little else out[::-1])
    return f


def m_from_bytes(little):
    """iN::from_le_bytes / from_be_bytes"""
    def f(I, st, args, dest_ty, *r):
        a = _deref(I, st, args[0]) if args[0].kind == "ref" else args[0]
        if a.kind != "agg" or not M.int_type(dest_ty) or any(x.kind != "int" for x in a.fields):
            return IntV.top(dest_ty, a.deps()) if M.int_type(dest_ty) else TopV(dest_ty, a.deps())
        uty = "u" + dest_ty[1:]
        bs = list(a.fields) if little else list(a.fields)[::-1]
        acc = None
        for k, x in enumerate(bs):
            w = I.cast_int(x, uty)
            if k:
                w = I.binop(st, "Shl", w, IntV.const("u32", 8 * k), uty)
            acc = w if acc is None else I.binop(st, "BitOr", acc, w, uty)
        return I.cast_int(acc, dest_ty)
    return f


def m_overflowing(op):
    """iN::overflowing_add/sub/mul: (wrapped result, overflowed?) -- exactly the checked MIR operation"""
    def f(I, st, args, dest_ty, *r):
        a, b = args
        if a.kind != "int" or b.kind != "int":
            return TopV(dest_ty, a.deps() | b.deps())
        # the value is the WRAPPED result (plain Add/Sub/Mul have wrapping semantics here); the checked operation's
        # first field is the exact result under the assumption that the following assert held, which is not this
        flag = I.binop(st, op + "O", a, b, f"({a.ty}, bool)").fields[1]
        return AggV("tuple", [I.binop(st, op, a, b, a.ty), flag])
    return f


def m_checked(op):
    """iN::checked_add/sub/mul: Some(result) unless the exact result does not fit"""
    def f(I, st, args, dest_ty, *r):
        a, b = args
        if a.kind != "int" or b.kind != "int":
            return TopV(dest_ty, a.deps() | b.deps())
        t = I.binop(st, op + "O", a, b, f"({a.ty}, bool)")
        res, flag = t.fields
        d = a.deps() | b.deps()
        if flag.kind == "int" and flag.is_const():
            return EnumV("Option", 0, (), 2, d) if flag.lo == 1 else EnumV("Option", 1, (res,), 2, d)
        return EnumV("Option", None, (), 2, d, {0: (), 1: (res,)})
    return f


def m_saturating(op):
    def f(I, st, args, dest_ty, *r):
        a, b = args
        if a.kind != "int" or b.kind != "int":
            return TopV(dest_ty, a.deps() | b.deps())
        t = I.binop(st, op + "O", a, b, f"({a.ty}, bool)")
        res, flag = t.fields
        if flag.kind == "int" and flag.is_const() and flag.lo == 0:
            return res
        lo, hi = M.type_range(a.ty)
        d = a.deps() | b.deps()
        if op == "Sub":
            return IntV.top(a.ty, d, max(lo, a.lo - b.hi), max(lo, a.hi - b.lo))
        return IntV.top(a.ty, d, min(hi, a.lo + b.lo), min(hi, a.hi + b.hi))
    return f


def m_try_from(I, st, args, dest_ty, *r):
    """TryFrom between integer types: Ok(value) iff it fits the target"""
    a = args[0]
    ok, err = _result_inner(dest_ty)
    d = a.deps()
    if a.kind != "int" or not M.int_type(ok):
        return EnumV("Result", None, (), 2, d, {0: (TopV(ok, d),), 1: (TopV(err, d),)})
    lo, hi = M.type_range(ok)
    if a.lo >= lo and a.hi <= hi:
        return EnumV("Result", 0, (I.cast_int(a, ok),), 2, d)
    if a.hi < lo or a.lo > hi:
        return EnumV("Result", 1, (TopV(err, d),), 2, d)
    inside = IntV.top(ok, d, max(lo, a.lo), min(hi, a.hi), exact=a.exact)
    return EnumV("Result", None, (), 2, d, {0: (inside,), 1: (TopV(err, d),)})


def m_into(I, st, args, dest_ty, *r):
    a = args[0]
    if a.kind == "int" and M.int_type(dest_ty):
        return I.cast_int(a, dest_ty)
    if a.kind == "int" and not M.int_type(dest_ty):
        return a  # generic destination: keep the value (its own type is authoritative)
    return TopV(dest_ty, a.deps())


def m_add_trait(I, st, args, dest_ty, fn, b, line, fref):
    a, c = args
    if a.kind == "int" and c.kind == "int":
        t = I.binop(st, "AddO", a, c, f"({a.ty}, bool)")
        res, flag = t.fields
        p = flag.pred
        status = "proved"
        wit = None
        if flag.hi == 1:
            status = "possible"
            if p[6] and I.lineage_clean(st, a) and I.lineage_clean(st, c):
                status = "definite"
                wit = f"Add({a!r},{c!r})"
        I.event("assert", fn, b, line, akind="Overflow:Add(trait)", status=status, witness=wit, vals=[a, c], exp=False)
        return res
    return TopV(dest_ty, a.deps() | c.deps())


def m_sub_trait(I, st, args, dest_ty, fn, b, line, fref):
    a, c = _deref(I, st, args[0]), _deref(I, st, args[1])
    if a.kind == "int" and c.kind == "int":
        t = I.binop(st, "SubO", a, c, f"({a.ty}, bool)")
        res, flag = t.fields
        p = flag.pred
        status = "proved"
        wit = None
        if flag.hi == 1:
            status = "possible"
            if p[6] and I.lineage_clean(st, a) and I.lineage_clean(st, c):
                status = "definite"
                wit = f"Sub({a!r},{c!r})"
        I.event("assert", fn, b, line, akind="Overflow:Sub(trait)", status=status, witness=wit, vals=[a, c], exp=False)
        return res
    return TopV(dest_ty, a.deps() | c.deps())


def m_default(I, st, args, dest_ty, *r):
    if M.int_type(dest_ty):
        return IntV.const(dest_ty, 0)
    return TopV(dest_ty, tag=("default",))


def m_unknown(I, st, args, dest_ty, fn=None, b=None, *r):
    """a callee without MIR and without a model: result unknown, and whatever it can reach through a `&mut`
    argument is unknown afterwards (the argument types are read from the call site)"""
    d = _deps(I, st, args)
    try:
        ops = M.term(fn["blocks"][b])[2] if isinstance(fn, dict) and b is not None else []
    except (IndexError, KeyError, TypeError):
        ops = []
    for a, op in zip(args, ops):
        ty = ""
        if op[0] in ("copy", "move"):
            ty = op[1].get("ty") or fn["locals"][op[1]["l"]]["ty"] or ""
        if a.kind == "ref" and ty.startswith("&mut"):
            try:
                cur = I.read_loc(st, a.loc)
                hv = I.havoc_value(cur, d)
                name = ((r[1] if len(r) > 1 and isinstance(r[1], dict) else {}) or {}).get("def") or ""
                if re.search(r"(Preprocessor|Interpreter|DataParser|PrintParser|Parser)::parse$", name):
                    hv = _free_containers(hv)
                I.write_loc(st, a.loc, hv)
            except Unsupported:
                pass
    if M.int_type(dest_ty):
        return IntV.top(dest_ty, d)
    if dest_ty == "()":
        return UNIT
    return TopV(dest_ty, d)


def _free_containers(v):
    """output arguments of a generated parser: the containers it fills can have any length (stated assumption: the
    grammars accept the empty program and arbitrarily long ones), so their lengths are free inputs of the analysis"""
    if v.kind == "agg":
        return AggV(v.name, [_free_containers(x) for x in v.fields])
    if v.kind == "top" and re.search(r"\bVec<|\bHashMap<|\bHashSet<|\bString\b", str(v.ty)):
        return TopV(v.ty, v.d, tag=("fresh", "parser-output"))
    return v


def m_top(I, st, args, dest_ty, *r):
    d = _deps(I, st, args)
    if M.int_type(dest_ty):
        return IntV.top(dest_ty, d)
    if dest_ty == "()":
        return UNIT
    return TopV(dest_ty, d)


def regex_width(term):
    """(min, max) length of the text of a regex terminal, from the regex itself (None if not analysable)"""
    try:
        import sre_parse
    except ImportError:  # pragma: no cover
        return None
    m = re.match(r'^r#"(.*)"#$', term)
    rx = m.group(1) if m else None
    if rx is None:
        if term.startswith('"') and term.endswith('"'):
            n = len(term) - 2
            return (n, n)
        return None
    rx = rx.replace("[[:ascii:]]", "[\\x00-\\x7f]").replace("[[:print:]]", "[ -~]")
    try:
        lo, hi = sre_parse.parse(rx).getwidth()
        return (int(lo), int(hi))
    except Exception:
        return None


def m_len(I, st, args, dest_ty, *r):
    d = _deps(I, st, args)
    v = _deref(I, st, args[0])
    if v.kind == "top" and v.tag and v.tag[0] == "tok":
        w = regex_width(v.tag[2])
        if w is not None:
            hi = min(w[1], ISIZE_MAX)
            if w[0] == hi:
                return IntV.const("usize", hi)
            # the length of a token is an input of the analysis: one atom per token, so that len-k keeps its form
            a = I.new_atom("usize", "len(" + v.tag[1] + ")", w[0], hi)
            fact = st.afacts.get(a.aff.key()) if a.aff is not None else None
            if fact is not None and max(a.lo, fact[0]) <= min(a.hi, fact[1]):
                a = IntV(a.ty, a.bits, max(a.lo, fact[0]), min(a.hi, fact[1]), a.aff, False, a.lineage, vid=a.vid)
            return a
        return IntV.top("usize", d, 0, ISIZE_MAX, exact=False)
    if v.kind == "top" and v.tag and v.tag[0] == "strlen":
        lo, hi = v.tag[1]
        return IntV.top("usize", d, lo, hi, exact=True)
    if v.kind == "top" and v.tag and v.tag[0] == "pushed":
        # something was pushed on this path: at least one element
        return IntV.top("usize", d, 1, ISIZE_MAX, exact=bool(len(v.tag) > 1 and v.tag[1]))
    # every length is attainable only for a container that is an unconstrained input of the analysed unit
    # (fresh value, input text); the length of a container produced by a callee or modified on the way is unknown
    if v.kind == "top" and v.tag is not None and v.tag[0] == "input" and getattr(I, "pin_input_len", None) is not None:
        # witness search: the analysis is restricted to input lines of one length (a sub-case of all inputs)
        return IntV.const("usize", I.pin_input_len)
    free = v.kind == "top" and v.tag is not None and v.tag[0] in ("fresh", "input", "vec", "map")
    return IntV.top("usize", d, 0, ISIZE_MAX, exact=free)


def site_number(I, fn, b):
    """number of the fresh value created at this call site in this calling context: the same site evaluated again
    (a loop body revisited during the fixpoint iteration) gets the same number, so that the names of the atoms it
    creates do not change from visit to visit and the iteration converges (allocation-site abstraction)"""
    memo = I.__dict__.setdefault("site_numbers", {})
    key = (tuple(I.call_stack), fn["name"] if isinstance(fn, dict) else str(fn), b)
    if key not in memo:
        I.fresh_n = getattr(I, "fresh_n", 0) + 1
        memo[key] = I.fresh_n
    return memo[key]


def m_option(payload_ty_of_dest=True):
    def f(I, st, args, dest_ty, fn, b, line, fref):
        d = _deps(I, st, args)
        inner = _option_inner(dest_ty)
        n_site = site_number(I, fn, b)
        recv = _deref(I, st, args[0])
        nm = recv.tag[1] if recv.kind == "top" and recv.tag and recv.tag[0] in ("map", "vec") else "lookup"
        pv = fresh_value(I, I.P, inner, f"{nm}[{n_site}]")
        return EnumV("Option", None, (), 2, d, {0: (), 1: (pv,)})
    return f


def _option_inner(ty):
    m = re.match(r"^(?:std::option::|core::option::)?Option<(.*)>$", ty)
    return m.group(1) if m else "?"


def _result_inner(ty):
    m = re.match(r"^(?:std::result::|core::result::)?Result<(.*)>$", ty)
    if not m:
        return "?", "?"
    body = m.group(1)
    depth = 0
    for i, c in enumerate(body):
        if c in "<([":
            depth += 1
        elif c in ">)]":
            depth -= 1
        elif c == "," and depth == 0:
            return body[:i].strip(), body[i + 1:].strip()
    return body, "?"


def m_from_str_radix(I, st, args, dest_ty, *r):
    d = _deps(I, st, args)
    ok, err = _result_inner(dest_ty)
    tok = _deref(I, st, args[0])
    if M.int_type(ok) and tok.kind == "top" and tok.tag and tok.tag[0] == "tok":
        pv = I.new_atom(ok, "num:" + tok.tag[1])
    else:
        # a text of unknown shape: which numbers it can denote is not known, so no value is claimed attainable
        pv = IntV.top(ok, d, exact=False) if M.int_type(ok) else TopV(ok, d)
    return EnumV("Result", None, (), 2, d, {0: (pv,), 1: (TopV(err, d),)})


def m_result_top(I, st, args, dest_ty, *r):
    d = _deps(I, st, args)
    ok, err = _result_inner(dest_ty)
    pv = IntV.top(ok, d, exact=True) if M.int_type(ok) else TopV(ok, d)
    # reference arguments may be written (read_line appends to the buffer)
    name = ((r[3] if len(r) > 3 and isinstance(r[3], dict) else {}) or {}).get("def") or ""
    reads_input = name.endswith(("read_line", "read_to_string"))
    for a in args:
        if a.kind == "ref":
            try:
                cur = I.read_loc(st, a.loc)
                if cur.kind != "ref":
                    hv = I.havoc_value(cur, d)
                    if reads_input and hv.kind == "top" and "String" in str(getattr(cur, "ty", "")):
                        # what the input delivers is arbitrary (stated assumption): any length is attainable
                        hv = TopV(hv.ty, hv.d, tag=("input", "stdin"))
                    I.write_loc(st, a.loc, hv)
            except Unsupported:
                pass
    if reads_input and getattr(I, "assume_read_ok", False):
        # partition "the read succeeded" (any byte count, 0 = end of input, included)
        return EnumV("Result", 0, (pv,), 2, d)
    return EnumV("Result", None, (), 2, d, {0: (pv,), 1: (TopV(err, d),)})


def m_unwrap(I, st, args, dest_ty, fn, b, line, fref):
    v = args[0]
    status = "possible"
    res = None
    if v.kind == "enum":
        is_opt = v.name == "Option" or "Option" in (fref.get("def", ""))
        good = 1 if is_opt else 0
        if v.variant is not None:
            status = "proved" if v.variant == good else "definite"
            res = v.fields[0] if v.fields else TopV(dest_ty)
        elif v.alts and good in v.alts and v.alts[good]:
            res = v.alts[good][0]
    I.event("assert", fn, b, line, akind="unwrap", status=status, witness=None, vals=[v], exp=False)
    if res is None:
        d = v.deps()
        res = IntV.top(dest_ty, d) if M.int_type(dest_ty) else TopV(dest_ty, d)
    return res


def m_unwrap_or(I, st, args, dest_ty, *r):
    v, dflt = args
    inner = dest_ty[1:].strip() if dest_ty.startswith("&") else dest_ty
    if dest_ty.startswith("&") and M.int_type(inner):
        # Option<&int>::unwrap_or(&int): a reference to an integer is modelled by the integer itself
        from absint import vjoin
        d = v.deps() | I.deep_deps(st, dflt)
        pay = v.alts[1][0] if v.kind == "enum" and v.alts and v.alts.get(1) else None
        pay = _deref(I, st, pay) if pay is not None else None
        if pay is None or pay.kind != "int":
            pay = IntV.top(inner, d, exact=True)
        dv = _deref(I, st, dflt) if dflt.kind == "ref" else dflt
        if dv.kind != "int":
            dv = IntV.top(inner, I.deep_deps(st, dflt))
        if v.kind == "enum" and v.variant == 1:
            return pay
        if v.kind == "enum" and v.variant == 0:
            return dv
        return vjoin(pay, dv, v.ddeps if v.kind == "enum" else frozenset())
    if v.kind == "enum" and v.variant is None and v.alts and v.alts.get(1):
        from absint import vjoin
        return vjoin(v.alts[1][0], dflt, v.ddeps)
    d = v.deps() | dflt.deps()
    return IntV.top(dest_ty, d) if M.int_type(dest_ty) else TopV(dest_ty, d)


def m_option_map(I, st, args, dest_ty, fn, b, line, fref):
    """Option::map(f): None stays None, Some(x) becomes Some(f(x)) with f's body run on x"""
    from absint import vjoin
    v, clos = args[0], args[1]
    d = _deps(I, st, args)
    if v.kind == "enum" and v.variant == 0:
        return EnumV("Option", 0, (), 2, v.ddeps)
    pay = None
    if v.kind == "enum":
        pay = v.fields[0] if v.variant == 1 and v.fields else (v.alts[1][0] if v.alts and v.alts.get(1) else None)
    if pay is None:
        return m_top(I, st, args, dest_ty)
    r = I.apply_callable(st, clos, [pay])
    if r is None:
        return m_top(I, st, args, dest_ty)
    if v.variant == 1:
        return EnumV("Option", 1, (r,), 2, v.ddeps)
    return EnumV("Option", None, (), 2, v.ddeps | d, {0: (), 1: (r,)})


def m_option_and_then(I, st, args, dest_ty, fn, b, line, fref):
    """Option::and_then(f): None stays None, Some(x) becomes f(x)"""
    v, clos = args[0], args[1]
    d = _deps(I, st, args)
    if v.kind == "enum" and v.variant == 0:
        return EnumV("Option", 0, (), 2, v.ddeps)
    pay = None
    if v.kind == "enum":
        pay = v.fields[0] if v.variant == 1 and v.fields else (v.alts[1][0] if v.alts and v.alts.get(1) else None)
    if pay is None:
        return m_top(I, st, args, dest_ty)
    r = I.apply_callable(st, clos, [pay])
    if r is None or r.kind != "enum":
        return m_top(I, st, args, dest_ty)
    if v.variant == 1:
        return r
    if r.variant == 0:
        return EnumV("Option", 0, (), 2, v.ddeps | r.ddeps)
    some = r.fields if r.variant == 1 else (r.alts or {}).get(1)
    if some is None:
        return m_top(I, st, args, dest_ty)
    return EnumV("Option", None, (), 2, v.ddeps | r.ddeps | d, {0: (), 1: tuple(some)})


def _res_parts(v):
    """(ok payload or None, err payload or None, known variant or None) of a Result value"""
    if v.kind != "enum":
        return None, None, None
    if v.variant == 0:
        return (v.fields[0] if v.fields else UNIT), None, 0
    if v.variant == 1:
        return None, (v.fields[0] if v.fields else UNIT), 1
    alts = v.alts or {}
    ok = alts[0][0] if alts.get(0) else (UNIT if 0 in alts else None)
    er = alts[1][0] if alts.get(1) else (UNIT if 1 in alts else None)
    return ok, er, None


def m_result_comb(kind):
    """Result::map / map_err / and_then / or_else / unwrap_or_else with the closure's body run on the payload"""
    def f(I, st, args, dest_ty, fn, b, line, fref):
        v, clos = args[0], args[1]
        d = _deps(I, st, args)
        ok, er, known = _res_parts(v)
        if v.kind != "enum" or (ok is None and er is None):
            return I.havoc_call(st, args, dest_ty)
        on_ok = kind in ("map", "and_then")
        src = ok if on_ok else er
        out_same = er if on_ok else ok   # the side that is handed on unchanged
        r = None
        if src is not None and known in (None, 0 if on_ok else 1):
            s_before = st.copy() if known is None else None
            r = I.apply_callable(st, clos, [src])
            if r is None:
                return I.havoc_call(st, args, dest_ty)
            if s_before is not None:
                j = I.join_states(s_before, st, len(st.frames) - 1)
                st.frames, st.pc, st.refined, st.corr, st.afacts, st.rel = j.frames, j.pc, j.refined, j.corr, j.afacts, j.rel
        if kind == "unwrap_or_else":
            if known == 0:
                return ok
            if known == 1:
                return r
            from absint import vjoin
            return vjoin(ok, r, d)
        alts = {}
        if on_ok:
            if r is not None:
                if kind == "map":
                    alts[0] = (r,)
                else:
                    rok, rer, rk = _res_parts(r)
                    if rok is not None:
                        alts[0] = (rok,)
                    if rer is not None:
                        alts[1] = (rer,)
            if out_same is not None and 1 not in alts:
                alts[1] = (out_same,)
        else:
            if out_same is not None:
                alts[0] = (out_same,)
            if r is not None:
                if kind == "map_err":
                    alts[1] = (r,)
                else:
                    rok, rer, rk = _res_parts(r)
                    if rok is not None and 0 not in alts:
                        alts[0] = (rok,)
                    if rer is not None:
                        alts[1] = (rer,)
        if len(alts) == 1:
            k = next(iter(alts))
            return EnumV("Result", k, alts[k], 2, v.ddeps | d)
        return EnumV("Result", None, (), 2, v.ddeps | d, alts)
    return f


def m_checked_div(op):
    """iN::checked_div / checked_rem: None iff the divisor is 0 (or MIN / -1), else Some(quotient)"""
    def f(I, st, args, dest_ty, *r):
        a, b = args
        d = a.deps() | b.deps()
        if a.kind != "int" or b.kind != "int":
            return EnumV("Option", None, (), 2, d, {0: (), 1: (TopV(_option_inner(dest_ty), d),)})
        zero_possible = b.lo <= 0 <= b.hi and 0 not in b.excl
        only_zero = b.is_const() and b.lo == 0
        if only_zero:
            return EnumV("Option", 0, (), 2, d)
        # quotient on the paths where the divisor is not 0: magnitude bounded by the dividend's
        m = max(abs(a.lo), abs(a.hi))
        lo = -m if (a.signed or b.signed) else 0
        q = IntV.top(a.ty, d, max(lo, M.type_range(a.ty)[0]), min(m, M.type_range(a.ty)[1])) if op == "Div" else IntV.top(a.ty, d)
        I.div_vids.add(q.vid)  # a quotient: narrowing casts of it are what C03.R3 looks at
        if not zero_possible:
            return EnumV("Option", 1, (q,), 2, d)
        return EnumV("Option", None, (), 2, d, {0: (), 1: (q,)})
    return f


def m_ok_or(I, st, args, dest_ty, *r):
    v, e = args[0], args[1]
    d = _deps(I, st, args)
    if v.kind != "enum":
        return TopV(dest_ty, d)
    if v.variant == 1:
        return EnumV("Result", 0, tuple(v.fields[:1]), 2, v.ddeps)
    if v.variant == 0:
        return EnumV("Result", 1, (e,), 2, v.ddeps)
    some = (v.alts or {}).get(1)
    alts = {1: (e,)}
    if some:
        alts[0] = tuple(some[:1])
    return EnumV("Result", None, (), 2, v.ddeps | d, alts)


def m_try_branch(I, st, args, dest_ty, *r):
    """<Result/Option as Try>::branch: Continue(payload) for Ok/Some, Break(residual) for Err/None"""
    v = args[0]
    d = v.deps()
    if v.kind != "enum":
        return TopV(dest_ty, d)
    is_opt = v.name == "Option" or "Option" in dest_ty.split("ControlFlow<", 1)[-1].split(",")[0]
    ok_i, bad_i = (1, 0) if is_opt else (0, 1)
    known = v.variant

    def payload(i):
        if known == i:
            return tuple(v.fields)
        return tuple((v.alts or {}).get(i, ())) if known is None and (v.alts is None or i in v.alts) else None
    okp, badp = payload(ok_i), payload(bad_i)
    alts = {}
    if okp is not None:
        alts[0] = (okp[0] if okp else UNIT,)
    if badp is not None:
        alts[1] = (EnumV(v.name, bad_i, badp, 2, v.ddeps),)
    if len(alts) == 1:
        k = next(iter(alts))
        return EnumV("ControlFlow", k, alts[k], 2, v.ddeps)
    return EnumV("ControlFlow", None, (), 2, v.ddeps | d, alts)


def m_from_residual(I, st, args, dest_ty, *r):
    """FromResidual::from_residual: the Err/None is handed on (the error value's From conversion is the identity here)"""
    v = args[0]
    if v.kind == "enum":
        name = "Option" if (v.name == "Option" or dest_ty.lstrip("std::option::").startswith("Option")) else "Result"
        return EnumV(name, v.variant, v.fields, 2, v.ddeps, v.alts)
    return TopV(dest_ty, v.deps())


def m_option_copied(I, st, args, dest_ty, *r):
    v = args[0]
    if v.kind != "enum":
        return TopV(dest_ty, v.deps())

    def de(x):
        return _deref(I, st, x) if x.kind == "ref" else x
    if v.variant is not None:
        return EnumV("Option", v.variant, tuple(de(x) for x in v.fields), 2, v.ddeps)
    return EnumV("Option", None, (), 2, v.ddeps, {k: tuple(de(x) for x in fs) for k, fs in (v.alts or {}).items()})


def m_str_parse(I, st, args, dest_ty, *r):
    """str::parse::<T>() for integer T: from_str_radix(.., 10)"""
    return m_from_str_radix(I, st, [args[0], IntV.const("u32", 10)], dest_ty, *r)


def m_panic(I, st, args, dest_ty, fn, b, line, fref):
    I.event("assert", fn, b, line, akind="panic-call:" + fref.get("def", "?"), status="reached", witness=None, vals=[], exp=False)
    st.dead = True
    return None


def array_range_status(I, st, n, rng):
    """`array[range]` on an array of known length n: (status, witness).  The sub-slice exists iff start <= end <= n
    (inclusive forms: end < n).  proved needs both facts for every value; definite needs an end that is attainable
    (exact interval, no later refinement of related values) above the length."""
    if rng is None or rng.kind != "agg":
        return "possible", None
    kind = rng.name.split("<")[0].split("::")[-1]
    f = [x for x in rng.fields]
    lo = hi = None
    incl = kind in ("RangeInclusive", "RangeToInclusive")
    if kind in ("Range", "RangeInclusive") and len(f) >= 2:
        lo, hi = f[0], f[1]
    elif kind in ("RangeTo", "RangeToInclusive") and len(f) == 1:
        hi = f[0]
    elif kind == "RangeFrom" and len(f) == 1:
        lo = f[0]
    elif kind == "RangeFull":
        return "proved", None
    else:
        return "possible", None
    ints = [x for x in (lo, hi) if x is not None]
    if any(x.kind != "int" for x in ints):
        return "possible", None
    limit = n - 1 if incl else n
    top = hi if hi is not None else lo
    if top.lo > limit:
        return "definite", f"the range always ends at {top.lo} or beyond, the array has {n} elements"
    if top.exact and I.lineage_clean(st, top) and top.hi > limit:
        return "definite", f"range end up to {top.hi} (attainable), the array has {n} elements"
    if top.hi <= limit:
        if lo is None or hi is None or lo.hi <= hi.lo + (1 if incl else 0):
            return "proved", None
        if lo.aff is not None and hi.aff is not None:
            dlt = hi.aff.sub(lo.aff) if hasattr(hi.aff, "sub") else None
            if dlt is not None and dlt.is_const() and dlt.c + (1 if incl else 0) >= 0:
                return "proved", None
    return "possible", None


def m_index_opaque(I, st, args, dest_ty, fn, b, line, fref):
    """Vec/str/slice/HashMap Index: may panic; result unknown.  A range index into an array of known length is decided."""
    d = _deps(I, st, args)
    status, witness = "possible", None
    m = re.match(r"^<\[[\w:]+; (\d+)\] as std::ops::Index(?:Mut)?<std::ops::Range\w*(?:<usize>)?>>::index", fref.get("inst") or "")
    if m and len(args) > 1:
        status, witness = array_range_status(I, st, int(m.group(1)), args[1])
    I.event("assert", fn, b, line, akind="index:" + fref.get("def", "?"), status=status, witness=witness, vals=list(args), exp=False)
    if M.int_type(dest_ty):
        return IntV.top(dest_ty, d)
    inner = dest_ty[1:] if dest_ty.startswith("&") else dest_ty
    if M.int_type(inner):
        return IntV.top(inner, d, exact=False)
    return TopV(dest_ty, d)


def regex_ascii_only(term):
    """True if every string of the terminal's language is pure ASCII (every byte index is a char boundary)"""
    m = re.match(r'^r#"(.*)"#$', term)
    if not m:
        return term.startswith('"') and all(ord(c) < 128 for c in term)
    rx = m.group(1)
    rx2 = rx.replace("[[:ascii:]]", "").replace("[[:print:]]", "").replace("[[:alnum:]]", "").replace("[[:alpha:]]", "").replace("[[:digit:]]", "")
    if re.search(r"(?<!\\)\.|\[\^|\\[WSDPp]|\\x\{|\\u", rx2):
        return False  # any-char, negated class, negated perl class, unicode class
    return all(ord(c) < 128 for c in rx2)


def m_index_str(I, st, args, dest_ty, fn, b, line, fref):
    """str[Range*]: proved when the receiver is a token of an ASCII-only terminal and the bounds are within its
    minimum length / of the form len-k; otherwise a potential abort site (bounds or char boundary)"""
    d = _deps(I, st, args)
    recv = _deref(I, st, args[0])
    rng = args[1] if len(args) > 1 else None
    status = "possible"
    if recv.kind == "top" and recv.tag and recv.tag[0] == "tok" and rng is not None and regex_ascii_only(recv.tag[2]):
        w = regex_width(recv.tag[2])
        lenname = "len(" + recv.tag[1] + ")"
        fields = list(rng.fields) if rng.kind == "agg" else []
        kind = rng.name if rng.kind == "agg" else ""
        lo = hi = None
        if kind.endswith("RangeFrom") and len(fields) == 1:
            lo = fields[0]
        elif kind.endswith("RangeTo") and len(fields) == 1:
            hi = fields[0]
        elif kind.endswith("Range") and len(fields) == 2:
            lo, hi = fields

        def below_len(x):
            """x <= len(token) for every token"""
            if x.kind != "int":
                return False
            if w is not None and x.hi <= w[0]:
                return True
            if x.aff is not None:
                t = dict(x.aff.terms)
                if set(t) == {lenname} and t[lenname] == 1 and x.aff.c <= 0:
                    return True
            return False

        def le(x, y):
            """x <= y for every token"""
            if x.kind != "int" or y.kind != "int":
                return False
            if x.hi <= y.lo:
                return True
            return False
        if w is not None:
            ok_ = True
            if lo is not None and not below_len(lo):
                ok_ = False
            if hi is not None and not below_len(hi):
                ok_ = False
            if lo is not None and hi is not None and not le(lo, hi):
                ok_ = False
            if ok_:
                status = "proved"
    I.event("assert", fn, b, line, akind="index:" + fref.get("def", "?"), status=status, witness=None, vals=list(args), exp=False)
    # a slice of a token is a string derived from it (no terminal of its own)
    return TopV(dest_ty, d)


def m_range_next(inclusive):
    def f(I, st, args, dest_ty, *r):
        # args[0] = &mut Range{start,end}; yields a value within [start, end) / [start, end]
        rg = _deref(I, st, args[0])
        d = rg.deps()
        inner = _option_inner(dest_ty)
        pv = TopV(inner, d)
        ints = []
        if rg.kind == "agg":
            ints = [x for x in rg.fields if x.kind == "int"]
        elif rg.kind == "top" and rg.tag and rg.tag[0] == "range":
            ints = [x for x in rg.tag[1] if x.kind == "int"]
        if len(ints) >= 2 and M.int_type(inner):
            lo, hi = ints[0], ints[1]
            top = hi.hi if inclusive else hi.hi - 1
            ex = lo.is_const() and hi.exact
            pv = IntV.top(inner, d | lo.deps() | hi.deps(), lo.lo, max(top, lo.lo), exact=ex)
            if ex:
                pv = IntV(pv.ty, pv.bits, pv.lo, pv.hi, None, True, hi.lineage, full=hi.full)
        elif M.int_type(inner):
            pv = IntV.top(inner, d)
        return EnumV("Option", None, (), 2, ITER, {0: (), 1: (pv,)})
    return f


def iter_elem(I, st, it):
    """an abstract element of an iterator value built from ranges and closure adaptors; None if not understood.
    Running a `map` adaptor's closure records its events (memory reads etc.) like any call."""
    it = _deref(I, st, it)
    if it.kind == "agg" and it.name == "iter:map":
        inner = iter_elem(I, st, it.fields[0])
        if inner is None:
            return None
        return I.apply_callable(st, it.fields[1], [inner])
    ints = []
    incl = False
    if it.kind == "agg" and str(it.name).split("<")[0].endswith(("Range", "RangeInclusive")):
        ints = [x for x in it.fields if x.kind == "int"]
        incl = str(it.name).split("<")[0].endswith("RangeInclusive")
    elif it.kind == "top" and it.tag and it.tag[0] == "range":
        ints = [x for x in it.tag[1] if x.kind == "int"]
        incl = True
    if len(ints) >= 2:
        lo, hi = ints[0], ints[1]
        top = hi.hi if incl else hi.hi - 1
        d = lo.deps() | hi.deps()
        ex = lo.is_const() and hi.exact
        pv = IntV.top(lo.ty, d, lo.lo, max(top, lo.lo), exact=ex)
        if ex:
            pv = IntV(pv.ty, pv.bits, pv.lo, pv.hi, None, True, hi.lineage, full=hi.full)
        return pv
    return None


def m_iter_map(I, st, args, dest_ty, *r):
    return AggV("iter:map", [args[0], args[1]])


def m_for_each(I, st, args, dest_ty, fn, b, line, fref):
    """Iterator::for_each(f): f runs zero or more times: least fixpoint of (state join state-after-one-run)"""
    it, clos = args[0], args[1]
    for rnd in range(5):
        before = st.copy()
        elem = iter_elem(I, st, it)
        if elem is None:
            raise Unsupported("for_each over an iterator that is not a range/adaptor chain")
        r = I.apply_callable(st, clos, [elem])
        if r is None and not st.dead:
            raise Unsupported("for_each: closure body not available")
        if st.dead:
            # the closure diverges whenever it runs: only the zero-iteration outcome continues
            st.frames, st.pc, st.refined, st.corr, st.afacts, st.rel, st.dead = before.frames, before.pc, before.refined, before.corr, before.afacts, before.rel, False
            return UNIT
        j = I.join_states(before, st, len(st.frames) - 1, widen=rnd >= 2)
        stable = I.states_equal(j, before)
        st.frames, st.pc, st.refined, st.corr, st.afacts, st.rel = j.frames, j.pc, j.refined, j.corr, j.afacts, j.rel
        if stable:
            return UNIT
    raise Unsupported("for_each: no fixpoint")


def m_range_incl_new(I, st, args, dest_ty, *r):
    return TopV(dest_ty, args[0].deps() | args[1].deps(), tag=("range", (args[0], args[1])))


def m_bytes_next(I, st, args, dest_ty, *r):
    d = _deps(I, st, args)
    return EnumV("Option", None, (), 2, ITER, {0: (), 1: (IntV.top("u8", d, exact=True),)})


def m_enumerate_next(I, st, args, dest_ty, *r):
    """Enumerate::next: (index, item).  `enumerate` itself is modelled as the identity, so the receiver is the inner
    iterator: a range gives its element interval; the bytes of a text give an arbitrary byte (every value occurs in
    some text: exact); anything else gives an unknown item that is NOT claimed attainable."""
    d = _deps(I, st, args)
    inner = _option_inner(dest_ty)
    # (usize, T)
    t2 = inner.strip("()").split(",", 1)[1].strip() if "," in inner else "?"
    src = _deref(I, st, args[0])
    item = None
    if src.kind in ("agg", "top"):
        try:
            item = iter_elem(I, st, args[0]) if not (src.kind == "agg" and src.name == "iter:map") else None
        except Unsupported:
            item = None
    if item is None:
        from_text = src.kind == "top" and src.tag and src.tag[0] in ("tok", "str", "fresh")
        item = IntV.top(t2, d, exact=bool(from_text and t2 == "u8")) if M.int_type(t2) else TopV(t2, d)
    pv = AggV("tuple", [IntV.top("usize", d, 0, ISIZE_MAX, exact=False), item])
    return EnumV("Option", None, (), 2, ITER, {0: (), 1: (pv,)})


def m_iter_next_top(I, st, args, dest_ty, *r):
    d = _deps(I, st, args)
    inner = _option_inner(dest_ty)
    # iterating a small array whose elements are known (into_iter/iter are modelled as the identity): an element is
    # one of them -- their join, in no particular order
    src = _deref(I, st, args[0])
    if src.kind == "agg" and src.name == "array" and src.fields:
        from absint import vjoin
        j = src.fields[0]
        for x in src.fields[1:]:
            j = vjoin(j, x, ITER)
        return EnumV("Option", None, (), 2, ITER, {0: (), 1: (j,)})
    pv = IntV.top(inner, d) if M.int_type(inner) else TopV(inner, d)
    return EnumV("Option", None, (), 2, ITER, {0: (), 1: (pv,)})


def m_vec_pop(I, st, args, dest_ty, fn=None, b=None, *r):
    d = _deps(I, st, args)
    inner = _option_inner(dest_ty)
    n_site = site_number(I, fn, b)
    pv = I.new_atom(inner, f"popped[{n_site}]") if M.int_type(inner) else TopV(inner, d)
    # the vector changes
    return EnumV("Option", None, (), 2, d, {0: (), 1: (pv,)})


def m_mutate_first(I, st, args, dest_ty, *r):
    """push/insert/clear/remove: receiver becomes Top depending on all args"""
    d = _deps(I, st, args)
    a = args[0]
    if a.kind == "ref":
        try:
            cur = I.read_loc(st, a.loc)
            name = (r[3].get("def") or "") if len(r) > 3 and isinstance(r[3], dict) else ""
            grows = name.endswith("::push") or name.endswith("::insert") or name.endswith("::push_str")
            # one push onto a vector of arbitrary length: every length >= 1 is attainable (exact); after that, or for
            # containers whose length an insert need not change, only the lower bound is known
            free_before = cur.kind == "top" and cur.tag is not None and cur.tag[0] in ("fresh", "input", "vec") and name.endswith("::push")
            I.write_loc(st, a.loc, TopV(getattr(cur, "ty", "?"), d | cur.deps(), tag=("pushed", free_before) if grows else None))
        except Unsupported:
            pass
    if M.int_type(dest_ty):
        return IntV.top(dest_ty, d)
    if dest_ty == "()":
        return UNIT
    if dest_ty.startswith(("std::option::Option", "Option", "core::option::Option")):
        return EnumV("Option", None, (), 2, d, {0: (), 1: (TopV("?", d),)})
    return TopV(dest_ty, d)


def m_bool_top(I, st, args, dest_ty, *r):
    return IntV.top("bool", _deps(I, st, args))


def m_exit(I, st, args, dest_ty, fn, b, line, fref):
    I.event("exit", fn, b, line, args=args)
    st.dead = True
    return None


def m_box_new(I, st, args, dest_ty, *r):
    v = args[0]
    if v.kind == "top" and v.tag and v.tag[0] == "repeat" and "u8" in dest_ty:
        init = v.tag[1]
        if init.kind == "int" and init.is_const() and init.lo == 0:
            return ZeroMem()
    return v


class ZeroMem(MemV):
    """freshly allocated zeroed memory (VM::new)"""

    def __init__(self):
        super().__init__({}, None)


MODELS = [(re.compile(p), f) for p, f in [
    (r"num::<impl [iu](8|16|32|64|128|size)>::to_le_bytes$", m_to_bytes(True)),
    (r"num::<impl [iu](8|16|32|64|128|size)>::to_be_bytes$", m_to_bytes(False)),
    (r"num::<impl [iu](8|16|32|64|128|size)>::from_le_bytes$", m_from_bytes(True)),
    (r"num::<impl [iu](8|16|32|64|128|size)>::from_be_bytes$", m_from_bytes(False)),
    (r"num::<impl [iu]\w+>::overflowing_add$", m_overflowing("Add")),
    (r"num::<impl [iu]\w+>::overflowing_sub$", m_overflowing("Sub")),
    (r"num::<impl [iu]\w+>::overflowing_mul$", m_overflowing("Mul")),
    (r"num::<impl [iu]\w+>::checked_add$", m_checked("Add")),
    (r"num::<impl [iu]\w+>::checked_sub$", m_checked("Sub")),
    (r"num::<impl [iu]\w+>::checked_mul$", m_checked("Mul")),
    (r"num::<impl [iu]\w+>::saturating_sub$", m_saturating("Sub")),
    (r"num::<impl [iu]\w+>::saturating_add$", m_saturating("Add")),
    (r"num::<impl u\w+>::rotate_left$", m_rotate(True)),
    (r"num::<impl u\w+>::rotate_right$", m_rotate(False)),
    (r"num::<impl i\w+>::abs$|num::<impl i\w+>::unsigned_abs$|num::<impl i\w+>::wrapping_abs$", m_abs),
    (r"cmp::Ord::min$|cmp::min$", m_minmax(True)),
    (r"cmp::Ord::max$|cmp::max$", m_minmax(False)),
    (r"num::<impl [iu]\w+>::count_ones$", m_bitcount("ones")),
    (r"num::<impl [iu]\w+>::trailing_zeros$", m_bitcount("tz")),
    (r"num::<impl [iu]\w+>::leading_zeros$", m_bitcount("lz")),
    (r"::wrapping_mul$", m_wrapping("Mul")),
    (r"convert::TryFrom<.*>>::try_from$|convert::TryInto<.*>>::try_into$|num::<impl (std::|core::)?convert::TryFrom<[iu]\w+> for [iu]\w+>::try_from$", m_try_from),
    (r"::wrapping_add$", m_wrapping("Add")),
    (r"::wrapping_sub$", m_wrapping("Sub")),
    (r"convert::Into::into$|convert::From::from$", m_into),
    (r"^std::ops::Add::add$|as std::ops::Add<.*>>::add$", m_add_trait),
    (r"as std::ops::Sub<.*>>::sub$|^std::ops::Sub::sub$", m_sub_trait),
    (r"clone::Clone>::clone$|Clone for usize>::clone$|clone::Clone::clone$", m_clone),
    (r"as std::default::Default>::default$", m_default),
    (r"from_str_radix$", m_from_str_radix),
    (r"Option::<T>::unwrap$|Result::<T, E>::unwrap$|::expect$", m_unwrap),
    (r"Option::<T>::unwrap_or$", m_unwrap_or),
    (r"num::<impl [iu]\w+>::checked_div$", m_checked_div("Div")),
    (r"num::<impl [iu]\w+>::checked_rem$", m_checked_div("Rem")),
    (r"Option::<T>::ok_or(::<|$)", m_ok_or),
    (r"Option::<&T>::copied$|Option::<&T>::cloned$|Option::<&mut T>::copied$", m_option_copied),
    (r"ops::Try>::branch$", m_try_branch),
    (r"ops::FromResidual<.*>>::from_residual$|ops::FromResidual>::from_residual$", m_from_residual),
    (r"Result::<T, E>::map(::<|$)", m_result_comb("map")),
    (r"Result::<T, E>::map_err(::<|$)", m_result_comb("map_err")),
    (r"Result::<T, E>::and_then(::<|$)", m_result_comb("and_then")),
    (r"Result::<T, E>::or_else(::<|$)", m_result_comb("or_else")),
    (r"Result::<T, E>::unwrap_or_else(::<|$)", m_result_comb("unwrap_or_else")),
    (r"<impl str>::parse(::<|$)", m_str_parse),
    (r"Option::<T>::and_then(::<|$)", m_option_and_then),
    (r"Option::<T>::map::<", m_option_map),
    (r"Option::<T>::map$", m_option_map),
    (r"panicking::|::panic_|begin_panic|unwrap_failed|expect_failed", m_panic),
    (r"process::exit$", m_exit),
    (r"RangeInclusive<A>>::next$", m_range_next(True)),
    (r"Range<A>>::next$", m_range_next(False)),
    (r"RangeInclusive::<Idx>::new$", m_range_incl_new),
    (r"Bytes<'_> as std::iter::Iterator>::next$", m_bytes_next),
    (r"Enumerate<I> as std::iter::Iterator>::next$", m_enumerate_next),
    (r"as std::iter::Iterator>::next$", m_iter_next_top),
    (r"IntoIterator>::into_iter$|IntoIterator for [^:]*>::into_iter$", m_identity),
    (r"Iterator::map(::<|$)|Iterator>::map(::<|$)", m_iter_map),
    (r"Iterator::for_each(::<|$)|Iterator>::for_each(::<|$)", m_for_each),
    (r"Iterator::enumerate$|Iterator::copied$", m_identity),
    (r"ops::Index<I> for str>::index$|<std::string::String as std::ops::Index<I>>::index$", m_index_str),
    (r"ops::Index<I>>::index$|ops::Index<I> for str>::index$|ops::IndexMut", m_index_opaque),
    (r"<impl str>::len$|Vec::<T, A>::len$|String::len$|<impl \[T\]>::len$", m_len),
    (r"Vec::<T, A>::pop$", m_vec_pop),
    (r"Vec::<T, A>::push$|HashMap::<K, V, S, A>::insert$|HashSet::<T, S, A>::insert$|::clear$|HashSet::<T, S, A>::remove$|HashMap::<K, V, S, A>::remove$", m_mutate_first),
    (r"HashMap::<K, V, S, A>::get$|<impl \[T\]>::get$", m_option()),
    (r"contains_key$|HashSet::<T, S, A>::contains$|PartialEq<.*>>::eq$|is_empty$|Path::exists$|is_present$", m_bool_top),
    (r"Stdin::read_line$|fs::read_to_string$|Write>::flush$|Regex::new$", m_result_top),
    (r"Box::<T>::new$", m_box_new),
    (r"ops::Deref>::deref$|String::as_bytes$|<impl str>::bytes$|<impl str>::chars$|<impl \[T\]>::iter$|<impl str>::trim$", m_identity),
    (r".", m_unknown),
]]


# ----------------------------------------------------------------------------------------------
# abstract machine

REGS16 = ["ax", "bx", "cx", "dx", "sp", "bp", "si", "di", "ip", "cs", "ds", "ss", "es"]


def build_vm(I, P, assume_regs=None, st=None):
    """abstract VM: every register is its own atom, memory is empty (= initial contents)."""
    arch = P.adts["arch::i8086"]
    vmadt = P.adts["vm::VM"]
    fields = []
    for name, ty in arch["variants"][0]["fields"]:
        if assume_regs and name in assume_regs:
            fields.append(assume_regs[name])
        else:
            fields.append(I.new_atom(ty, name))
    archv = AggV("arch::i8086", fields)
    vmf = []
    for name, ty in vmadt["variants"][0]["fields"]:
        if name == "arch":
            vmf.append(archv)
        elif name == "mem":
            vmf.append(RefV((0, "mem", ())))
        else:
            vmf.append(TopV(ty))
    if st is not None:
        st.frames[0]["mem"] = MemV()
    return AggV("vm::VM", vmf)


def arch_index(P):
    arch = P.adts["arch::i8086"]
    return {name: i for i, (name, ty) in enumerate(arch["variants"][0]["fields"])}


def vm_field_index(P):
    vmadt = P.adts["vm::VM"]
    return {name: i for i, (name, ty) in enumerate(vmadt["variants"][0]["fields"])}


class Run:
    """result of analysing one unit"""

    def __init__(self, I, st, ret, vm0=None):
        self.I = I
        self.st = st
        self.ret = ret
        self.events = I.events

    def vm(self):
        return self.st.frames[0]["vm"] if self.st is not None and self.st.frames else None


def new_interp(P, **kw):
    return Interp(P, **kw)


def run_unit(P, fn, make_args, assume=None, split=frozenset(), max_depth=10):
    """Run fn on an abstract machine.  make_args(I, st, vmref) -> list of argument values.
    Frame 0 of the state is the 'globals' frame holding the machine under key 'vm'."""
    I = Interp(P, assume=assume, split=split, max_depth=max_depth)
    st = State()
    st.frames.append({})
    st.pc.append({})
    st.frames[0]["vm"] = build_vm(I, P, st=st)
    vmref = RefV((0, "vm", ()))
    args = make_args(I, st, vmref)
    ret = I.run_fn(fn, args, st)
    return Run(I, st, ret)


def run_split(P, fn, make_args, split, max_depth=10, limit=4096):
    """Trace partitioning over the designated atom bits: returns list of (assumption dict, Run)."""
    out = []
    todo = [dict()]
    while todo:
        if len(out) + len(todo) > limit:
            raise Unsupported("too many partitions")
        asm = todo.pop()
        try:
            r = run_unit(P, fn, make_args, assume=asm, split=frozenset(x for x in split if x not in asm), max_depth=max_depth)
            out.append((asm, r))
        except Exception as e:
            from absint import NeedSplit
            if isinstance(e, NeedSplit):
                for v in (0, 1):
                    a2 = dict(asm)
                    a2[(e.atom, e.bit)] = v
                    todo.append(a2)
            else:
                raise
    return out
