"""Self-test of the checkers (thorough tier): every variant is a small patch applied to a scratch copy of the
*current* working tree of /repo; the property's own check is run on the copy (facts are extracted from the copy,
nothing of it is executed).

  must-fire          the patch re-introduces a genuine defect (the reverse of one of the repository's fix: commits, a
                     hand-written one-edit break, or a seeded change kept under /verif/seeded): the check must print a
                     VIOLATION whose key contains the expected text;
  must-stay-silent   the patch is a behaviour-preserving refactor: the check must exit 0 without VIOLATION.

A variant whose patch no longer applies to the tree (because the tree was edited) is skipped, never counted as a
failure; the outcome of the self-test is written into the evidence and never turns into a VIOLATION of the property."""
import concurrent.futures
import json
import os
import shutil
import subprocess
import sys
import tempfile

VERIF = os.path.dirname(os.path.dirname(os.path.abspath(__file__)))
REPO = os.environ.get("VERIF_REPO", "/repo")
SELF = os.path.join(VERIF, "selftest")


def fixed_keys():
    """commit -> {property: [old finding keys]} from the `fixed` lines of known_findings.tsv"""
    out = {}
    p = os.path.join(VERIF, "known_findings.tsv")
    for line in open(p):
        parts = line.rstrip("\n").split("\t")
        if parts[0] != "fixed" or len(parts) < 4:
            continue
        prop, commit, what = parts[1], parts[2], parts[3]
        keys = []
        if "[was: " in what:
            keys = [k.strip() for k in what.split("[was: ", 1)[1].rstrip("]").split("; ")]
        out.setdefault(commit, {}).setdefault(prop, []).extend(keys)
    return out


def variants():
    vs = []
    fk = fixed_keys()
    pdir = os.path.join(SELF, "patches")
    for f in sorted(os.listdir(pdir)) if os.path.isdir(pdir) else []:
        if f.startswith("revert_") and f.endswith(".diff"):
            c = f[len("revert_"):-len(".diff")]
            for prop, keys in fk.get(c, {}).items():
                vs.append({"name": f"revert-{c}", "kind": "must-fire", "patch": os.path.join(pdir, f), "prop": prop,
                           "expect": [k.split("|", 1)[1] if "|" in k else k for k in keys]})
    vj = os.path.join(SELF, "variants.json")
    if os.path.exists(vj):
        for v in json.load(open(vj)):
            for prop in v["props"]:
                vs.append({"name": v["name"], "kind": v["kind"], "patch": os.path.join(pdir, v["patch"]), "prop": prop,
                           "expect": v.get("expect", {}).get(prop, v.get("expect_any", [])) if isinstance(v.get("expect"), dict) else v.get("expect", [])})
    # behaviour-preserving refactorings written by independent sub-agents (DESIGN §13): each must stay silent for the
    # property it was written for and for every property whose check it once made fail
    for sub, amap, tag in (("refactors", "refactor_alarms.json", "refactor"), ("refactors2", "refactor2_alarms.json", "refactor2"),
                           ("refactors3", "refactor3_alarms.json", "refactor3"), ("refactors4", "refactor4_alarms.json", "refactor4")):
        rdir = os.path.join(SELF, sub)
        alarms = {}
        ap = os.path.join(SELF, amap)
        if os.path.exists(ap):
            alarms = json.load(open(ap))
        for pd in sorted(os.listdir(rdir)) if os.path.isdir(rdir) else []:
            for f in sorted(os.listdir(os.path.join(rdir, pd))):
                if f.endswith(".diff"):
                    name = f"{pd}_{f[:-5]}"
                    for prop in sorted({pd} | set(alarms.get(name, []))):
                        if prop in (alarms.get("_skip") or {}).get(name, []):
                            continue   # documented in the alarms file (`_skip_why`)
                        vs.append({"name": f"{tag}-{name}", "kind": "must-stay-silent", "patch": os.path.join(rdir, pd, f), "prop": prop, "expect": []})
    sdir = os.path.join(VERIF, "seeded")
    for d in sorted(os.listdir(sdir)) if os.path.isdir(sdir) else []:
        mp = os.path.join(sdir, d, "meta.json")
        pp = os.path.join(sdir, d, "patch.diff")
        if os.path.exists(mp) and os.path.exists(pp):
            m = json.load(open(mp))
            for prop, keys in (m.get("caught_by") or {}).items():
                vs.append({"name": f"seeded-{d}", "kind": "must-fire", "patch": pp, "prop": prop, "expect": keys})
    return vs


def copy_tree(dst):
    files = subprocess.run(["git", "-C", REPO, "ls-files"], stdout=subprocess.PIPE, text=True).stdout.split("\n")
    for rel in files:
        if not rel:
            continue
        src = os.path.join(REPO, rel)
        if not os.path.isfile(src):
            continue
        d = os.path.join(dst, rel)
        os.makedirs(os.path.dirname(d), exist_ok=True)
        shutil.copy2(src, d)


def run_variant(v):
    scratch = tempfile.mkdtemp(prefix="verif8086st.")
    try:
        tree = os.path.join(scratch, "tree")
        os.makedirs(tree)
        copy_tree(tree)
        pr = subprocess.run(["patch", "-p1", "-s", "-f", "--no-backup-if-mismatch", "-i", v["patch"]], cwd=tree,
                            stdout=subprocess.PIPE, stderr=subprocess.STDOUT, text=True)
        if pr.returncode != 0:
            return dict(v, outcome="skipped", detail="patch does not apply to the current tree")
        env = dict(os.environ)
        env.update({"VERIF_REPO": tree, "VERIF_CACHE_DIR": os.path.join(scratch, "cache"), "VERIF_EVIDENCE_DIR": os.path.join(scratch, "ev"),
                    "VERIF_TIER": "quick", "VERIF_NO_SELFTEST": "1"})
        r = subprocess.run([sys.executable, os.path.join(VERIF, "check"), v["prop"], "--tier", "quick"], cwd=VERIF, env=env,
                           stdout=subprocess.PIPE, stderr=subprocess.STDOUT, text=True)
        keys = []
        rd = os.path.join(scratch, "ev", "replay")
        if os.path.isdir(rd):
            for f in sorted(os.listdir(rd)):
                try:
                    keys.append(json.load(open(os.path.join(rd, f)))["key"])
                except Exception:  # noqa
                    pass
        fired = "VIOLATION property=" in r.stdout
        if r.returncode == 2 and not fired:
            return dict(v, outcome="incomplete", detail=r.stdout[-300:], keys=keys)
        if v["kind"] == "must-fire":
            hit = [k for k in keys if any(e in k for e in v["expect"])] if v["expect"] else keys
            if fired and hit:
                return dict(v, outcome="fired", keys=hit[:3])
            if fired:
                return dict(v, outcome="fired-other-key", keys=keys[:3])
            return dict(v, outcome="MISSED", keys=keys)
        if fired or r.returncode != 0:
            return dict(v, outcome="FALSE-ALARM", keys=keys[:3], detail=r.stdout[-300:])
        return dict(v, outcome="silent")
    finally:
        shutil.rmtree(scratch, ignore_errors=True)


def run_for(pid, jobs=4):
    vs = [v for v in variants() if v["prop"] == pid]
    res = []
    if not vs:
        return res
    with concurrent.futures.ThreadPoolExecutor(max_workers=jobs) as ex:
        for r in ex.map(run_variant, vs):
            res.append({k: r[k] for k in ("name", "kind", "prop", "outcome") if k in r} | {"keys": r.get("keys", []), "detail": r.get("detail", "")})
    return res


if __name__ == "__main__":
    pids = sys.argv[1:] or sorted({v["prop"] for v in variants()})
    bad = 0
    for pid in pids:
        for r in run_for(pid):
            print(pid, r["kind"], r["name"], r["outcome"], r["keys"][:2], r["detail"][:120].replace("\n", " "))
            if r["outcome"] in ("MISSED", "FALSE-ALARM"):
                bad += 1
    sys.exit(1 if bad else 0)
