"""Abstract domains of engine V.

B  per-bit provenance:   0 | 1 | ('c',atom,i) | ('n',atom,i) | ('d', frozenset{(atom,i)})
I  intervals with an 'exact' flag (both end points attained for independent inputs)
F  affine forms with modulus wrappers: exact mathematical value over the input atoms
"""
import itertools

_uid = itertools.count(1)

# ----------------------------------------------------------------------------------------------
# bits


_interned = {}


def bdeps(b):
    if b == 0 or b == 1:
        return frozenset()
    if b[0] == "d":
        return b[1]
    return frozenset(((b[1], b[2]),))


def bdep(*bs, extra=frozenset()):
    s = set(extra)
    for b in bs:
        s |= bdeps(b)
    # the third component identifies the value instance: two 'd' bits are the same value iff same uid
    fs = frozenset(s)
    # the 16/64 bits of one value usually carry the same dependence set: share one object
    fs = _interned.setdefault(fs, fs)
    if len(_interned) > 200000:
        _interned.clear()
    return ("d", fs, next(_uid))


def bxform(b):
    """the bit as a linear form over GF(2): (set of input bits xor-ed together, constant) -- for constants, copies,
    complements and for unknown bits that were built by xor-ing such bits (5th component); None otherwise"""
    if b == 0 or b == 1:
        return (frozenset(), b)
    if b[0] == "c":
        return (frozenset(((b[1], b[2]),)), 0)
    if b[0] == "n":
        return (frozenset(((b[1], b[2]),)), 1)
    return b[4] if len(b) > 4 else None


def bnot(b):
    if b == 0:
        return 1
    if b == 1:
        return 0
    if b[0] == "c":
        return ("n", b[1], b[2])
    if b[0] == "n":
        return ("c", b[1], b[2])
    if len(b) > 4 and b[4] is not None:
        return (b[0], b[1], next(_uid), None, (b[4][0], 1 - b[4][1]))
    return b


def band(a, b):
    if a == 0 or b == 0:
        return 0
    if a == 1:
        return b
    if b == 1:
        return a
    if a == b:
        return a
    if a[0] in "cn" and b[0] in "cn" and a[1:] == b[1:]:
        return 0  # x & !x
    return bdep(a, b)


def bor(a, b):
    if a == 1 or b == 1:
        return 1
    if a == 0:
        return b
    if b == 0:
        return a
    if a == b:
        return a
    if a[0] in "cn" and b[0] in "cn" and a[1:] == b[1:]:
        return 1
    return bdep(a, b)


def bxor(a, b):
    if a == 0:
        return b
    if b == 0:
        return a
    if a == 1:
        return bnot(b)
    if b == 1:
        return bnot(a)
    if a == b:
        return 0
    if a[0] in "cn" and b[0] in "cn" and a[1:] == b[1:]:
        return 1
    r = bdep(a, b)
    xa, xb = bxform(a), bxform(b)
    if xa is not None and xb is not None:
        s_ = xa[0] ^ xb[0]
        c_ = xa[1] ^ xb[1]
        if not s_:
            return c_
        if len(s_) == 1:
            (at, i), = s_
            return ("n" if c_ else "c", at, i)
        return r + (None, (s_, c_))   # unknown as a bit, but exactly this xor of input bits
    return r


def balts(b):
    """the exact alternatives a bit can be on different paths ({b} for an exact bit; the recorded set of a bit produced by
    joins of exact bits; None for a bit that went through arithmetic the bit domain does not follow)"""
    if b == 0 or b == 1 or b[0] in "cn":
        return frozenset((b,))
    return b[3] if len(b) > 3 else None   # (None for xor-forms)


def bjoin(a, b, cond_deps=frozenset()):
    """join at a control-flow merge; cond_deps = deps of the branch conditions that separate the paths.
    A join of exact bits remembers them (4th component): 'on some path the bit is this, on another that' is a fact about
    paths, unlike the dependence set of an arithmetic result, which only over-approximates."""
    if a == b:
        return a  # same value on both paths (0/1/copy/not, or the same unknown instance)
    r = bdep(a, b, extra=cond_deps)
    xa, xb = balts(a), balts(b)
    if xa is not None and xb is not None and len(xa | xb) <= 6:
        return r + (xa | xb,)
    return r


def bits_const(v, w):
    v &= (1 << w) - 1
    return tuple((v >> i) & 1 for i in range(w))


def bits_atom(atom, w):
    return tuple(("c", atom, i) for i in range(w))


def bits_known(bits):
    """(value, mask) of known bits"""
    val = 0
    mask = 0
    for i, b in enumerate(bits):
        if b == 0 or b == 1:
            mask |= 1 << i
            val |= b << i
    return val, mask


def bits_all_deps(bits, extra=frozenset()):
    s = set(extra)
    for b in bits:
        s |= bdeps(b)
    return frozenset(s)


def bits_dep_all(w, deps):
    fs = frozenset(deps)
    return tuple(("d", fs, next(_uid)) for _ in range(w))


def bits_same(a, b):
    """equality modulo the instance ids of unknown bits (for fixpoint detection)"""
    if len(a) != len(b):
        return False
    for x, y in zip(a, b):
        if x == y:
            continue
        if x in (0, 1) or y in (0, 1):
            return False
        if x[0] == "d" and y[0] == "d" and x[1] == y[1] and x[3:] == y[3:]:
            continue
        return False
    return True


def bits_carry_chain(a, b, w, extra=frozenset()):
    """add/sub style: bit i depends on bits <= i of both operands."""
    out = []
    acc = set(extra)
    for i in range(w):
        acc |= bdeps(a[i]) | bdeps(b[i])
        out.append(("d", frozenset(acc), next(_uid)))
    return tuple(out)


# ----------------------------------------------------------------------------------------------
# affine forms with modulus wrappers


class Lin:
    """c0 + sum coef*base ; base = atom name (str) or ('mod', Lin, m) or ('sx', Lin, w).
    Immutable; canonical (terms sorted by repr)."""

    __slots__ = ("c", "terms", "_key")

    def __init__(self, c=0, terms=()):
        self.c = c
        t = {}
        for base, k in terms:
            if k:
                t[base] = t.get(base, 0) + k
        self.terms = tuple(sorted(((b, k) for b, k in t.items() if k), key=lambda x: base_key(x[0])))
        self._key = None

    @staticmethod
    def atom(name):
        return Lin(0, ((name, 1),))

    def key(self):
        if self._key is None:
            parts = [str(self.c)]
            for b, k in self.terms:
                parts.append(f"{k}*{base_key(b)}")
            self._key = "+".join(parts)
        return self._key

    def __eq__(self, o):
        return isinstance(o, Lin) and self.key() == o.key()

    def __hash__(self):
        return hash(self.key())

    def __repr__(self):
        return self.pretty()

    def pretty(self):
        parts = []
        for b, k in self.terms:
            s = base_pretty(b)
            if k == 1:
                parts.append(s)
            elif k == -1:
                parts.append("-" + s)
            else:
                parts.append(f"{k}*{s}")
        if self.c or not parts:
            parts.append(str(self.c))
        return " + ".join(parts).replace("+ -", "- ")

    def is_const(self):
        return not self.terms

    def add(self, o):
        return Lin(self.c + o.c, self.terms + o.terms)

    def sub(self, o):
        return Lin(self.c - o.c, self.terms + tuple((b, -k) for b, k in o.terms))

    def scale(self, k):
        return Lin(self.c * k, tuple((b, c * k) for b, c in self.terms))

    def atoms(self):
        s = set()
        for b, _ in self.terms:
            if isinstance(b, str):
                s.add(b)
            else:
                s |= b[1].atoms()
                if b[0] in ("mul", "div", "rem"):
                    s |= b[2].atoms()
        return s

    def mod(self, m):
        """canonical (self mod m), m a power of two"""
        cur = self
        for _ in range(16):
            c = cur.c
            terms = []
            again = False
            for b, k in cur.terms:
                k2 = k % m
                if k2 == 0:
                    continue
                if not isinstance(b, str) and b[0] == "mod" and b[2] % m == 0:
                    # (x mod m2)*k mod m with m | m2 : inline x
                    inner = b[1].scale(k2)
                    terms.extend(inner.terms)
                    c += inner.c
                    again = True
                    continue
                if not isinstance(b, str) and b[0] == "sx" and (1 << b[2]) % m == 0:
                    # the signed reading differs from the value by a multiple of 2^w
                    inner = b[1].scale(k2)
                    terms.extend(inner.terms)
                    c += inner.c
                    again = True
                    continue
                terms.append((b, k2))
            cur = Lin(c % m, terms)  # merges duplicate bases
            if not again and all(0 < k < m for _, k in cur.terms):
                break
        if cur.is_const():
            return cur
        return Lin(0, ((("mod", cur, m), 1),))

    def sx(self, w):
        """reinterpret the low w bits as a signed number"""
        inner = self.mod(1 << w)
        if inner.is_const():
            v = inner.c
            return Lin(v - (1 << w) if v >= (1 << (w - 1)) else v)
        # unwrap the mod wrapper produced above: sx(mod(x,2^w),w) == sx(x,w)
        if len(inner.terms) == 1 and inner.c == 0:
            b, k = inner.terms[0]
            if k == 1 and not isinstance(b, str) and b[0] == "mod" and b[2] == (1 << w):
                return Lin(0, ((("sx", b[1], w), 1),))
        return Lin(0, ((("sx", inner, w), 1),))

    def interval(self, ranges):
        lo = hi = self.c
        for b, k in self.terms:
            blo, bhi = base_interval(b, ranges)
            if k >= 0:
                lo += k * blo
                hi += k * bhi
            else:
                lo += k * bhi
                hi += k * blo
        return lo, hi

    def simplify(self, ranges):
        """drop modulus / sign wrappers that the atom ranges show to be the identity"""
        out = Lin(self.c)
        for b, k in self.terms:
            if isinstance(b, str):
                out = out.add(Lin(0, ((b, k),)))
                continue
            if b[0] in ("mul", "div", "rem"):
                out = out.add(Lin(0, ((opaque(b[0], b[1].simplify(ranges), b[2].simplify(ranges)), k),)))
                continue
            if b[0] == "shr":
                out = out.add(shr_lin(b[1].simplify(ranges), b[2]).scale(k))
                continue
            if b[0] == "abs":
                inner_ = b[1].simplify(ranges)
                lo_, hi_ = inner_.interval(ranges)
                if lo_ >= 0:
                    out = out.add(inner_.scale(k))
                elif hi_ <= 0:
                    out = out.add(inner_.scale(-k))
                else:
                    out = out.add(Lin(0, ((("abs", inner_, 0), k),)))
                continue
            inner = b[1].simplify(ranges)
            lo, hi = inner.interval(ranges)
            if b[0] == "mod":
                q = lo // b[2]
                if q * b[2] <= lo and hi < (q + 1) * b[2]:
                    out = out.add(inner.add(Lin(-q * b[2])).scale(k))  # no wrap inside the range
                else:
                    out = out.add(inner.mod(b[2]).scale(k))
            else:
                w = b[2]
                if -(1 << (w - 1)) <= lo and hi < (1 << (w - 1)):
                    out = out.add(inner.scale(k))
                else:
                    out = out.add(inner.sx(w).scale(k))
        return out

    def eval(self, env):
        """env: atom -> int"""
        v = self.c
        for b, k in self.terms:
            v += k * base_eval(b, env)
        return v


def base_key(b):
    if isinstance(b, str):
        return b
    if b[0] == "mod":
        return f"mod({b[1].key()},{b[2]})"
    if b[0] in ("mul", "div", "rem"):
        return f"{b[0]}({b[1].key()},{b[2].key()})"
    if b[0] == "shr":
        return f"shr({b[1].key()},{b[2]})"
    if b[0] == "abs":
        return f"abs({b[1].key()})"
    return f"sx({b[1].key()},{b[2]})"


def opaque(kind, x, y):
    """an uninterpreted product / truncating quotient / remainder of two closed forms; products are commutative"""
    if kind == "mul" and x.key() > y.key():
        x, y = y, x
    return (kind, x, y)


def shr_lin(x, k):
    """floor(x / 2^k) as a closed form.  x - (x mod 2^k) shifted is just x shifted (masking the low part first)."""
    if k == 0:
        return x
    if x.is_const():
        return Lin(x.c >> k)
    m = 1 << k
    # pattern: B - (B mod 2^k)
    for b, c in x.terms:
        if c == -1 and not isinstance(b, str) and b[0] == "mod" and b[2] == m:
            rest = x.add(Lin(0, ((b, 1),)))
            if rest.mod(m) == Lin(0, ((b, 1),)):
                return shr_lin(rest, k)
    return Lin(0, ((("shr", x, k), 1),))


def base_pretty(b):
    if isinstance(b, str):
        return b
    if b[0] in ("mul", "div", "rem"):
        return f"({b[1].pretty()}) {({'mul': '*', 'div': '/', 'rem': '%'})[b[0]]} ({b[2].pretty()})"
    if b[0] == "shr":
        return f"(({b[1].pretty()}) >> {b[2]})"
    if b[0] == "abs":
        return f"|{b[1].pretty()}|"
    if b[0] == "mod":
        m = b[2]
        ms = f"2^{m.bit_length()-1}" if m & (m - 1) == 0 else str(m)
        return f"(({b[1].pretty()}) mod {ms})"
    return f"sx{b[2]}({b[1].pretty()})"


def base_interval(b, ranges):
    if isinstance(b, str):
        return ranges.get(b, (0, 0xFFFF))
    if b[0] == "mod":
        lo, hi = b[1].interval(ranges)
        q = lo // b[2]
        if q * b[2] <= lo and hi < (q + 1) * b[2]:
            return lo - q * b[2], hi - q * b[2]
        return 0, b[2] - 1
    if b[0] == "mul":
        (l1, h1), (l2, h2) = b[1].interval(ranges), b[2].interval(ranges)
        c = [l1 * l2, l1 * h2, h1 * l2, h1 * h2]
        return min(c), max(c)
    if b[0] in ("div", "rem"):
        (l1, h1), (l2, h2) = b[1].interval(ranges), b[2].interval(ranges)
        m = max(abs(l1), abs(h1))
        if b[0] == "div":
            if l1 >= 0 and l2 > 0:
                return l1 // h2, h1 // l2
            return -m, m
        my = max(abs(l2), abs(h2))
        r = min(m, my - 1) if my > 0 else m
        if l1 >= 0:
            return 0, r
        return -r, r
    if b[0] == "shr":
        lo, hi = b[1].interval(ranges)
        return lo >> b[2], hi >> b[2]
    if b[0] == "abs":
        lo, hi = b[1].interval(ranges)
        if lo >= 0:
            return lo, hi
        if hi <= 0:
            return -hi, -lo
        return 0, max(-lo, hi)
    w = b[2]
    lo, hi = b[1].interval(ranges)
    if -(1 << (w - 1)) <= lo and hi < (1 << (w - 1)):
        return lo, hi
    return -(1 << (w - 1)), (1 << (w - 1)) - 1


def base_eval(b, env):
    if isinstance(b, str):
        return env[b]
    if b[0] == "mod":
        return b[1].eval(env) % b[2]
    if b[0] == "mul":
        return b[1].eval(env) * b[2].eval(env)
    if b[0] in ("div", "rem"):
        x, y = b[1].eval(env), b[2].eval(env)
        if y == 0:
            return 0
        q = abs(x) // abs(y) * (1 if (x < 0) == (y < 0) else -1)
        return q if b[0] == "div" else x - q * y
    if b[0] == "shr":
        return b[1].eval(env) >> b[2]
    if b[0] == "abs":
        return abs(b[1].eval(env))
    v = b[1].eval(env) % (1 << b[2])
    return v - (1 << b[2]) if v >= (1 << (b[2] - 1)) else v


def lin_equal_witness(a, b, atom_ranges, limit=4096):
    """Compare two affine forms.  Returns ('equal', None) if canonical forms coincide,
    ('differ', env) with a valuation of the atoms on which they evaluate differently,
    or ('unknown', None).  The valuations are boundary values of each atom's range."""
    if a == b:
        return ("equal", None)
    a, b = a.simplify(atom_ranges), b.simplify(atom_ranges)
    if a == b:
        return ("equal", None)
    # outermost modulus: compare the arguments modulo m
    if len(a.terms) == 1 and len(b.terms) == 1 and a.c == 0 and b.c == 0 and a.terms[0][1] == 1 and b.terms[0][1] == 1:
        ba, bb = a.terms[0][0], b.terms[0][0]
        if not isinstance(ba, str) and not isinstance(bb, str) and ba[0] == "mod" and bb[0] == "mod" and ba[2] == bb[2]:
            if ba[1].mod(ba[2]) == bb[1].mod(bb[2]):
                return ("equal", None)
    atoms = sorted(a.atoms() | b.atoms())
    cand = []
    complete = True
    for at in atoms:
        lo, hi = atom_ranges.get(at, (0, 0xFFFF))
        if hi - lo > 6:
            complete = False
        pts = {lo, hi, lo + 1, hi - 1, (lo + hi) // 2, (lo + hi) // 2 + 1} | set(range(lo, min(hi, lo + 6) + 1))
        for k in (4, 7, 8, 12, 15, 16, 19, 20):
            for d in (-1, 0, 1):
                pts.add((1 << k) + d)
        cand.append(sorted(p for p in pts if lo <= p <= hi))
    n = 1
    for c in cand:
        n *= len(c)
    if n > limit:
        complete = False
        # thin out deterministically
        while n > limit:
            i = max(range(len(cand)), key=lambda j: len(cand[j]))
            cand[i] = cand[i][::2] if len(cand[i]) > 2 else cand[i]
            n2 = 1
            for c in cand:
                n2 *= len(c)
            if n2 == n:
                break
            n = n2
    for vals in itertools.product(*cand):
        env = dict(zip(atoms, vals))
        if a.eval(env) != b.eval(env):
            return ("differ", env)
    if complete:
        return ("equal", None)  # the (tiny) domain was enumerated completely on the two closed forms
    return ("unknown", None)
