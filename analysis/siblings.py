"""Sibling cross-check (byte vs word helper of the same mnemonic): the two are written as width-parametric copies.
For each flag handed to set_all_flags the defining expression is rebuilt from MIR as a tree (single-definition
temporaries substituted, casts dropped, width constants normalised).  Two trees that differ only in that one of them
lacks an operand of one operation (op(X, Y) in one sibling, X alone in the other) are a *dropped operand*: the classic
copy-paste slip (a carry that is added in the byte form and forgotten in the word form).  Any other difference of shape
(a different but possibly equivalent formulation) is reported as undecided, never as a violation."""
import re
from cfgtools import Defs

CONST = {0x7f: "SMAX", 0x7fff: "SMAX", 0x80: "SBIT", 0x8000: "SBIT", 0xff: "UMAX", 0xffff: "UMAX", 8: "W", 16: "W", 7: "W-1", 15: "W-1",
         9: "W+1", 17: "W+1", -128: "SMIN", -32768: "SMIN", 0x100: "CARRYBIT", 0x10000: "CARRYBIT", 0xFFFFFFFF: "UMAX"}


def tree(fn, defs, op, depth=0):
    if depth > 30:
        return ("...",)
    if op[0] == "const":
        c = op[1]
        if "val" in c:
            return ("const", CONST.get(c["val"], c["val"]))
        return ("const", "?")
    pl = op[1]
    l = pl["l"]
    proj = [e for e in pl["p"] if e != "deref"]
    if 1 <= l <= fn["argc"]:
        nm = fn["locals"][l]["name"] or f"arg{l}"
        return ("in", nm + "".join("." + str(e[2]) for e in proj if isinstance(e, list) and e[0] == "f"))
    if proj:
        base = tree(fn, defs, ["copy", {"l": l, "p": []}], depth + 1)
        fs = tuple(e[1] for e in proj if isinstance(e, list) and e[0] == "f")
        if fs == (0,) and base[0] == "op":
            return base  # (value, overflow flag).0 of a checked operation
        return ("proj", base, fs)
    ds = defs.all(l)
    full = [d for d in ds if d[0] == "call" or not d[2][1]["p"]]
    if len(full) != 1:
        # a variable assigned on several paths (e.g. `carry` = 0 / 1 under the CF test): named by the user variable
        return ("var", fn["locals"][l]["name"] or f"_{len(full)}defs")
    d = full[0]
    if d[0] == "call":
        t = d[2]
        name = (t[1].get("def") or "?").split("::")[-1]
        name = {"wrapping_add": "Add", "wrapping_sub": "Sub"}.get(name, name)
        args = tuple(tree(fn, defs, a, depth + 1) for a in t[2])
        return ("op", name) + args
    rv = d[2][2]
    k = rv[0]
    if k == "use":
        return tree(fn, defs, rv[1], depth + 1)
    if k == "cast":
        return tree(fn, defs, rv[2], depth + 1)
    if k == "ref":
        return tree(fn, defs, ["copy", rv[1]], depth + 1)
    if k == "bin":
        return ("op", rv[1].rstrip("O"), tree(fn, defs, rv[2], depth + 1), tree(fn, defs, rv[3], depth + 1))
    if k == "un":
        return ("op", rv[1], tree(fn, defs, rv[2], depth + 1))
    return (k,)


def flag_trees(fn):
    defs = Defs(fn)
    out = {}
    for bb in fn["blocks"]:
        if bb.get("cleanup"):
            continue
        for s in bb["stmts"]:
            if s[0] == "assign" and s[2][0] == "agg" and isinstance(s[2][1], dict) and s[2][1].get("vname") == "FlagsToSet":
                for n, o in zip(s[2][1].get("fields") or [], s[2][2]):
                    out[n] = tree(fn, defs, o)
    return out


def show(t):
    if t[0] == "op":
        return f"{t[1]}({', '.join(show(x) for x in t[2:])})"
    if t[0] in ("const", "in", "var"):
        return str(t[1])
    if t[0] == "proj":
        return show(t[1]) + "." + ".".join(map(str, t[2]))
    return t[0]


def dropped_operand(a, b):
    """if b equals a with exactly one `op(X, Y)` replaced by X or by Y: (op name, dropped operand text), else None"""
    if a == b:
        return None
    if a[0] == "op" and len(a) == 4:
        # a = op(X, Y); b == X or b == Y ?
        if a[2] == b:
            return (a[1], show(a[3]))
        if a[3] == b:
            return (a[1], show(a[2]))
    if a[0] == "op" and b[0] == "op" and a[1] == b[1] and len(a) == len(b):
        diffs = [i for i in range(2, len(a)) if a[i] != b[i]]
        if len(diffs) == 1:
            return dropped_operand(a[diffs[0]], b[diffs[0]])
    if a[0] == "proj" and b[0] == "proj" and a[2] == b[2]:
        return dropped_operand(a[1], b[1])
    return None


def sibling_pairs(P, module_prefix="instructions::arithmetic"):
    pairs = {}
    for (w, name), fn in P.by_name.items():
        if w != "lib" or not name.startswith(module_prefix):
            continue
        m = re.match(r".*::(byte|word)_(\w+)$", name)
        if m:
            pairs.setdefault(m.group(2), {})[m.group(1)] = fn
    return {k: v for k, v in pairs.items() if len(v) == 2}


def canon_op(name):
    """wrapping_add / overflowing_add (.0) / checked_add / AddO / unchecked_add all compute the sum"""
    n = str(name).split("::")[-1]
    for pre in ("wrapping_", "overflowing_", "checked_", "unchecked_", "saturating_"):
        if n.startswith(pre):
            n = n[len(pre):]
    if n.endswith("O") and n[:-1] in ("Add", "Sub", "Mul"):
        n = n[:-1]
    if n.endswith("Unchecked"):
        n = n[:-9]
    return n.lower()


def single_node_diff(a, b):
    """a and b have the same shape and differ in exactly one operator name or one leaf: (kind, in a, in b), else None"""
    if a == b:
        return None
    if a[0] != b[0] or len(a) != len(b):
        return None
    if a[0] in ("const", "in", "var"):
        return ("leaf", show(a), show(b))
    if a[0] == "op":
        if a[1] != b[1]:
            if canon_op(a[1]) == canon_op(b[1]):
                return None  # two spellings of the same operation
            return ("operator", a[1], b[1]) if a[2:] == b[2:] else None
        diffs = [i for i in range(2, len(a)) if a[i] != b[i]]
        if len(diffs) == 1:
            return single_node_diff(a[diffs[0]], b[diffs[0]])
        return None
    if a[0] == "proj" and a[2] == b[2]:
        return single_node_diff(a[1], b[1])
    return None


FLAG_CALLS = ("set_flag", "unset_flag", "set_flag_helper", "has_even_parity")


def fingerprint(fn):
    """what a flag-setting helper does, independent of statement order: the condition of every branch, the arguments of
    every flag call, and the returned value, as normalised trees"""
    import mir as M
    defs = Defs(fn)
    items = []
    for bb in fn["blocks"]:
        if bb.get("cleanup"):
            continue
        t = M.term(bb)
        if t[0] == "switch":
            items.append(("branch", tree(fn, defs, t[1])))
        elif t[0] == "call":
            name = (t[1].get("def") or "?").split("::")[-1]
            if name in FLAG_CALLS:
                items.append((name,) + tuple(tree(fn, defs, a) for a in t[2]))
        elif t[0] == "return":
            items.append(("returns", tree(fn, defs, ["copy", {"l": 0, "p": []}])))
    return items


def compare_fingerprints(fa, fb):
    """-> ('same', n) | ('dropped', kind, op, operand, side) | ('node', kind, detail, x, y) | ('differ', n_a, n_b)"""
    ra = list(fa)
    rb = list(fb)
    for x in list(ra):
        if x in rb:
            ra.remove(x)
            rb.remove(x)
    if not ra and not rb:
        return ("same", len(fa))
    if len(ra) == len(rb) and len(ra) <= 3:
        # pair the leftovers greedily by kind
        findings = []
        rb2 = list(rb)
        for x in ra:
            cands = [y for y in rb2 if y[0] == x[0] and len(y) == len(x)]
            hit = None
            for y in cands:
                for i in range(1, len(x)):
                    if x[i] == y[i]:
                        continue
                    d1, d2 = dropped_operand(x[i], y[i]), dropped_operand(y[i], x[i])
                    sn = single_node_diff(x[i], y[i])
                    if d1:
                        hit = ("dropped", x[0], d1[0], d1[1], "b")
                    elif d2:
                        hit = ("dropped", x[0], d2[0], d2[1], "a")
                    elif sn:
                        hit = ("node", x[0], sn[0], sn[1], sn[2])
                    break
                if hit:
                    rb2.remove(y)
                    break
            if hit is None:
                return ("differ", len(ra), len(rb))
            findings.append(hit)
        # all leftovers explained by the same kind of single slip
        if findings and all(f[:4] == findings[0][:4] or f[0] == findings[0][0] for f in findings):
            return findings[0]
    return ("differ", len(ra), len(rb))
