"""Sibling cross-check (byte vs word helper of the same mnemonic): the two are written as width-parametric copies.
For each flag handed to set_all_flags the defining expression is rebuilt from MIR as a tree (single-definition
temporaries substituted, casts dropped, width constants normalised).  Two trees that differ only in that one of them
lacks an operand of one operation (op(X, Y) in one sibling, X alone in the other) are a *dropped operand*: the classic
copy-paste slip (a carry that is added in the byte form and forgotten in the word form).  Any other difference of shape
(a different but possibly equivalent formulation) is reported as undecided, never as a violation."""
import re
from cfgtools import Defs

CONST = {0x7f: "SMAX", 0x7fff: "SMAX", 0x80: "SBIT", 0x8000: "SBIT", 0xff: "UMAX", 0xffff: "UMAX", 8: "W", 16: "W", 7: "W-1", 15: "W-1",
         9: "W+1", 17: "W+1", -128: "SMIN", -32768: "SMIN", 0x100: "CARRYBIT", 0x10000: "CARRYBIT"}


def tree(fn, defs, op, depth=0):
    if depth > 30:
        return ("...",)
    if op[0] == "const":
        c = op[1]
        if "val" in c:
            return ("const", CONST.get(c["val"], c["val"]))
        return ("const", "?")
    pl = op[1]
    l = pl["l"]
    proj = [e for e in pl["p"] if e != "deref"]
    if 1 <= l <= fn["argc"]:
        nm = fn["locals"][l]["name"] or f"arg{l}"
        return ("in", nm + "".join("." + str(e[2]) for e in proj if isinstance(e, list) and e[0] == "f"))
    if proj:
        base = tree(fn, defs, ["copy", {"l": l, "p": []}], depth + 1)
        fs = tuple(e[1] for e in proj if isinstance(e, list) and e[0] == "f")
        if fs == (0,) and base[0] == "op":
            return base  # (value, overflow flag).0 of a checked operation
        return ("proj", base, fs)
    ds = defs.all(l)
    full = [d for d in ds if d[0] == "call" or not d[2][1]["p"]]
    if len(full) != 1:
        # a variable assigned on several paths (e.g. `carry` = 0 / 1 under the CF test): named by the user variable
        return ("var", fn["locals"][l]["name"] or f"_{len(full)}defs")
    d = full[0]
    if d[0] == "call":
        t = d[2]
        name = (t[1].get("def") or "?").split("::")[-1]
        name = {"wrapping_add": "Add", "wrapping_sub": "Sub"}.get(name, name)
        args = tuple(tree(fn, defs, a, depth + 1) for a in t[2])
        return ("op", name) + args
    rv = d[2][2]
    k = rv[0]
    if k == "use":
        return tree(fn, defs, rv[1], depth + 1)
    if k == "cast":
        return tree(fn, defs, rv[2], depth + 1)
    if k == "ref":
        return tree(fn, defs, ["copy", rv[1]], depth + 1)
    if k == "bin":
        return ("op", rv[1].rstrip("O"), tree(fn, defs, rv[2], depth + 1), tree(fn, defs, rv[3], depth + 1))
    if k == "un":
        return ("op", rv[1], tree(fn, defs, rv[2], depth + 1))
    return (k,)


def flag_trees(fn):
    defs = Defs(fn)
    out = {}
    for bb in fn["blocks"]:
        if bb.get("cleanup"):
            continue
        for s in bb["stmts"]:
            if s[0] == "assign" and s[2][0] == "agg" and isinstance(s[2][1], dict) and s[2][1].get("vname") == "FlagsToSet":
                for n, o in zip(s[2][1].get("fields") or [], s[2][2]):
                    out[n] = tree(fn, defs, o)
    return out


def show(t):
    if t[0] == "op":
        return f"{t[1]}({', '.join(show(x) for x in t[2:])})"
    if t[0] in ("const", "in", "var"):
        return str(t[1])
    if t[0] == "proj":
        return show(t[1]) + "." + ".".join(map(str, t[2]))
    return t[0]


def dropped_operand(a, b):
    """if b equals a with exactly one `op(X, Y)` replaced by X or by Y: (op name, dropped operand text), else None"""
    if a == b:
        return None
    if a[0] == "op" and len(a) == 4:
        # a = op(X, Y); b == X or b == Y ?
        if a[2] == b:
            return (a[1], show(a[3]))
        if a[3] == b:
            return (a[1], show(a[2]))
    if a[0] == "op" and b[0] == "op" and a[1] == b[1] and len(a) == len(b):
        diffs = [i for i in range(2, len(a)) if a[i] != b[i]]
        if len(diffs) == 1:
            return dropped_operand(a[diffs[0]], b[diffs[0]])
    if a[0] == "proj" and b[0] == "proj" and a[2] == b[2]:
        return dropped_operand(a[1], b[1])
    return None


def sibling_pairs(P, module_prefix="instructions::arithmetic"):
    pairs = {}
    for (w, name), fn in P.by_name.items():
        if w != "lib" or not name.startswith(module_prefix):
            continue
        m = re.match(r".*::(byte|word)_(\w+)$", name)
        if m:
            pairs.setdefault(m.group(2), {})[m.group(1)] = fn
    return {k: v for k, v in pairs.items() if len(v) == 2}
