"""Abort-site census (C09/C15/C18): run analysis units, collect every potential abort site
(MIR Assert, unwrap/expect, opaque Index, explicit panic) with its classification."""
from absint import Interp, Unsupported, RefV, IntV, TopV, AggV, State
from units import run_interp_production, addr_atom, machine_state, ProdRunner
import mir as M

RANK = {"proved": 0, "possible": 1, "definite": 2, "reached": 2}


class Sites:
    def __init__(self):
        self.sites = {}  # (fn, akind, line) -> dict(status, witness, contexts, vals)
        self.general = {}  # sites classified in a most-general context of their function (overrides)
        self.units = 0
        self.failed_units = []

    def add_events(self, events, context, general_for=None):
        """general_for: function name for which this run is the most general context (all arguments unconstrained)"""
        for e in events:
            if e.kind != "assert":
                continue
            if e.akind.startswith("Other:"):
                continue
            key = (e.fn, e.akind, e.line)
            if general_for is not None and e.fn == general_for:
                g = self.general.get(key)
                if g is None or RANK[e.status] > RANK[g["status"]]:
                    self.general[key] = {"status": e.status, "witness": e.witness, "context": context + " (all arguments unconstrained)",
                                         "vals": [repr(v) for v in e.vals][:3], "n": 1}
            cur = self.sites.get(key)
            if cur is None or RANK[e.status] > RANK[cur["status"]]:
                self.sites[key] = {"status": e.status, "witness": e.witness, "context": context,
                                   "vals": [repr(v) for v in e.vals][:3], "n": (cur["n"] + 1 if cur else 1)}
            else:
                cur["n"] += 1

    def by_status(self, st):
        return {k: v for k, v in self.sites.items() if v["status"] == st or (st == "definite" and v["status"] == "reached")}


def site_detail(key, info):
    """line-free identification of a site: function, kind and the abstract operands"""
    fn, akind, line = key
    ops = ",".join(v.split(" aff=")[-1].rstrip(">") if " aff=" in v else v for v in info["vals"])
    return f"{akind}({ops})"


def interpreter_census(ctx, sites, nts=None, skip=()):
    G = ctx.gram("interpreter")
    ov = {"memory_addr": addr_atom("m"), "byte_label": addr_atom("lb"), "word_label": addr_atom("lw")}
    for nt_data in G.g["nonterminals"]:
        nt = nt_data["name"]
        if nt.startswith("__") or (nts and nt not in nts) or nt in skip:
            continue
        for k, p in enumerate(nt_data["productions"]):
            # pass-through alternatives are covered when the child is run
            ua = G.main_user_action(p["action"])
            use_ov = {} if nt in ov else ov
            try:
                I, st, v, r = run_interp_production(ctx, nt, k, overrides=use_ov)
                sites.units += 1
                sites.add_events(I.events, G.prod_label(nt, k))
                for n in I.notes:
                    if "unresolved indirect" in n or "no fixpoint" in n:
                        sites.failed_units.append((G.prod_label(nt, k), n))
            except Unsupported as e:
                sites.failed_units.append((G.prod_label(nt, k), str(e)))


def fn_census(ctx, sites, which, name, make_args, context=None):
    P = ctx.program
    fn = P.by_name.get((which, name))
    if fn is None:
        sites.failed_units.append((name, "function not found"))
        return None
    I = Interp(P)
    st = machine_state(I, P)
    try:
        args = make_args(I, st)
        ret = I.run_fn(fn, args, st)
        sites.units += 1
        sites.add_events(I.events, context or name)
        for n in I.notes:
            if "no fixpoint" in n:
                sites.failed_units.append((name, n))
        return I, st, ret
    except Unsupported as e:
        sites.failed_units.append((name, str(e)))
        return None


def report_sites(chk, rid, sites, where_of, only=None):
    merged = dict(sites.sites)
    merged.update(sites.general)
    for key, info in sorted(merged.items(), key=lambda x: (x[0][0], x[0][2])):
        fn, akind, line = key
        if only and not only(key):
            continue
        unit = f"{fn.split('::')[-1]}:{akind}@{line}"
        if info["status"] == "proved":
            chk.ok(rid, unit, None)
        elif info["status"] in ("definite", "reached"):
            chk.violation(rid, fn.split("::")[-1], site_detail(key, info), f"{akind} can fail in {fn} (context: {info['context']})",
                          f"{where_of(fn)}:{line}", info["witness"])
        else:
            chk.undecided_(rid, unit, f"operands {info['vals']}: the interval/affine domains cannot exclude the failing side")
