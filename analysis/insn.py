"""Shared machinery for the instruction-semantics properties (C01, C02, C03, C07):
function tables from the grammar, per-function abstract summaries, flag/frames/dependency rules."""
import json
import os
import mir as M
from absint import IntV, AggV, EnumV, TopV, RefV, MemV, FnV, State, Interp, Unsupported
from program import build_vm, arch_index
from units import ProdRunner, machine_state, interp_params, addr_atom, run_interp_production

SPEC = os.path.join(os.path.dirname(os.path.dirname(os.path.abspath(__file__))), "spec")


def spec(name):
    return json.load(open(os.path.join(SPEC, name + ".json")))


FLAGS = spec("flags")
FBIT = FLAGS["bits"]


def fn_table(ctx, nt):
    """{terminal text -> function id} for a table nonterminal like byte_binary_arithmetic.
    Derived by abstractly running each alternative: the value returned is the function item."""
    G = ctx.gram("interpreter")
    out = {}
    for k, p in enumerate(G.productions(nt)):
        terms = [s["name"].strip('"') for s in p["symbols"] if s["t"] == "term"]
        I, st, v, r = run_interp_production(ctx, nt, k)
        if v is None or v.kind != "fn" or len(v.ids) != 1 or len(terms) != 1:
            out[(k, tuple(terms))] = None
            continue
        out[terms[0]] = next(iter(v.ids))
    return out


class FnSummary:
    pass


def summarize_fn(ctx, fn, specialise=None, assume=None, split=frozenset(), ranges=None, pre=None, record_arith=False):
    """Run an instruction helper `fn(vm, args...)` on an abstract machine with atom arguments.
    specialise: {arg_name: int} fixes an argument to a constant."""
    P = ctx.program
    sig = P.sigs.get(("lib", fn["name"]))
    I = Interp(P, assume=assume, split=split)
    I.record_arith = record_arith
    st = machine_state(I, P)
    args = []
    slots = {}
    names = [l["name"] or f"arg{i}" for i, l in enumerate(fn["locals"][1:fn["argc"] + 1], 1)]
    for i, ty in enumerate(sig["inputs"]):
        nm = names[i]
        if "VM" in ty:
            args.append(RefV((0, "vm", ())))
            continue
        base = ty.replace("&mut ", "").replace("&", "").strip()
        if specialise and nm in specialise:
            v = IntV.const(base, specialise[nm])
        elif ranges and nm in ranges:
            v = I.new_atom(base, nm, ranges[nm][0], ranges[nm][1])
        else:
            v = I.new_atom(base, nm)
        if ty.startswith("&"):
            st.frames[0]["slot_" + nm] = v
            slots[nm] = "slot_" + nm
            args.append(RefV((0, "slot_" + nm, ())))
        else:
            args.append(v)
    if pre:
        pre(I, st)
    ret = I.run_fn(fn, args, st)
    s = FnSummary()
    s.fn = fn
    s.I = I
    s.st = st
    s.ret = ret
    s.arg_names = [n for n, ty in zip(names, sig["inputs"]) if "VM" not in ty]
    s.slots = {nm: st.frames[0][k] for nm, k in slots.items()} if not st.dead else {}
    s.vm = st.frames[0]["vm"]
    s.mem = st.frames[0]["mem"]
    ai = arch_index(P)
    s.regs = {n: s.vm.fields[0].fields[i] for n, i in ai.items()}
    s.flag = s.regs["flag"]
    return s


def is_copy(v, atom):
    return v.kind == "int" and all(b == ("c", atom, i) for i, b in enumerate(v.bits))


def changed_regs(s, ignore=("flag",)):
    return [n for n, v in s.regs.items() if n not in ignore and not is_copy(v, n)]


def mem_written(s):
    """cells whose content is not the initial atom of that address"""
    out = []
    for k, (idx, v) in s.mem.cells.items():
        if not is_copy(v, "mem[" + k + "]"):
            out.append(k)
    if s.mem.havoc is not None:
        out.append("<havoc>")
    return out


def flag_state(bit, i):
    """classify a bit of the final flag word"""
    if bit == ("c", "flag", i):
        return "unchanged"
    if bit in (0, 1):
        return f"const{bit}"
    if bit[0] == "n" and bit[1:] == ("flag", i):
        return "inverted"
    return "computed"


def deps_of(bit):
    from domains import bdeps
    return bdeps(bit)


def atoms_of(deps):
    return set(a for a, _ in deps)


def check_flags(chk, rid_frame, rid_def, unit, flagv, written, undefined=(), cleared=(), preserved=(), self_dep_ok=(), where=""):
    """R-frame: every flag outside written/undefined/cleared is exactly unchanged.
       R-def : every written flag is assigned on every path (not a copy of, nor dependent on, its old value
               unless listed in self_dep_ok); cleared flags are constant 0."""
    names = {v: k for k, v in FBIT.items()}
    for i in range(16):
        nm = names.get(i, f"bit{i}")
        st = flag_state(flagv.bits[i], i)
        if nm in undefined:
            continue
        if nm in cleared:
            if st == "const0":
                chk.ok(rid_def, f"{unit}:{nm}", "cleared on every path")
            else:
                chk.violation(rid_def, unit, f"{nm}-not-cleared", f"{nm} must be 0 after {unit}; abstract value: {st}", where)
            continue
        if nm in written:
            if st == "unchanged":
                chk.violation(rid_def, unit, f"{nm}-never-written", f"{nm} is never assigned by {unit}", where)
            elif st == "computed" and ("flag", i) in deps_of(flagv.bits[i]) and nm not in self_dep_ok:
                chk.violation(rid_def, unit, f"{nm}-not-written-on-every-path",
                              f"{nm} keeps (or is derived from) its previous value on some path of {unit}", where)
            else:
                chk.ok(rid_def, f"{unit}:{nm}", st)
            continue
        # everything else (incl. preserved, TF/IF/DF, reserved bits) must be untouched
        if st == "unchanged":
            chk.ok(rid_frame, f"{unit}:{nm}", "unchanged", nontrivial=(nm in preserved))
        else:
            chk.violation(rid_frame, unit, f"{nm}-modified", f"{nm} must not be changed by {unit}; abstract value: {st}", where)


def check_required_deps(chk, rid, unit, what, value_bits, required, where=""):
    """sound: the may-depend set over-approximates; a missing required input is a definite defect"""
    from domains import bits_all_deps
    have = bits_all_deps(value_bits)
    miss = sorted(set(required) - have)
    if miss:
        atoms = sorted(set(a for a, _ in miss))
        chk.violation(rid, unit, f"{what}-ignores-{'+'.join(atoms)}",
                      f"{what} of {unit} cannot depend on {atoms} (missing {len(miss)} input bits, e.g. {miss[0]})", where)
    else:
        chk.ok(rid, f"{unit}:{what}", f"depends on all {len(required)} required input bits")


def fn_where(fn):
    return fn["span"].rsplit(":", 1)[0]


def report_aborts(chk, rid, unit, events, where=""):
    """abort sites seen while analysing a unit: definite -> violation, possible -> undecided"""
    seen = set()
    for e in events:
        if e.kind != "assert":
            continue
        key = (e.fn, e.akind, e.line)
        if key in seen and e.status == "proved":
            continue
        seen.add(key)
        if e.akind.startswith("Other:"):
            continue
        if e.status == "proved":
            chk.ok(rid, f"{e.fn}:{e.akind}@{e.line}", None)
        elif e.status in ("definite", "reached"):
            chk.violation(rid, e.fn.split("::")[-1], f"{e.akind}", f"{e.akind} can fail in {e.fn} (reached from {unit})",
                          f"{(where or e.fn).rsplit(chr(58), 1)[0] if (where or e.fn).rsplit(chr(58), 1)[-1].isdigit() else (where or e.fn)}:{e.line}", e.witness)
        else:
            chk.undecided_(rid, f"{e.fn}:{e.akind}@{e.line}", "interval analysis cannot exclude the failing side")
