"""Shared machinery for the instruction-semantics properties (C01, C02, C03, C07):
function tables from the grammar, per-function abstract summaries, flag/frames/dependency rules."""
import json
import os
import mir as M
from absint import IntV, AggV, EnumV, TopV, RefV, MemV, FnV, State, Interp, Unsupported
from program import build_vm, arch_index
from units import ProdRunner, machine_state, interp_params, addr_atom, run_interp_production

SPEC = os.path.join(os.path.dirname(os.path.dirname(os.path.abspath(__file__))), "spec")


def spec(name):
    return json.load(open(os.path.join(SPEC, name + ".json")))


FLAGS = spec("flags")
FBIT = FLAGS["bits"]


def fn_table(ctx, nt):
    """{terminal text -> function id} for a table nonterminal like byte_binary_arithmetic.
    Derived by abstractly running each alternative: the value returned is the function item."""
    G = ctx.gram("interpreter")
    out = {}
    for k, p in enumerate(G.productions(nt)):
        terms = [s["name"].strip('"') for s in p["symbols"] if s["t"] == "term"]
        I, st, v, r = run_interp_production(ctx, nt, k)
        if v is None or v.kind != "fn" or len(v.ids) != 1 or len(terms) != 1:
            out[(k, tuple(terms))] = None
            continue
        out[terms[0]] = next(iter(v.ids))
    return out


class FnSummary:
    pass


def summarize_fn(ctx, fn, specialise=None, assume=None, split=frozenset(), ranges=None, pre=None, record_arith=False, ret_filter=None, kill_ret_variant=None, record_switch=False, force_switch=None):
    """Run an instruction helper `fn(vm, args...)` on an abstract machine with atom arguments.
    specialise: {arg_name: int} fixes an argument to a constant."""
    P = ctx.program
    sig = P.sigs.get(("lib", fn["name"]))
    I = Interp(P, assume=assume, split=split)
    I.record_arith = record_arith
    st = machine_state(I, P)
    args = []
    slots = {}
    names = [l["name"] or f"arg{i}" for i, l in enumerate(fn["locals"][1:fn["argc"] + 1], 1)]
    for i, ty in enumerate(sig["inputs"]):
        nm = names[i]
        if "VM" in ty:
            args.append(RefV((0, "vm", ())))
            continue
        base = ty.replace("&mut ", "").replace("&", "").strip()
        if specialise and nm in specialise:
            v = IntV.const(base, specialise[nm])
        elif ranges and nm in ranges:
            v = I.new_atom(base, nm, ranges[nm][0], ranges[nm][1])
        else:
            v = I.new_atom(base, nm)
        if ty.startswith("&"):
            st.frames[0]["slot_" + nm] = v
            slots[nm] = "slot_" + nm
            args.append(RefV((0, "slot_" + nm, ())))
        else:
            args.append(v)
    if pre:
        pre(I, st)
    if ret_filter is not None:
        I.top_ret_filter = ret_filter
    if kill_ret_variant is not None:
        I.kill_ret_variant = kill_ret_variant
    I.record_switch = record_switch
    I.force_switch = force_switch
    ret = I.run_fn(fn, args, st)
    s = FnSummary()
    s.fn = fn
    s.I = I
    s.st = st
    s.ret = ret
    s.arg_names = [n for n, ty in zip(names, sig["inputs"]) if "VM" not in ty]
    s.slots = {nm: st.frames[0][k] for nm, k in slots.items()} if not st.dead else {}
    s.vm = st.frames[0]["vm"]
    s.mem = st.frames[0]["mem"]
    ai = arch_index(P)
    s.regs = {n: s.vm.fields[0].fields[i] for n, i in ai.items()}
    s.flag = s.regs["flag"]
    return s


def is_copy(v, atom):
    return v.kind == "int" and all(b == ("c", atom, i) for i, b in enumerate(v.bits))


def changed_regs(s, ignore=("flag",)):
    return [n for n, v in s.regs.items() if n not in ignore and not is_copy(v, n)]


def mem_written(s):
    """cells whose content is not the initial atom of that address"""
    out = []
    for k, (idx, v) in s.mem.cells.items():
        if not is_copy(v, "mem[" + k + "]"):
            out.append(k)
    if s.mem.havoc is not None:
        out.append("<havoc>")
    return out


def flag_state(bit, i):
    """classify a bit of the final flag word"""
    if bit == ("c", "flag", i):
        return "unchanged"
    if bit in (0, 1):
        return f"const{bit}"
    if bit[0] == "n" and bit[1:] == ("flag", i):
        return "inverted"
    return "computed"


def deps_of(bit):
    from domains import bdeps
    return bdeps(bit)


def atoms_of(deps):
    return set(a for a, _ in deps)


def check_flags(chk, rid_frame, rid_def, unit, flagv, written, undefined=(), cleared=(), preserved=(), self_dep_ok=(), where=""):
    """R-frame: every flag outside written/undefined/cleared is exactly unchanged.
       R-def : every written flag is assigned on every path (not a copy of its old value on some path unless listed in
               self_dep_ok); cleared flags are constant 0.
    Verdicts are definite only on *exact* facts: a bit that is a constant, a copy / complement of an input bit, or a join of
    such bits over paths (`balts`).  A bit that went through arithmetic the bit domain does not follow carries only an
    over-approximated dependence set: that decides nothing, except that a bit which does not depend on its own old value
    cannot be a copy of it."""
    from domains import balts
    names = {v: k for k, v in FBIT.items()}
    for i in range(16):
        nm = names.get(i, f"bit{i}")
        bit = flagv.bits[i]
        st = flag_state(bit, i)
        alts = balts(bit)
        own = ("c", "flag", i)
        if nm in undefined:
            continue
        if nm in cleared:
            if st == "const0":
                chk.ok(rid_def, f"{unit}:{nm}", "cleared on every path")
            elif alts is not None and alts != frozenset((0,)):
                chk.violation(rid_def, unit, f"{nm}-not-cleared", f"{nm} must be 0 after {unit}; abstract value: {st}", where)
            else:
                chk.undecided_(rid_def, f"{unit}:{nm}", f"{nm} must be 0; its value went through arithmetic the bit domain does not follow")
            continue
        if nm in written:
            if st == "unchanged":
                chk.violation(rid_def, unit, f"{nm}-never-written", f"{nm} is never assigned by {unit}", where)
            elif alts is not None and own in alts and nm not in self_dep_ok:
                chk.violation(rid_def, unit, f"{nm}-not-written-on-every-path",
                              f"{nm} keeps its previous value on some path of {unit}", where)
            elif alts is None and ("flag", i) in deps_of(bit) and nm not in self_dep_ok:
                chk.undecided_(rid_def, f"{unit}:{nm}", f"{nm} may be derived from its previous value (dependence through arithmetic the bit domain does not follow)")
            else:
                chk.ok(rid_def, f"{unit}:{nm}", st)
            continue
        # everything else (incl. preserved, TF/IF/DF, reserved bits) must be untouched
        if st == "unchanged":
            chk.ok(rid_frame, f"{unit}:{nm}", "unchanged", nontrivial=(nm in preserved))
        elif alts is not None or ("flag", i) not in deps_of(bit):
            # an exact other value, a join with one, or a value that does not even depend on the old bit
            chk.violation(rid_frame, unit, f"{nm}-modified", f"{nm} must not be changed by {unit}; abstract value: {st}", where)
        else:
            chk.undecided_(rid_frame, f"{unit}:{nm}", f"{nm} must not change; the flag word went through arithmetic the bit domain does not follow")


def check_required_deps(chk, rid, unit, what, value_bits, required, where=""):
    """sound: the may-depend set over-approximates; a missing required input is a definite defect"""
    from domains import bits_all_deps
    have = bits_all_deps(value_bits)
    miss = sorted(set(required) - have)
    if miss:
        atoms = sorted(set(a for a, _ in miss))
        chk.violation(rid, unit, f"{what}-ignores-{'+'.join(atoms)}",
                      f"{what} of {unit} cannot depend on {atoms} (missing {len(miss)} input bits, e.g. {miss[0]})", where)
    else:
        chk.ok(rid, f"{unit}:{what}", f"depends on all {len(required)} required input bits")


def fn_where(fn):
    return fn["span"].rsplit(":", 1)[0]


def report_aborts(chk, rid, unit, events, where=""):
    """abort sites seen while analysing a unit: definite -> violation, possible -> undecided"""
    seen = set()
    for e in events:
        if e.kind != "assert":
            continue
        key = (e.fn, e.akind, e.line)
        if key in seen and e.status == "proved":
            continue
        seen.add(key)
        if e.akind.startswith("Other:"):
            continue
        if e.status == "proved":
            chk.ok(rid, f"{e.fn}:{e.akind}@{e.line}", None)
        elif e.status in ("definite", "reached"):
            chk.violation(rid, e.fn.split("::")[-1], f"{e.akind}", f"{e.akind} can fail in {e.fn} (reached from {unit})",
                          f"{(where or e.fn).rsplit(chr(58), 1)[0] if (where or e.fn).rsplit(chr(58), 1)[-1].isdigit() else (where or e.fn)}:{e.line}", e.witness)
        else:
            chk.undecided_(rid, f"{e.fn}:{e.akind}@{e.line}", "interval analysis cannot exclude the failing side")


# ---------------------------------------------------------------------------------------------------------------
# flags set by hand-written branches: `if cond { set_flag(F) } else { unset_flag(F) }`
_FLAG_EFFECT_CACHE = {}


def flag_write_effect(ctx, e):
    """What a call does to the flag word, found by running the callee on a machine whose flag word is an atom:
    [(bit, constant)] for the bits that end as constants.  Only calls whose other arguments are constants / references."""
    from absint import Interp, Unsupported as U_
    from units import machine_state
    P = ctx.program
    g = P.fns.get(e.fref.get("id")) if getattr(e, "fref", None) else None
    if g is None:
        return []
    sig = []
    for a in e.args:
        if a.kind == "ref":
            sig.append(("ref", a.loc))
        elif a.kind == "enum" and a.variant is not None and not a.fields:
            sig.append(("enum", a.name, a.variant))
        elif a.kind == "int" and a.is_const():
            sig.append(("int", a.ty, a.lo))
        else:
            return []
    key = (g["id"], tuple(sig))
    if key in _FLAG_EFFECT_CACHE:
        return _FLAG_EFFECT_CACHE[key]
    I = Interp(P)
    st = machine_state(I, P)
    out = []
    try:
        I.run_fn(g, list(e.args), st)
        if not st.dead:
            fl = st.frames[0]["vm"].fields[0].fields[arch_index(P)["flag"]]
            if fl.kind == "int":
                out = [(i, b) for i, b in enumerate(fl.bits) if b in (0, 1)]
                if len(out) > 2:
                    out = []   # rewrites the whole word: not a single-flag write
    except U_:
        out = []
    _FLAG_EFFECT_CACHE[key] = out
    return out


def branch_flag_conditions(ctx, fn, s):
    """For the helper `fn` analysed in summary `s` (run with record_switch=True): flags that the helper itself sets and
    clears on the two sides of one branch.  -> {flag bit: (scrutinee value of that branch, truth value for which the flag
    is SET)}; a flag that is also written elsewhere in the helper, or not written on some path through the branch, is
    left out."""
    import mir as M
    writes = {}   # bit -> {block: value}
    for e in s.I.events:
        if e.kind == "call" and e.fn == fn["name"] and getattr(e, "fref", None) and e.fref.get("local"):
            for bit, val in flag_write_effect(ctx, e):
                writes.setdefault(bit, {})[e.bb] = val
    if not writes:
        return {}
    cfg = M.CFG(fn)
    switches = {}
    for e in s.I.events:
        if e.kind == "switch" and e.fn == fn["name"]:
            switches.setdefault(e.bb, []).append(e)
    out = {}
    rets = [bi for bi, bb in enumerate(fn["blocks"]) if M.term(bb)[0] == "return"]
    for bit, blocks in writes.items():
        S = {b for b, v in blocks.items() if v == 1}
        C = {b for b, v in blocks.items() if v == 0}
        if not S or not C:
            continue
        best = None
        for b, evs in switches.items():
            if len(evs) != 1:
                continue
            e = evs[0]
            targets = [t for _, t in e.arms] + [e.otherwise]
            if len(targets) != 2 or not all(cfg.dominates(b, x) for x in S | C):
                continue
            r0 = cfg.reachable_from(targets[0], avoid={b})
            r1 = cfg.reachable_from(targets[1], avoid={b})
            only0, only1 = r0 - r1, r1 - r0
            if S <= only0 and C <= only1:
                side = 0
            elif S <= only1 and C <= only0:
                side = 1
            else:
                continue
            # every path from the branch to a return writes the flag: returns are not reachable avoiding S and C
            if any(r in cfg.reachable_from(targets[0], avoid=S | C | {b}) or r in cfg.reachable_from(targets[1], avoid=S | C | {b}) for r in rets):
                continue
            if best is None or cfg.dominates(best[0], b):
                best = (b, e, side)
        if best is None:
            continue
        b, e, side = best
        arm_val = e.arms[0][0]
        # targets[0] is taken when the scrutinee equals arm_val
        d = e.val
        if d.kind != "int":
            continue
        if d.ty == "bool":
            truth_when_set = bool(arm_val) if side == 0 else (not bool(arm_val))
            out[bit] = (d, truth_when_set, None)
        else:
            out[bit] = (d, side == 0, arm_val)   # set when (d == arm_val) is `side == 0`
    return out


def overlap_hazards(I, fn_filter=None):
    """An instruction that moves a word from memory to memory reads its whole source operand before it writes (the 8086
    fetches the operand, then stores), and the two operands may overlap by one byte.  In the ordered memory events of one
    abstract run: a load from a cell the instruction has not written itself, made after a store to a cell of *another*
    operand (addresses built from different atoms may coincide; the lanes m and m+1 of one operand cannot), is a byte the
    instruction may just have overwritten.  -> [(stored cell, cell loaded afterwards)]"""
    def atoms_of(ev):
        return frozenset(a for a, _ in ev.idx.deps()) if ev.idx.kind == "int" else frozenset()
    written, out = [], []
    for e in I.events:
        if e.kind != "mem":
            continue
        if fn_filter is not None and not fn_filter(e):
            continue
        if e.op == "w":
            written.append(e)
        elif not any(w.key == e.key for w in written):
            for w in written:
                if atoms_of(w) != atoms_of(e) and not w.key.startswith("?") and not e.key.startswith("?"):
                    out.append((w.key, e.key))
                    break
    return out
