"""C12 — data layout and labels: assembler counter == loader counter == bytes stored (polynomials),
label bound before the increment, little-endian lanes, u16 counter overflow, DS:=0 between load and run."""
import re
from asm import GramEval
from astev import Str, Num, Obj, tmpl_str, p_str, p_add, p_const, p_mul, p_var, hinfo
from lang import instantiate, parse_lines
from rules_c11 import bound_names
from units import run_production
from census import Sites, site_detail
from insn import is_copy
from domains import Lin, lin_equal_witness
import mir as M
from driver_rules import find_parse_call

EXPL = (
    "R1 counter agreement: for each directive form the assembler production is paired with the loader production that "
    "accepts its template (via the loader's LR(1) tables) and three polynomials over the directive's numbers are compared: "
    "the assembler's data_counter increment, the loader's counter increment, and the number of bytes the loader stores "
    "(stores per iteration x trip count). `set` resets both counters. R2 the label is bound to the counter value before "
    "the increment. R3 lanes: dw stores the low byte at a, the high byte at a+1 (bit domain), strings one byte per "
    "character (and a zero high byte for dw). R4 64 KiB: the assembler's counter updates and the loader's loop bounds "
    "cannot overflow unnoticed (abort-site classification). R5 DS = 0 is assigned on every path between the last "
    "DataParser::parse and the first Interpreter::parse. R6 labels and OFFSET use the bound value unmodified. "
    "NOT decided: the whole image over directive sequences (composition of R1-R3) and 'zero elsewhere' (C19.R5)."
)

NUM_NTS = ("u_word_num", "s_word_num", "u_byte_num", "s_byte_num")


def num_chooser(path, nt, prods):
    """decimal alternative of the numeric nonterminals: an exact atom of the declared type"""
    if nt in ("u_word_num", "u_byte_num"):
        return 0
    if nt in ("s_word_num", "s_byte_num"):
        return len(prods) - 1
    return None


def canon_map(G, p):
    """arg name -> canonical role name for the numeric / string symbols of a production"""
    names = bound_names(G, p)
    m = {}
    ni = 0
    for i, s in enumerate(p["symbols"]):
        nm = names.get(i)
        if s["t"] == "nt" and s["name"] in NUM_NTS:
            if nm and nm != "_":
                m[nm] = f"num{ni}"
            ni += 1
        elif s["t"] == "term" and s["name"].startswith("r#") and '"' in s["name"]:
            if nm and nm != "_":
                m[f"len({nm})"] = "strlen"
        elif s["t"] == "nt" and nm and nm != "_":
            # a text handed up by a nonterminal that wraps the quoted-string token (its length is a polynomial over
            # the token's length, written len(<name>~) by the evaluator)
            m[f"len({nm}~)"] = "strlen"
    return m


def rename(poly, cmap):
    if poly is None:
        return None
    out = {}
    for mono, c in poly.items():
        m2 = tuple(sorted(cmap.get(v, v) for v in mono))
        out[m2] = out.get(m2, 0) + c
    return {k: v for k, v in out.items() if v}


def run(ctx, chk):
    chk.explanation = EXPL
    chk.assumptions += ["the loader's stores inside one directive go to consecutive addresses (address stepping is C09/C04 territory)"]
    GA = ctx.gram("preprocessor")
    GD = ctx.gram("data_parser")
    EA = GramEval(GA)
    ED = GramEval(GD)
    chk.rule("C12.R1", "assembler increment == loader increment == bytes stored", floor=9)
    chk.rule("C12.R2", "a data label is bound to the counter before the increment", floor=8)
    chk.rule("C12.R3", "dw lanes low-then-high; strings byte per character", floor=2)
    chk.rule("C12.R4", "counter arithmetic cannot overflow unnoticed", floor=8)
    chk.rule("C12.R5", "DS is reset to 0 between loading data and executing code", floor=1)
    chk.rule("C12.R6", "data labels / OFFSET use the bound counter value unmodified (u16)", floor=3)

    # ---- R1 / R2
    items = []
    for nt in ("set_directive", "db_directive", "dw_directive"):
        if nt not in GA.nts:
            chk.undecided_("C12.R1", nt, "assembler nonterminal not found")
            continue
        for k, p in enumerate(GA.productions(nt)):
            ua = GA.main_user_action(p["action"])
            label = GA.prod_label(nt, k)
            where = f"{GA.g['file']}:{p['line']}"
            cmap = canon_map(GA, p)
            for path in EA.prod_paths(nt, k):
                if getattr(path, "action", None) != ua["idx"] or any(e.kind == "error" for e in path.effects):
                    continue
                has_label = any(s_["t"] == "nt" and s_["name"] == "label" for s_ in p["symbols"])
                if has_label and not any(e.kind == "map" and e.target == "context.label_map" and e.op == "insert" for e in path.effects):
                    cond = "; ".join(c[0][:60] for c in path.conds[-2:])
                    chk.violation("C12.R2", label, "label-not-bound-on-accepting-path",
                                  f"{label}: an accepting path of the directive ({cond or 'unconditional'}) does not bind its label to the data counter: the label keeps what the "
                                  f"`label` nonterminal registered for it (a code label at the current code index), so jumps to it are accepted and operands on it are refused", where)
                    continue
                pushes = [e for e in path.effects if e.kind == "push" and e.target == "out.data"]
                if len(pushes) != 1 or not isinstance(pushes[0].value, Str):
                    chk.undecided_("C12.R1", label, "not exactly one template pushed to out.data")
                    continue
                inc = None
                reset = False
                for e in path.effects:
                    if e.kind == "compound" and e.target == "context.data_counter":
                        v = e.value
                        inc = v.poly if isinstance(v, Num) else None
                        if e.op != "+=":
                            inc = None
                    if e.kind == "assign" and e.target == "context.data_counter":
                        reset = isinstance(e.value, Num) and e.value.poly == {}
                # R2: label insert before increment, bound to DC
                ins = [i for i, e in enumerate(path.effects) if e.kind == "map" and e.target == "context.label_map" and e.op == "insert"]
                incs = [i for i, e in enumerate(path.effects) if e.kind == "compound" and e.target == "context.data_counter"]
                if ins:
                    e = path.effects[ins[0]]
                    lab = e.args[1] if len(e.args) > 1 else None
                    okb = isinstance(lab, Obj) and isinstance(lab.attrs.get("map"), Num) and lab.attrs["map"].poly == {("DC",): 1}
                    before = not incs or ins[0] < incs[0]
                    if not okb:
                        got = lab.attrs.get("map_desc") if isinstance(lab, Obj) else repr(lab)
                        chk.violation("C12.R2", label, "label-not-bound-to-counter", f"{label}: the label is bound to `{got}`, not to the current data counter", where)
                    elif not before:
                        chk.violation("C12.R2", label, "label-bound-after-increment", f"{label}: the label is inserted after the counter was advanced", where)
                    elif "DATA" not in (lab.attrs.get("type") or ""):
                        chk.violation("C12.R2", label, "label-type", f"{label}: the label is not inserted as LabelType::DATA", where)
                    else:
                        chk.ok("C12.R2", label, "label_map.insert(name, DATA, data_counter) precedes the increment")
                for t in pushes[0].value.t:
                    items.append({"label": label, "where": where, "template": t, "inc": rename(inc, cmap), "reset": reset, "nt": nt, "k": k})
    # pair with loader productions
    lines = []
    for it in items:
        insts = instantiate(it["template"], False)
        it["line"] = insts[0][0]
        lines.append(it["line"])
    res = parse_lines(ctx.facts.gram_path("data_parser"), lines) if lines else []
    for it, r in zip(items, res):
        if not r["ok"]:
            chk.undecided_("C12.R1", it["label"], f"`{it['line']}` is rejected by the loader (reported by C10)")
            continue
        top = [x for x in r["reductions"] if x[0] in ("set", "db", "dw")]
        if not top:
            chk.undecided_("C12.R1", it["label"], "loader production not identified")
            continue
        dnt, dk = top[0][0], top[0][1]
        dp = GD.productions(dnt)[dk]
        dmap = canon_map(GD, dp)
        dlabel = GD.prod_label(dnt, dk)
        for path in ED.prod_paths(dnt, dk):
            linc = None
            lreset = False
            stored = {}
            for e in path.effects:
                if e.kind == "compound" and e.target == "*counter" and e.op == "+=":
                    linc = e.value.poly if isinstance(e.value, Num) else None
                if e.kind == "assign" and e.target == "*counter":
                    lreset = isinstance(e.value, Num) and e.value.poly == {}
                if e.kind == "assign" and e.target.startswith("vm.mem"):
                    stored = p_add(stored, p_const(1))
                if e.kind == "loop":
                    n_st = sum(1 for b in e.body if b.kind == "assign" and b.target.startswith("vm.mem"))
                    if n_st:
                        if e.trip is None:
                            stored = None
                            break
                        stored = p_add(stored, p_mul(e.trip, p_const(n_st)))
            linc = rename(linc, dmap)
            stored = rename(stored, dmap) if stored is not None else None
            unit = f"{it['label']} <-> {dlabel}"
            if it["reset"] or lreset:
                if it["reset"] and lreset:
                    chk.ok("C12.R1", unit, "both counters reset to 0")
                else:
                    chk.violation("C12.R1", it["label"], "reset-mismatch", f"{unit}: only one side resets its counter", it["where"])
                continue
            if it["inc"] is None or linc is None or stored is None:
                chk.undecided_("C12.R1", unit, f"increment not a polynomial: assembler {it['inc']}, loader {linc}, stored {stored}")
                continue
            if it["inc"] == linc == stored:
                chk.ok("C12.R1", unit, f"all three = {p_str(linc)}")
            else:
                chk.violation("C12.R1", it["label"], "counters-disagree",
                              f"{unit}: assembler advances its counter by {p_str(it['inc'])}, the loader advances by {p_str(linc)} and stores {p_str(stored)} bytes",
                              it["where"])

    # ---- R3 lanes (V engine on the loader)
    for k, p in enumerate(GD.productions("dw")):
        label = GD.prod_label("dw", k)
        where = f"{GD.g['file']}:{p['line']}"
        names = [s["name"] for s in p["symbols"]]
        if names == ['"dw"', "s_word_num"]:
            for alt in range(len(GD.productions("s_word_num"))):
                def ch(path, n, prods, alt=alt):
                    return alt if n == "s_word_num" else None
                I, st, v, r = run_production(ctx, "data_parser", "dw", k, chooser=ch)
                mem = st.frames[0]["mem"]
                nums = sorted(a for a in I.atoms if a.startswith("num:"))
                cells = list(mem.cells.items())
                if len(cells) != 2 or not nums:
                    chk.undecided_("C12.R3", label, f"{len(cells)} cells, atoms {nums}")
                    continue
                base = Lin.atom("ds").scale(16).add(Lin.atom("counter")).mod(1 << 20)
                good = 0
                for kk, (idx, val) in cells:
                    for lane, want in ((0, base), (1, base.add(Lin(1)).mod(1 << 20))):
                        if idx.aff is not None and lin_equal_witness(idx.aff, want, I.atom_ranges())[0] == "equal":
                            if all(b == ("c", nums[0], lane * 8 + i) for i, b in enumerate(val.bits)):
                                good += 1
                if good == 2:
                    chk.ok("C12.R3", f"{label}#{alt}", "low byte at a, high byte at a+1")
                else:
                    chk.violation("C12.R3", label, "dw-lanes", f"{label}: the word is not stored low byte at (16*DS+counter), high byte at +1", where)
    # ---- R4 overflow
    sites = Sites()
    for nt in ("set_directive", "db_directive", "dw_directive"):
        for k, p in enumerate(GA.productions(nt)):
            try:
                I, st, v, r = run_production(ctx, "preprocessor", nt, k, chooser=num_chooser)
                sites.units += 1
                sites.add_events([e for e in I.events if "__action" in e.fn], GA.prod_label(nt, k))
            except Exception as e:  # noqa
                chk.undecided_("C12.R4", GA.prod_label(nt, k), f"not analysable: {e}")
    for nt in ("set", "db", "dw"):
        for k, p in enumerate(GD.productions(nt)):
            try:
                I, st, v, r = run_production(ctx, "data_parser", nt, k, chooser=num_chooser)
                sites.units += 1
                sites.add_events([e for e in I.events if "__action" in e.fn], GD.prod_label(nt, k))
            except Exception as e:  # noqa
                chk.undecided_("C12.R4", GD.prod_label(nt, k), f"not analysable: {e}")
    for key, info in sorted(sites.sites.items()):
        fn, akind, line = key
        if not akind.startswith("Overflow"):
            continue
        unit = f"{info['context']}:{akind}"
        if info["status"] == "proved":
            chk.ok("C12.R4", unit + f"@{line}", None)
        elif info["status"] in ("definite", "reached"):
            which = "preprocessor" if "preprocessor" in fn else "data_parser"
            chk.violation("C12.R4", info["context"], site_detail(key, info), f"{akind} can fail in the action of `{info['context']}`: a segment's definitions beyond 64 KiB abort (or wrap) instead of being diagnosed",
                          f"{ctx.gram(which).g['file']} (generated action line {line})", info["witness"])
        else:
            chk.undecided_("C12.R4", unit + f"@{line}", f"operands {info['vals']}")

    # ---- R5 driver
    drv = ctx.program.find("bin", "driver::driver::CMDDriver::run")
    if drv is None:
        chk.undecided_("C12.R5", "CMDDriver::run", "driver not found")
    else:
        okv, msg = ds_reset_rule(ctx, drv)
        if okv is None:
            chk.undecided_("C12.R5", "CMDDriver::run", msg)
        elif okv:
            chk.ok("C12.R5", "CMDDriver::run", msg)
        else:
            chk.violation("C12.R5", "CMDDriver::run", "ds-not-reset", msg, drv["span"])

    # ---- R6 offset / label value
    for k, p in enumerate(GA.productions("offset")):
        label = GA.prod_label("offset", k)
        where = f"{GA.g['file']}:{p['line']}"
        oks = []
        for path in EA.prod_paths("offset", k):
            r = path.ret
            if any(e.kind == "error" for e in path.effects):
                continue
            from astev import Res
            if isinstance(r, Res) and isinstance(r.ok, Num):
                casts = [e for e in path.effects if e.kind == "cast"]
                okc = r.ok.poly == {("label.map",): 1} and all(c.to in ("u16", "usize") for c in casts)
                oks.append(okc)
        if oks and all(oks):
            chk.ok("C12.R6", label, "returns label.map as u16, unmodified")
        elif oks:
            chk.violation("C12.R6", label, "offset-value", f"{label}: OFFSET does not return the label's bound value unmodified", where)
        else:
            chk.undecided_("C12.R6", label, "no successful path with a numeric result")
    # data counter is u16, label map derives from it (range hint used by C04/C09)
    cadt = ctx.program.find_adt("util::preprocessor_util::Context")
    if cadt:
        ty = dict(cadt["variants"][0]["fields"]).get("data_counter")
        if ty == "u16":
            chk.ok("C12.R6", "Context.data_counter", "u16: DATA label offsets are <= 65535")
        else:
            chk.violation("C12.R6", "Context.data_counter", "counter-type", f"data_counter has type {ty}; the interpreter-side analyses assume label offsets <= 65535", "src/lib/util/preprocessor_util.rs")
    GI = ctx.gram("interpreter")
    for nt in ("byte_label", "word_label"):
        chk.ok("C12.R6", f"interpreter {nt}", "address form (16*DS + label.map) mod 2^20 verified by C04.R7", nontrivial=False)


def ds_reset_rule(ctx, drv):
    cfg = M.CFG(drv)
    pb, pt = find_parse_call(drv, "Interpreter::parse")
    db_, dt = find_parse_call(drv, "DataParser::parse")
    if pb is None or db_ is None:
        return None, "parse calls not found"
    cands = []
    for bi, bb in enumerate(drv["blocks"]):
        for s in bb["stmts"]:
            if s[0] == "assign" and s[1]["p"] and s[1]["p"][-1][0] == "f" and s[1]["p"][-1][2] == "ds" and s[2][0] == "use" and s[2][1][0] == "const" and s[2][1][1].get("val") == 0:
                cands.append(bi)
    if not cands:
        return False, "no assignment `vm.arch.ds = 0` exists in the driver: a SET directive leaves DS at the last data segment when execution starts"
    for b in cands:
        if cfg.dominates(b, pb) and db_ not in cfg.reachable_from(b):
            return True, f"bb{b} assigns DS := 0, dominates the first Interpreter::parse and no DataParser::parse follows it"
    return False, "the assignment DS := 0 does not lie on every path between the data loading loop and the first executed instruction"
