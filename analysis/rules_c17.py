"""C17 — print reg / flags / mem show the true machine state and never change it.

Engine A (format-literal pairing on the action ASTs of print.lalrpop), engine M/V (resolved field
sequence of the same actions in MIR, abstract run of the three `print mem` productions: range ends
as affine forms, every memory index proved < 2^20), engine T (the printer only ever gets &VM)."""
import re
import mir as M
from units import run_production
from cfgtools import Defs, origin
from driver_rules import state_switch, find_parse_call, idx_local

EXPL = (
    "R1 label <-> value pairing: every print!/println! literal of the `print reg` and `print flags` actions is split into "
    "(label, placeholder) pairs and each placeholder is paired, by position, with its argument expression: the label must "
    "name the register the argument reads (AX <-> vm.arch.ax ...; all 12 visible registers present) or the flag whose "
    "Flags:: variant initialises the argument variable (OF <-> Flags::OVERFLOW ...; all 9 present); register placeholders "
    "are {:04X}, memory bytes {:02X}, flags print a bool cast to an integer. The syntactic argument list is cross-checked "
    "against the compiler's resolution: the sequence of (*vm).arch.<field> borrows in the MIR of the same action. "
    "R2 immutability (type facts): the print grammar's parameter, PrintParser::parse, user_interface take &VM; no call in the "
    "print actions receives a mutable borrow. R3 ranges: abstract run of the three `print mem` productions with free numerals "
    "and registers: the iterated range is RangeInclusive(start, end) with start/end in closed form (a -> b: the two numbers; "
    "a : n: a and a+n; : n: 16*DS and 16*DS+n), every vm.mem index is PROVED < 2^20 (so a backwards or overflowing range is "
    "diverted before the loop), and raw_addr yields a value < 2^20. R4 one grammar: the PRINT arm of the driver and the prompt "
    "call the same PrintParser::parse on the same parser object, with the executing instruction's own text. R5 assembler side: "
    "`print mem a : n` is rejected when a+n >= 2^20, the emitted templates keep operand order. R6 row layout as a finite-state "
    "fact: evaluating the column-counter expressions of the AST over their 16 states, the newline is emitted exactly after "
    "every 16th byte and the counter returns to 0. NOT decided: the text of diagnostics."
)

REG_FIELDS = ["ax", "bx", "cx", "dx", "sp", "bp", "si", "di", "cs", "ds", "ss", "es"]
FLAG_LABELS = {"OF": "OVERFLOW", "DF": "DIRECTION", "IF": "INTERRUPT", "TF": "TRAP", "SF": "SIGN", "ZF": "ZERO", "AF": "AUX_CARRY", "PF": "PARITY", "CF": "CARRY"}
PH = re.compile(r"\{([^{}]*)\}")


def walk(node, f):
    if isinstance(node, dict):
        f(node)
        for v in node.values():
            walk(v, f)
    elif isinstance(node, list):
        for v in node:
            walk(v, f)


def macros(ast, names=("print", "println")):
    out = []
    walk(ast, lambda n: out.append(n) if n.get("k") == "macro" and n.get("name") in names else None)
    return out


def split_literal(lit):
    """[(label text before the placeholder, spec)]"""
    pairs = []
    pos = 0
    for m in PH.finditer(lit):
        pairs.append((lit[pos:m.start()], m.group(1)))
        pos = m.end()
    return pairs, lit[pos:]


def label_of(text):
    ws = re.findall(r"[A-Za-z]+", text)
    ws = [w for w in ws if w.lower() != "x" and w != "0x"]
    return ws[-1] if ws else None


def field_path(e):
    """vm.arch.ax -> ['vm','arch','ax']"""
    p = []
    while isinstance(e, dict) and e.get("k") == "field":
        p.append(e["m"])
        e = e["e"]
    if isinstance(e, dict) and e.get("k") == "path":
        p.extend(reversed(e["segs"]))
        return list(reversed(p))
    return None


def eval_int(e, env):
    k = e.get("k")
    if k == "lit" and e.get("ty") == "int":
        return e["v"]
    if k == "path" and len(e["segs"]) == 1 and e["segs"][0] in env:
        return env[e["segs"][0]]
    if k == "paren":
        return eval_int(e["e"], env)
    if k == "bin":
        a, b = eval_int(e["l"], env), eval_int(e["r"], env)
        if a is None or b is None:
            return None
        op = e["op"]
        if op == "+":
            return a + b
        if op == "-":
            return a - b
        if op == "%":
            return a % b if b else None
        if op == "==":
            return int(a == b)
        if op == "!=":
            return int(a != b)
    return None


def run(ctx, chk):
    chk.explanation = EXPL
    P = ctx.program
    G = ctx.gram("print")
    chk.rule("C17.R1", "each printed label names the register/flag whose value follows it, in the documented format", floor=12)
    chk.rule("C17.R2", "printing can only read the machine", floor=4)
    chk.rule("C17.R3", "memory ranges: closed forms of start/end, every index < 2^20", floor=10)
    chk.rule("C17.R4", "program statement and prompt use the same print parser", floor=2)
    chk.rule("C17.R5", "assembler validates and forwards print statements unchanged", floor=3)
    chk.rule("C17.R6", "16 bytes per row (finite-state column counter)", floor=3)
    file = G.g["file"]
    def flatten(nt, prefix=(), depth=0):
        """the print commands as (keyword sequence, nonterminal owning the action, index, production): alternatives that
        only hand on the value of one sub-nonterminal (`Print = "print" <PrintTarget>`, `Print = { print_reg, .. }`)
        are replaced by that nonterminal's alternatives, their keywords appended"""
        out = []
        for k, p in enumerate(G.productions(nt)):
            terms = tuple(s["name"].strip('"') for s in p["symbols"] if s["t"] == "term")
            nts_ = [(i, s["name"]) for i, s in enumerate(p["symbols"]) if s["t"] == "nt"]
            ua = G.main_user_action(p["action"])
            names_ = ua.get("arg_names") or []
            passes = len(nts_) == 1 and depth < 3 and nts_[0][1] in G.nts and G.nts[nts_[0][1]].get("type") == G.nts[nt].get("type") and (
                ua.get("kind") != "user" or (nts_[0][0] < len(names_) and (ua.get("code") or "").strip() == names_[nts_[0][0]])
                or (G.nts[nt].get("type") == "()" and (ua.get("code") or "").strip() in ("()", "")))
            if passes:
                out.extend(flatten(nts_[0][1], prefix + terms, depth + 1))
            else:
                out.append((prefix + terms, nt, k, p))
        return out
    flat = flatten("Print")
    prods = flat
    by_terms = {}
    for terms, pnt, k, p in flat:
        by_terms[terms] = (pnt, k, p)
    # ---------------- R1 registers
    def action_of(p):
        return G.main_user_action(p["action"])

    def mir_register_borrows(fn):
        """sequence of registers whose address is taken in the action, resolved through local reference aliases
        (`let arch = &vm.arch; ... arch.ax`): [(field name, borrowed mutably?)]"""
        alias = {}  # local -> (root local, [field names])
        for l in range(1, fn["argc"] + 1):
            alias[l] = (l, [])
        seq = []
        changed = True
        stmts = [s_ for bb in fn["blocks"] if not bb.get("cleanup") for s_ in bb["stmts"] if s_[0] == "assign"]
        while changed:
            changed = False
            for s_ in stmts:
                rv = s_[2]
                src = None
                if rv[0] == "ref":
                    src = rv[1]
                elif rv[0] == "use" and rv[1][0] in ("copy", "move"):
                    src = rv[1][1]
                if src is None or s_[1]["p"] or s_[1]["l"] in alias or src["l"] not in alias:
                    continue
                root, path = alias[src["l"]]
                alias[s_[1]["l"]] = (root, path + [e[2] for e in src["p"] if isinstance(e, list) and e[0] == "f"])
                changed = True
        for s_ in stmts:
            rv = s_[2]
            if rv[0] != "ref" or rv[1]["l"] not in alias:
                continue
            root, path = alias[rv[1]["l"]]
            full = path + [e[2] for e in rv[1]["p"] if isinstance(e, list) and e[0] == "f"]
            if "VM" in fn["locals"][root]["ty"] and len(full) == 2 and full[0] == "arch" and rv[1].get("ty", "").endswith("u16"):
                seq.append((full[1], rv[2] == "mut"))
        return seq

    kp = by_terms.get(("print", "reg"))
    if kp is not None:
        kp = (kp[1], kp[2])
    if kp is None:
        chk.violation("C17.R1", "print reg", "missing", "the print grammar has no `print reg` production", file)
    else:
        k, p = kp
        ua = action_of(p)
        where = f"{file}:{p['line']}"
        fn = G.action_fn(ua["idx"])
        seq = mir_register_borrows(fn) if fn is not None else []
        for reg, mut in seq:
            if mut:
                chk.violation("C17.R2", "print reg", f"mut-borrow-{reg}", "a register is borrowed mutably while printing", where)
        seq = [r for r, _ in seq]
        seen = []
        pairs_all = []
        ast_fields = []
        for mc in macros(ua["ast"]):
            if not mc["args"]:
                continue
            lit = mc["args"][0]
            if lit.get("k") != "lit" or lit.get("ty") != "str":
                chk.undecided_("C17.R1", f"print reg@{mc.get('line')}", "format string is not a literal")
                continue
            pairs, tail = split_literal(lit["v"])
            args = mc["args"][1:]
            if len(pairs) != len(args):
                chk.undecided_("C17.R1", f"print reg@{mc.get('line')}", "placeholder/argument count differs (named or positional arguments)")
                continue
            for (text, spec), a in zip(pairs, args):
                pairs_all.append((label_of(text), spec))
                fp = field_path(a)
                ast_fields.append(fp[-1] if fp else None)
        # the argument of the i-th placeholder is the i-th register the compiler borrows for formatting
        if len(seq) != len(pairs_all):
            chk.undecided_("C17.R1", "print reg", f"{len(pairs_all)} placeholders but {len(seq)} register borrows in the compiled action")
        else:
            for (lab, spec), reg, af in zip(pairs_all, seq, ast_fields):
                seen.append(reg)
                if af is not None and af != reg:
                    chk.violation("C17.R1", "print reg", "resolution-mismatch", f"the action text reads `{af}` where the compiler borrows {reg}", where)
                elif lab is None or lab.lower() != reg:
                    chk.violation("C17.R1", "print reg", f"label-{lab}-shows-{reg}", f"`print reg` prints the value of {reg.upper()} under the label {lab}", where)
                elif spec != ":04X":
                    chk.violation("C17.R1", "print reg", f"format-{reg}-{spec}", f"{reg.upper()} is printed with '{{{spec}}}', documented: four upper-case hex digits ({{:04X}})", where)
                else:
                    chk.ok("C17.R1", f"reg:{reg}", f"{lab} <- (*vm).arch.{reg} as {{{spec}}}")
            for r in REG_FIELDS:
                if r not in seen:
                    chk.violation("C17.R1", "print reg", f"missing-{r}", f"`print reg` does not show {r.upper()}", where)
            chk.ok("C17.R1", "reg:resolution", f"placeholders paired with the compiler's borrow sequence (*vm).arch.{{{','.join(seq)}}}")
    # ---------------- R1 flags
    kp = by_terms.get(("print", "flags"))
    if kp is not None:
        kp = (kp[1], kp[2])
    if kp is None:
        chk.violation("C17.R1", "print flags", "missing", "the print grammar has no `print flags` production", file)
    else:
        k, p = kp
        ua = action_of(p)
        where = f"{file}:{p['line']}"
        inits = {}

        def loc(n):
            if n.get("k") == "local" and n.get("pat", {}).get("k") == "ident" and n.get("init"):
                inits[n["pat"]["name"]] = n["init"]
        walk(ua["ast"], loc)

        def resolve(e, env, depth=0):
            """see through casts, parentheses, borrows, single-expression blocks, and names bound by `let` or by a
            closure parameter (env)"""
            while depth < 12:
                depth += 1
                k = e.get("k")
                if k in ("cast", "paren"):
                    e = e["e"]
                elif k == "ref":
                    e = e["e"]
                elif k == "un" and e.get("op") == "*":
                    e = e["e"]
                elif k == "block" and len(e.get("stmts", [])) == 1 and e["stmts"][0].get("k") == "expr":
                    e = e["stmts"][0]["e"]
                elif k == "path" and len(e["segs"]) == 1 and e["segs"][0] in env:
                    e = env[e["segs"][0]]
                elif k == "path" and len(e["segs"]) == 1 and e["segs"][0] in inits:
                    e = inits[e["segs"][0]]
                else:
                    break
            return e

        def flag_of(e, env=None, depth=0):
            """Flags variant an expression reads: get_flag_state(vm.arch.flag, Flags::X) [as T], written in place, through
            `let` names, or through a local closure applied to the variant"""
            env = env or {}
            if depth > 6:
                return None
            e = resolve(e, env)
            if e.get("k") == "call" and e["f"].get("k") == "path" and e["f"]["segs"][-1] == "get_flag_state" and len(e["args"]) == 2:
                src = field_path(resolve(e["args"][0], env))
                fl = resolve(e["args"][1], env)
                if fl.get("k") == "path" and len(fl["segs"]) == 2 and fl["segs"][0] == "Flags":
                    return fl["segs"][1], src
                return None
            if e.get("k") == "call" and e["f"].get("k") == "path" and len(e["f"]["segs"]) == 1:
                c = resolve(e["f"], env)
                if c.get("k") == "closure" and len(c.get("params") or []) == len(e["args"]):
                    env2 = dict(env)
                    for pat, a in zip(c["params"], e["args"]):
                        if pat.get("k") == "ident":
                            env2[pat["name"]] = resolve(a, env)
                        else:
                            return None
                    return flag_of(c["body"], env2, depth + 1)
            return None

        seen = []
        flags_undecided = []
        for mc in macros(ua["ast"]):
            if not mc["args"] or mc["args"][0].get("k") != "lit":
                continue
            pairs, tail = split_literal(mc["args"][0]["v"])
            args = mc["args"][1:]
            if len(pairs) != len(args):
                flags_undecided.append("?")
                chk.undecided_("C17.R1", f"print flags@{mc.get('line')}", "placeholder/argument count differs")
                continue
            for (text, spec), a in zip(pairs, args):
                lab = label_of(text)
                fo = flag_of(a)
                if fo is None:
                    chk.undecided_("C17.R1", f"flag:{lab}", "argument not traced to get_flag_state")
                    flags_undecided.append(lab)
                    continue
                variant, src = fo
                seen.append(variant)
                want = FLAG_LABELS.get(lab or "")
                if want is None:
                    chk.violation("C17.R1", "print flags", f"label-{lab}", f"unknown flag label {lab}", where)
                elif want != variant:
                    chk.violation("C17.R1", "print flags", f"label-{lab}-shows-{variant}", f"`print flags` prints Flags::{variant} under the label {lab}", where)
                elif src != ["vm", "arch", "flag"]:
                    chk.violation("C17.R1", "print flags", f"source-{lab}", f"{lab} is not read from the machine's current flag word ({src})", where)
                elif spec not in ("", ":}", ":1"):
                    chk.violation("C17.R1", "print flags", f"format-{lab}-{spec}", f"{lab} is printed with '{{{spec}}}' instead of a plain 0/1", where)
                else:
                    chk.ok("C17.R1", f"flag:{lab}", f"{lab} <- get_flag_state(vm.arch.flag, Flags::{variant}) as integer")
        untraced = any(u.get("rule") == "C17.R1" and str(u.get("unit", "")).startswith("flag:") for u in getattr(chk, "undecided", []) if isinstance(u, dict))
        for lab, v in FLAG_LABELS.items():
            if v not in seen and not untraced and not flags_undecided:
                chk.violation("C17.R1", "print flags", f"missing-{lab}", f"`print flags` does not show {lab}", where)
        # the variable must be an integer cast of the bool (prints 0/1, not true/false)
        for name, init in inits.items():
            fo = flag_of(init)
            if fo and init.get("k") != "cast":
                chk.violation("C17.R1", "print flags", f"bool-{name}", f"{name} is printed as a bool (true/false), documented 0/1", where)
    # memory byte format
    for terms, (pnt, k, p) in by_terms.items():
        if terms[:2] != ("print", "mem"):
            continue
        ua = action_of(p)
        label = G.prod_label(pnt, k)
        from asm import action_and_helper_asts
        for mc in [m_ for ast_ in action_and_helper_asts(G, p) for m_ in macros(ast_)]:
            if len(mc.get("args") or []) == 2 and mc["args"][1].get("k") == "index":
                pairs, _ = split_literal(mc["args"][0].get("v", ""))
                base = field_path(mc["args"][1]["e"])
                if pairs and pairs[0][1] == ":02X" and base == ["vm", "mem"]:
                    chk.ok("C17.R1", f"mem-byte:{label}", "vm.mem[i] as {:02X}")
                else:
                    chk.violation("C17.R1", label, f"byte-format-{pairs[0][1] if pairs else '?'}", f"memory bytes are printed as {pairs} of {base}", f"{file}:{p['line']}")
    # ---------------- R2
    params = G.g["params"]
    vm_param = [q for q in params if "VM" in str(q)]
    if vm_param and "&mut" not in str(vm_param[0]).replace(" ", "") and "&" in str(vm_param[0]):
        chk.ok("C17.R2", "grammar-parameter", f"{vm_param[0]}")
    else:
        chk.violation("C17.R2", "print grammar", "parameter-mutable", f"the print grammar's machine parameter is {vm_param}", file)
    sigs = {s["name"]: s for s in ctx.facts.mir("bin")["sigs"]}
    for name in ("driver::print::__parse__Print::PrintParser::parse", "driver::user_interface::user_interface"):
        s = sigs.get(name)
        vm_args = [t for t in (s["inputs"] if s else []) if t.endswith("VM")]
        short = "PrintParser::parse" if "Parser" in name else name.split("::")[-1]
        if s and vm_args and all(t.startswith("&") and not t.startswith("&mut") and " mut " not in t for t in vm_args):
            chk.ok("C17.R2", f"sig:{short}", vm_args[0])
        else:
            chk.violation("C17.R2", short, "machine-passed-mutably", f"{name} takes {vm_args}", name)
    nmut = 0
    for a in G.actions:
        if a["kind"] != "user":
            continue
        fn = G.action_fn(a["idx"])
        if fn is None:
            continue
        for bb in fn["blocks"]:
            for s in bb["stmts"]:
                if s[0] == "assign" and s[2][0] in ("ref", "rawptr") and (s[2][0] == "rawptr" or s[2][2] == "mut"):
                    base = s[2][1]["l"]
                    if 1 <= base <= fn["argc"] and "VM" in fn["locals"][base]["ty"]:
                        nmut += 1
                        chk.violation("C17.R2", f"__action{a['idx']}", "mut-borrow-of-machine", "a print action borrows the machine mutably / takes a raw pointer into it", f"{file}")
    if nmut == 0:
        chk.ok("C17.R2", "actions:no-mut-borrow", "no print action borrows the machine mutably or takes a raw pointer into it")
    # ---------------- R3
    for terms, want in ((("print", "mem", "->"), "a->b"), (("print", "mem", ":"), None)):
        pass
    for terms, pnt, k, p in prods:
        if terms[:2] != ("print", "mem"):
            continue
        label = G.prod_label(pnt, k)
        where = f"{file}:{p['line']}"
        nts = [s for s in p["symbols"] if s["t"] != "term"]
        I, st, v, r = run_production(ctx, "print", pnt, k)
        ranges = [e for e in I.events if e.kind == "call" and (e.fref.get("def") or "").endswith("RangeInclusive::<Idx>::new")]
        plain = [e for e in I.events if e.kind == "call" and "Range<" in (e.fref.get("inst") or "") and (e.fref.get("def") or "").endswith("into_iter")]
        excl = [e for e in I.events if e.kind == "call" and (e.fref.get("inst") or "").startswith("<std::ops::Range<") and (e.fref.get("inst") or "").endswith("into_iter")
                and e.args and e.args[0].kind == "agg" and len(e.args[0].fields) == 2]
        if len(ranges) + len(excl) != 1:
            chk.undecided_("C17.R3", label, f"{len(ranges)} inclusive / {len(excl)} exclusive ranges constructed: form not recognised")
        else:
            if ranges:
                s_, e_ = ranges[0].args
                minus = ""
            else:
                s_, e_ = excl[0].args[0].fields
                minus = "x"  # half-open: the last byte printed is end-1
            sa = s_.aff.pretty() if s_.kind == "int" and s_.aff is not None else None
            ea = None
            if e_.kind == "int" and e_.aff is not None:
                from domains import Lin
                ea = (e_.aff.sub(Lin(1)) if minus else e_.aff).pretty()
            nums = sorted(a for a in I.atoms if a.startswith("num:"))
            form = None
            if "->" in terms and len(nums) == 2:
                form = (f"(({nums[0]}) mod 2^20)", f"(({nums[1]}) mod 2^20)")
                doc = "a -> b: bytes a..=b"
            elif ":" in terms and len(nums) == 2:
                form = (f"(({nums[0]}) mod 2^20)", f"(({nums[0]}) mod 2^20) + (({nums[1]}) mod 2^20)")
                doc = "a : n: bytes a..=a+n"
            elif ":" in terms and len(nums) == 1:
                form = ("16*ds", f"16*ds + (({nums[0]}) mod 2^20)")
                doc = ": n: bytes 16*DS..=16*DS+n"
            # the last byte printed is the (inclusive) end of the range: it must lie inside the 1 MB space on the
            # path that reaches the loop (a range that leaves the space has to be diverted before)
            last = e_
            off = 0 if ranges else 1  # half-open: the last byte printed is end-1
            if last is not None and last.kind == "int":
                if last.hi - off <= (1 << 20) - 1:
                    chk.ok("C17.R3", f"{label}:end-in-space", f"range end <= {last.hi - off:#x} on the printing path")
                elif last.exact and any(frozenset((p_, q_)) in st.corr for p_ in last.lineage for q_ in last.lineage if p_ != q_):
                    # the operands the end was computed from were compared with each other afterwards (e.g. `n >= MB - a`):
                    # the interval of the sum, taken before that test, says nothing about the printing path
                    chk.undecided_("C17.R3", f"{label}:end-in-space", "the range end's operands are related by a later test; intervals cannot bound it")
                elif last.exact:
                    chk.violation("C17.R3", label, "range-end-can-leave-1MB",
                                  f"{label}: the printing loop is reached with an inclusive end of up to {last.hi:#x} (attainable): the guard before the loop lets a range through "
                                  f"whose last byte is outside the 1 MB space (index out of bounds instead of a diagnostic)", where,
                                  f"end = {last.aff.pretty() if last.aff is not None else '?'} = {last.hi:#x}")
                else:
                    chk.undecided_("C17.R3", f"{label}:end-in-space", f"range end interval [{last.lo},{last.hi}] not exact")
            if form is None or sa is None or ea is None:
                chk.undecided_("C17.R3", label, f"range ends {sa} / {ea} have no closed form")
            elif (sa, ea) == form:
                chk.ok("C17.R3", f"{label}:range", f"{doc}  [{sa} ..= {ea}]")
            else:
                chk.violation("C17.R3", label, f"range:{sa}..={ea}", f"{label} prints {sa} ..= {ea}; documented {doc} = {form[0]} ..= {form[1]}", where)
        # the smallest documented range (one byte: `a -> a`, `a : 0`, `: 0`) is printed, not refused: the same abstract
        # run restricted to that sub-case of the numerals must still construct the range and read memory
        nums_ = sorted(a for a in I.atoms if a.startswith("num:"))
        if nums_ and len(ranges) + len(excl) == 1:
            if "->" in terms and len(nums_) == 2:
                hints = {nums_[0]: (3, 3), nums_[1]: (3, 3)}
                what = "a -> a"
            elif len(nums_) == 2:
                hints = {nums_[0]: (3, 3), nums_[1]: (0, 0)}
                what = "a : 0"
            else:
                hints = {nums_[0]: (0, 0)}
                what = ": 0"
            try:
                I1, st1, v1, r1 = run_production(ctx, "print", pnt, k, hints=hints)
                rng1 = [e for e in I1.events if e.kind == "call" and ((e.fref.get("def") or "").endswith("RangeInclusive::<Idx>::new")
                        or ((e.fref.get("inst") or "").startswith("<std::ops::Range<") and (e.fref.get("inst") or "").endswith("into_iter")))]
                reads1 = [e for e in I1.events if e.kind == "assert" and e.akind == "BoundsCheck"]
                if not rng1 and not reads1:
                    chk.violation("C17.R3", label, "one-byte-range-refused",
                                  f"{label}: with the numerals fixed to the one-byte range `{what}` the action never reaches the printing loop: the guard before the loop "
                                  f"refuses a range whose first and last byte coincide, so the byte is not shown", where, f"print mem {what}")
                elif rng1 and reads1:
                    chk.ok("C17.R3", f"{label}:one-byte-range", f"`{what}` reaches the printing loop")
                else:
                    chk.undecided_("C17.R3", f"{label}:one-byte-range", "range constructed but no memory read seen (or the reverse) in the restricted run")
            except Unsupported as ex:
                chk.undecided_("C17.R3", f"{label}:one-byte-range", str(ex))
        # indices
        worst = {}
        for e in I.events:
            if e.kind == "assert" and e.akind == "BoundsCheck":
                rank = {"proved": 0, "possible": 1, "definite": 2, "reached": 2}[e.status]
                if e.line not in worst or rank > worst[e.line][0]:
                    worst[e.line] = (rank, e)
        if not worst:
            chk.undecided_("C17.R3", f"{label}:index", "no memory index seen")
        for line, (rank, e) in worst.items():
            if rank == 0:
                chk.ok("C17.R3", f"{label}:index@{line}", "vm.mem index proved < 2^20 on every path (backwards/overflowing ranges are diverted before the loop)")
            elif rank == 2:
                chk.violation("C17.R3", label, "index-out-of-range", f"{label}: vm.mem index can reach 2^20: {e.witness}", where, e.witness)
            else:
                chk.undecided_("C17.R3", f"{label}:index@{line}", "interval domain cannot bound the index")
        # rejecting branch present: some path of the action prints/returns Err without reading memory -> visible as a
        # refinement: the range end is < 2^20 although start+offset is not
        if v is None and not st.dead:
            pass
    # raw_addr
    # the address nonterminal: whichever nonterminal the `print mem` commands take their numbers from
    addr_nts = sorted({s["name"] for terms, pnt, k, p in prods if terms[:2] == ("print", "mem") for s in p["symbols"] if s["t"] == "nt"})
    addr_nt = addr_nts[0] if len(addr_nts) == 1 else "raw_addr"
    for k, p in enumerate(G.productions(addr_nt) if addr_nt in G.nts else []):
        I, st, v, r = run_production(ctx, "print", addr_nt, k)
        if v is not None and v.kind == "int" and v.lo >= 0 and v.hi < (1 << 20):
            chk.ok("C17.R3", f"raw_addr#{k}", f"value in [{v.lo},{v.hi}]")
        else:
            chk.violation("C17.R3", "raw_addr", "not-below-1MB", f"raw_addr can yield {v!r}", f"{file}:{p['line']}")
    # ---------------- R4
    drv = P.find("bin", "driver::driver::CMDDriver::run")
    ui = P.find("bin", "driver::user_interface::user_interface")
    if drv is None or ui is None:
        chk.undecided_("C17.R4", "driver", "driver or prompt not found")
    else:
        dd = Defs(drv)
        pcalls = [(bi, t) for bi, t in M.calls_in(drv) if (t[1].get("def") or "").endswith("PrintParser::parse")]
        ucalls = [(bi, t) for bi, t in M.calls_in(drv) if (t[1].get("def") or "").endswith("user_interface")]
        uparse = [(bi, t) for bi, t in M.calls_in(ui) if (t[1].get("def") or "").endswith("PrintParser::parse")]
        wd = drv["span"].rsplit(":", 2)[0]
        if not pcalls:
            chk.violation("C17.R4", "CMDDriver::run", "print-arm-missing", "the driver never runs the print parser for State::PRINT", wd)
        if not uparse:
            chk.violation("C17.R4", "user_interface", "prompt-print-missing", "the prompt never runs the print parser", ui["span"])
        objs = set()
        for bi, t in pcalls:
            o = origin(dd, t[2][0])
            objs.add(("obj", o[1]) if o[0] == "multi" else (o[0], str(o[1])[:40]))
        for bi, t in ucalls:
            o = origin(dd, t[2][1]) if len(t[2]) > 1 else ("none",)
            objs.add(("obj", o[1]) if o[0] == "multi" else (o[0], str(o[1])[:40]))
        if pcalls and ucalls and len(objs) == 1:
            chk.ok("C17.R4", "same-parser-object", f"the PRINT arm and {len(ucalls)} prompt call(s) use the same PrintParser local")
        elif pcalls and ucalls:
            chk.violation("C17.R4", "CMDDriver::run", "different-parser-objects", f"PRINT arm and prompt use different parser objects: {sorted(objs)}", wd)
        # the PRINT arm prints the executing instruction's own text: out.code[idx]
        idx = idx_local(drv)
        for bi, t in pcalls:
            o = origin(dd, t[2][2], through_calls=("Deref>::deref",))
            ok_ = False
            if o[0] == "call" and "Index" in (o[1][1].get("def") or "") and len(o[1][2]) == 2:
                io = origin(dd, o[1][2][1])
                ok_ = (io[0] == "multi" and io[1] == idx)
            if ok_:
                chk.ok("C17.R4", f"print-arm@bb{bi}", "print parser is given out.code[idx] of the executing index")
            else:
                chk.violation("C17.R4", "CMDDriver::run", "print-arm-other-text", "the PRINT arm hands the print parser something other than out.code[idx]", wd)
    # ---------------- R5 (assembler)
    try:
        from asm import GramEval
        from astev import tmpl_str
        GA = ctx.gram("preprocessor")
        E = GramEval(GA)
        for k, p in enumerate(GA.productions("print_stmt")):
            label = GA.prod_label("print_stmt", k)
            ua = GA.main_user_action(p["action"])
            paths = [q for q in E.prod_paths("print_stmt", k) if getattr(q, "action", None) == ua.get("idx")]
            pushes = [e for q in paths for e in q.effects if e.kind == "push" and e.target == "out.code"]
            if not pushes:
                chk.undecided_("C17.R5", label, "no emission seen")
                continue
            syms = [s["name"] for s in p["symbols"]]
            if ":" in [s.strip('"') for s in syms] and syms.count("raw_addr") == 2:
                guarded = [q for q in paths if any(e.kind == "push" for e in q.effects)]
                conds = [c for q in guarded for c in q.conds]
                cmpc = [c for c in conds if re.search(r"<|>", c[0]) and "matches" not in c[0]]
                if any(("MB" in c[0] and ">=" in c[0] and not c[1]) or ("MB" in c[0] and "<" in c[0] and c[1]) for c in conds):
                    chk.ok("C17.R5", f"{label}:range-check", "emitted only when s+e < MB; otherwise error!")
                elif cmpc:
                    # some other comparison guards the emission: whether it is the right bound is decided on values (R3)
                    chk.ok("C17.R5", f"{label}:range-check", f"emitted only under `{cmpc[0][0][:40]}`; the bound itself is R3's question", nontrivial=False)
                elif not any(any(e.kind == "error" for e in q.effects) for q in paths):
                    chk.violation("C17.R5", label, "no-range-check", f"{label}: a : n is emitted without testing a+n against the 1 MB space", f"{GA.g['file']}:{p['line']}")
                else:
                    chk.undecided_("C17.R5", f"{label}:range-check", "the emission is not visibly guarded by a comparison")
            else:
                chk.ok("C17.R5", f"{label}:emits", "forwarded (template checked by C10/C11)", nontrivial=False)
    except Exception as e:  # noqa
        chk.undecided_("C17.R5", "print_stmt", f"{type(e).__name__}: {e}")
    # ---------------- R6 row layout
    for terms, pnt, k, p in prods:
        if terms[:2] != ("print", "mem"):
            continue
        label = G.prod_label(pnt, k)
        ua = action_of(p)
        loops = []
        from asm import action_and_helper_asts
        for ast_ in action_and_helper_asts(G, p):
            walk(ast_, lambda n: loops.append(n) if n.get("k") == "for" else None)
        if len(loops) != 1:
            chk.undecided_("C17.R6", label, "loop not found")
            continue
        body = loops[0]["body"]["stmts"]
        # column counter: variable assigned in the body
        assigns = [s["e"] for s in body if s.get("k") == "expr" and s["e"].get("k") == "assign" and s["e"]["l"].get("k") == "path"]
        ifs = [s["e"] for s in body if s.get("k") == "expr" and s["e"].get("k") == "if"]
        nl_if = [i for i in ifs if any(m["name"] == "println" for m in macros(i["then"]))]
        if len(assigns) > 1 or len(nl_if) != 1:
            chk.undecided_("C17.R6", label, "column counter / newline branch not recognised")
            continue
        # the row layout as a finite-state fact, for several start addresses: the loop variable is start+step, the column
        # counter (if there is one) follows its own assignment.  The newline must come after every 16th byte *of the range*,
        # whatever the address of its first byte.
        var = assigns[0]["l"]["segs"][0] if assigns else None
        pat_ = loops[0].get("pat") or {}
        iv = pat_.get("name") if pat_.get("k") == "ident" else None
        it_ = loops[0].get("iter") or {}
        lo_ = it_.get("lo") if it_.get("k") == "range" else None
        lo_name = lo_["segs"][0] if lo_ and lo_.get("k") == "path" and len(lo_["segs"]) == 1 else None
        results = {}
        for start in (0, 1, 7, 15, 16, 0x123):
            state = 0
            newline_at = []
            seen_states = set()
            for step in range(64):
                env = {}
                if var:
                    env[var] = state
                if iv:
                    env[iv] = start + step
                if lo_name:
                    env[lo_name] = start
                c = eval_int(nl_if[0]["cond"], env)
                nxt = eval_int(assigns[0]["r"], env) if assigns else 0
                if c is None or nxt is None:
                    newline_at = None
                    break
                if c:
                    newline_at.append(step + 1)
                seen_states.add(state)
                state = nxt
            results[start] = newline_at
        if any(v is None for v in results.values()):
            chk.undecided_("C17.R6", label, "counter expressions not evaluable")
        elif all(v == [16, 32, 48, 64] for v in results.values()):
            chk.ok("C17.R6", label, f"newline after bytes 16, 32, 48..: 16 per row for start addresses {sorted(results)}")
        elif results[0] == [16, 32, 48, 64]:
            bad = next(st_ for st_, v in sorted(results.items()) if v != [16, 32, 48, 64])
            chk.violation("C17.R6", label, "row-break-depends-on-address",
                          f"{label}: rows are broken by the address, not by the number of bytes shown: a range starting at {bad} gets its newlines after bytes {results[bad][:3]} "
                          f"instead of after every 16th", f"{file}:{p['line']}", f"print mem {bad} -> {bad + 40}")
        else:
            chk.violation("C17.R6", label, f"row-length:{results[0][:3]}", f"{label}: newline is emitted after bytes {results[0][:4]} instead of every 16th", f"{file}:{p['line']}")
