"""Symbolic-term dataflow over the MIR of one function (engine P, value part).

A forward dataflow whose abstract value per local is a *term*: an expression tree over the values the locals had
at the start block ("init"), constants, results of calls (identified by their block), field/variant projections
and arithmetic.  At a join two different terms become ("phi", block, local), so the analysis is a fixpoint
computation (loops inside the region stabilise after the phi is introduced), not a path enumeration.  An edge
filter lets a caller specialise a region to one outcome of a test (e.g. "the State is JMP"): switches whose
scrutinee term the filter decides follow one edge only.

The terms are compared structurally by the rules ("the value of idx at the loop head is idx+1 / the payload of
JMP / unchanged"), so a rule written on terms is independent of how the source spells the update
(`idx += 1`, `idx = idx + 1`, `idx = match state {.. => idx + 1}` all give the same term)."""
import mir as M


def const_term(c):
    if "val" in c:
        return ("const", c["val"])
    if "txt" in c:
        return ("str", c["txt"])
    if c.get("fn") or c.get("def"):
        return ("fn", c.get("def") or c.get("fn"))
    return ("constx", c.get("ty", "?"), str(c.get("raw", ""))[:40])


def proj_key(e, env):
    if e == "deref":
        return "deref"
    if e[0] == "f":
        return ("f", e[1])
    if e[0] == "down":
        return ("down", e[1])
    if e[0] == "idx":
        return ("idx", env.get(e[1], ("init", e[1])))
    if e[0] == "cidx":
        return ("idx", ("const", e[1]))
    return ("p", str(e))


def apply_proj(t, key):
    """apply one projection step to a term, simplifying known constructors"""
    if key == "deref":
        if t[0] == "ref":
            return t[1]
        return ("deref", t)
    if key[0] == "f":
        if t[0] == "binO":
            return ("bin", t[1], t[2], t[3]) if key[1] == 0 else ("ovf", t[1], t[2], t[3])
        if t[0] == "agg" and key[1] < len(t[3]):
            return t[3][key[1]]
    if key[0] == "down":
        if t[0] == "agg" and t[2] == key[1]:
            return t
    return ("proj", t, key)


class SymFlow:
    def __init__(self, fn):
        self.fn = fn
        self.cfg = M.CFG(fn)

    # ---- transfer
    def place(self, env, pl):
        t = env.get(pl["l"], ("init", pl["l"]))
        for e in pl["p"]:
            t = apply_proj(t, proj_key(e, env))
        return t

    def operand(self, env, op):
        if op[0] == "const":
            return const_term(op[1])
        return self.place(env, op[1])

    def rvalue(self, env, rv, b, i):
        k = rv[0]
        if k == "use":
            return self.operand(env, rv[1])
        if k == "ref" or k == "addr":
            return ("ref", self.place(env, rv[1]))
        if k == "bin":
            a, c = self.operand(env, rv[2]), self.operand(env, rv[3])
            op = rv[1]
            if op.endswith("O") and op[:-1] in ("Add", "Sub", "Mul"):
                return ("binO", op[:-1], a, c)
            if op.endswith("Unchecked"):
                op = op[:-9]
            return ("bin", op, a, c)
        if k == "un":
            return ("un", rv[1], self.operand(env, rv[2]))
        if k == "cast":
            ops = [x for x in rv[1:] if isinstance(x, list) and x and x[0] in ("copy", "move", "const")]
            if len(ops) == 1:
                return ("cast", str(rv[-1]) if isinstance(rv[-1], str) else "?", self.operand(env, ops[0]))
        if k == "disc":
            return ("disc", self.place(env, rv[1]))
        if k == "agg":
            info = rv[1]
            return ("agg", info.get("name") or info.get("k"), info.get("variant", 0), tuple(self.operand(env, o) for o in rv[2]))
        if k == "len":
            return ("len", self.place(env, rv[1]))
        return ("unk", b, i)

    def step_block(self, env, b):
        """env after the statements and the terminator's own definition of block b"""
        return self.step_term(self.step_stmts(env, b), b)

    def call_args(self, entry_env, b):
        """terms of the arguments of the call terminating block b"""
        env = self.step_stmts(entry_env, b)
        t = M.term(self.fn["blocks"][b])
        return [self.operand(env, a) for a in t[2]]

    def step_stmts(self, env, b):
        bb = self.fn["blocks"][b]
        env = dict(env)
        for i, s in enumerate(bb["stmts"]):
            if s[0] != "assign":
                continue
            dst = s[1]
            val = self.rvalue(env, s[2], b, i)
            if not dst["p"]:
                env[dst["l"]] = val
            elif dst["p"] == ["deref"]:
                base = env.get(dst["l"], ("init", dst["l"]))
                # a store through a reference to a whole local updates that local
                if base[0] == "ref" and base[1][0] == "init":
                    env[base[1][1]] = val
                elif base[0] == "init":
                    # a store through a reference parameter: remembered as the pointee's current value
                    env[("*", base[1])] = val
                else:
                    self.clobber(env, base, b, i)
            else:
                env[dst["l"]] = ("unk", b, i)
        return env

    def step_term(self, env, b):
        bb = self.fn["blocks"][b]
        t = M.term(bb)
        if t[0] == "call":
            args = tuple(self.operand(env, a) for a in t[2])
            name = t[1].get("def") or "indirect"
            # pointees of mutable borrows handed to the callee are no longer known
            for a in t[2]:
                if a[0] in ("copy", "move"):
                    ty = self.fn["locals"][a[1]["l"]]["ty"] or ""
                    at = self.operand(env, a)
                    if ty.startswith("&mut") and at[0] == "ref" and at[1][0] == "init":
                        env[at[1][1]] = ("unk", b, "arg")
            dst = t[3]
            if not dst["p"]:
                env[dst["l"]] = ("call", name, args, b)
            else:
                env[dst["l"]] = ("unk", b, "calldst")
        return env

    def clobber(self, env, base, b, i):
        pass

    def switch_term(self, env, b):
        t = M.term(self.fn["blocks"][b])
        if t[0] != "switch":
            return None
        return self.operand(env, t[1])

    # ---- fixpoint
    def run(self, start, stop=(), decide=None, init_env=None):
        """Forward fixpoint from `start`.  Blocks in `stop` are not processed when reached (the environments arriving
        there are joined into the second result); `start` itself is always processed once, so start == stop block
        gives "one trip around the loop".  decide(term, block) -> value or None decides the scrutinee of a switch
        (then only that edge is followed).  Returns (entry env by block, arrival env by stop block, edges taken)."""
        entry = {start: dict(init_env or {})}
        arrived = {}
        edge_env = {}   # (pred, succ) -> environment along that edge: the entry of a block is the join over its edges
        work = [start]
        edges = set()
        n_iter = 0
        while work:
            n_iter += 1
            if n_iter > 20000:
                raise RuntimeError("symterm: no fixpoint")
            b = work.pop()
            env = self.step_block(entry[b], b)
            bb = self.fn["blocks"][b]
            t = M.term(bb)
            nxt = M.succs(bb)
            if t[0] == "switch" and decide is not None:
                v = decide(self.operand(env, t[1]), b)
                if v is not None:
                    nxt = [next((tgt for val, tgt in t[2] if val == v), t[3])]
            # edges no longer taken from b (a decision changed) are dropped
            for (p_, s_) in [k for k in edge_env if k[0] == b and k[1] not in nxt]:
                del edge_env[(p_, s_)]
            for s in nxt:
                if self.fn["blocks"][s].get("cleanup"):
                    continue
                edges.add((b, s))
                edge_env[(b, s)] = env
                tgt = arrived if s in stop else entry
                ins = [e_ for (p_, s_), e_ in edge_env.items() if s_ == s]
                if s == start and s not in stop:
                    ins = ins + [dict(init_env or {})]
                new = dict(ins[0])
                for other in ins[1:]:
                    j = self.join(new, other, s)
                    if j is not None:
                        new = j
                if tgt.get(s) != new:
                    tgt[s] = new
                    if s not in stop:
                        work.append(s)
        return entry, arrived, edges

    def join(self, old, env, blk):
        """pointwise join; None if nothing changes"""
        changed = False
        out = dict(old)
        for l in set(old) | set(env):
            a = old.get(l, ("init", l))
            c = env.get(l, ("init", l))
            if a == c:
                continue
            phi = ("phi", blk, l)
            if a != phi:
                out[l] = phi
                changed = True
        return out if changed else None


def subterms(t):
    yield t
    if isinstance(t, tuple):
        for x in t[1:]:
            if isinstance(x, tuple):
                if x and isinstance(x[0], str):
                    yield from subterms(x)
                else:
                    for y in x:
                        if isinstance(y, tuple):
                            yield from subterms(y)


def strip(t):
    """see through reference/dereference/copy-like wrappers"""
    while isinstance(t, tuple) and t[0] in ("ref", "deref") and isinstance(t[1], tuple):
        t = t[1]
    return t


def is_plus_one(t, base):
    return t[0] == "bin" and t[1] == "Add" and ((t[2] == base and t[3] == ("const", 1)) or (t[3] == base and t[2] == ("const", 1)))


def show(t, depth=0):
    if not isinstance(t, tuple):
        return str(t)
    if depth > 6:
        return "…"
    k = t[0]
    if k == "init":
        return f"_{t[1]}"
    if k == "const":
        return str(t[1])
    if k == "str":
        return repr(t[1])
    if k == "bin":
        return f"({show(t[2], depth + 1)} {t[1]} {show(t[3], depth + 1)})"
    if k == "call":
        return f"{t[1].split('::')[-1]}@bb{t[3]}({', '.join(show(a, depth + 1) for a in t[2])})"
    if k == "proj":
        return f"{show(t[1], depth + 1)}.{t[2]}"
    if k in ("ref", "deref", "disc", "len"):
        return f"{k}({show(t[1], depth + 1)})"
    if k == "phi":
        return f"phi(bb{t[1]},_{t[2]})"
    return f"{k}(…)"
