"""C06 — conditional jumps and LOOPs: every predicate as a complete truth table over the flag bits and the
CX classes {0},{1},[2,65535], compared with the Intel table; flag bit positions; LOOP CX update; frame;
composition with every assembler spelling.  Finite: decided completely."""
import itertools
from domains import Lin, lin_equal_witness
from insn import is_copy, FBIT, FLAGS, report_aborts
from units import run_interp_production, run_split, machine_state, Gram
from program import arch_index
from absint import Interp, EnumV, RefV, IntV, Unsupported, NeedSplit

EXPL = (
    "R1: each alternative of the interpreter's jumps_condition is executed abstractly under trace partitioning on the "
    "flag bits it reads and on the three CX classes {0},{1},[2,65535]; every partition yields a constant, giving the "
    "complete truth table, which is compared row by row with the Intel predicate (32 flag rows x 3 CX classes). "
    "R2: FLAG_* constants equal the architectural bit positions; get/set/unset_flag touch exactly their bit (bit domain). "
    "R3: LOOP family: CX' = CX-1 mod 2^16 (affine), JCXZ leaves CX. R4: frame (no flag, no other register). "
    "R5: complementary pairs are complements, synonyms identical (corollaries, reported for diagnosis). "
    "R6: every source spelling the assembler accepts is mapped to a mnemonic whose interpreter predicate is the Intel "
    "predicate of that spelling. R7: jumps_loops: taken => JMP(label.map unmodified), not taken => NEXT."
)

# Intel 8086 manual, table 2-15 (conditional transfers) -- predicate over the status flags
INTEL = {
    "jmp": lambda f: True,
    "ja": lambda f: not f["CF"] and not f["ZF"], "jnbe": lambda f: not f["CF"] and not f["ZF"],
    "jae": lambda f: not f["CF"], "jnb": lambda f: not f["CF"], "jnc": lambda f: not f["CF"],
    "jb": lambda f: f["CF"], "jnae": lambda f: f["CF"], "jc": lambda f: f["CF"],
    "jbe": lambda f: f["CF"] or f["ZF"], "jna": lambda f: f["CF"] or f["ZF"],
    "je": lambda f: f["ZF"], "jz": lambda f: f["ZF"],
    "jg": lambda f: not f["ZF"] and f["SF"] == f["OF"], "jnle": lambda f: not f["ZF"] and f["SF"] == f["OF"],
    "jge": lambda f: f["SF"] == f["OF"], "jnl": lambda f: f["SF"] == f["OF"],
    "jl": lambda f: f["SF"] != f["OF"], "jnge": lambda f: f["SF"] != f["OF"],
    "jle": lambda f: f["ZF"] or f["SF"] != f["OF"], "jng": lambda f: f["ZF"] or f["SF"] != f["OF"],
    "jne": lambda f: not f["ZF"], "jnz": lambda f: not f["ZF"],
    "jno": lambda f: not f["OF"], "jo": lambda f: f["OF"],
    "jnp": lambda f: not f["PF"], "jpo": lambda f: not f["PF"],
    "jp": lambda f: f["PF"], "jpe": lambda f: f["PF"],
    "jns": lambda f: not f["SF"], "js": lambda f: f["SF"],
    # CX-dependent: f["CXZ"] = CX == 0 before the instruction, f["CX1"] = CX == 1 before the instruction
    "jcxz": lambda f: f["CXZ"],
    "loop": lambda f: not f["CX1"],
    "loope": lambda f: not f["CX1"] and f["ZF"], "loopz": lambda f: not f["CX1"] and f["ZF"],
    "loopne": lambda f: not f["CX1"] and not f["ZF"], "loopnz": lambda f: not f["CX1"] and not f["ZF"],
}
COMPLEMENTS = [("ja", "jbe"), ("jae", "jb"), ("je", "jne"), ("jg", "jle"), ("jge", "jl"), ("jo", "jno"), ("jp", "jnp"), ("js", "jns"), ("jc", "jnc")]
STATUS = ["CF", "PF", "ZF", "SF", "OF"]
CX_CLASSES = [("0", (0, 0)), ("1", (1, 1)), ("2..65535", (2, 65535))]


def mnemonic_cases(G, nt="jumps_condition"):
    """(k, production, mnemonic, chooser): every way the nonterminal derives one mnemonic.  An alternative that starts with a
    keyword is one case; an alternative whose mnemonic comes out of a sub-nonterminal (all of whose alternatives are single
    keywords) is one case per keyword, with the sub-nonterminal forced to that alternative."""
    out = []
    for k, p in enumerate(G.productions(nt)):
        terms = [s_["name"].strip('"') for s_ in p["symbols"] if s_["t"] == "term"]
        if terms:
            out.append((k, p, terms[0], None))
            continue
        subs = [s_["name"] for s_ in p["symbols"] if s_["t"] != "term"]
        done = False
        for sub in subs:
            alts = G.productions(sub)
            if alts and all(len([x for x in a["symbols"] if x["t"] == "term"]) == 1 and len(a["symbols"]) == 1 for a in alts):
                for j, a in enumerate(alts):
                    m = a["symbols"][0]["name"].strip('"')
                    out.append((k, p, m, (lambda path, nt_, prods, sub=sub, j=j: j if nt_ == sub else None)))
                done = True
                break
        if not done:
            out.append((k, p, None, None))
    return out


_ABORT_EVENTS = []


def truth_table(ctx, k, chooser=None):
    """{(cxclass, (CF,PF,ZF,SF,OF)) -> bool}, plus per-class machine effects"""
    P = ctx.program
    split = frozenset(("flag", i) for i in range(16))
    table = {}
    effects = []
    for cname, (lo, hi) in CX_CLASSES:
        def pre(I, st, lo=lo, hi=hi):
            vm = st.frames[0]["vm"]
            ai = arch_index(P)
            arch = vm.fields[0]
            fs = list(arch.fields)
            fs[ai["cx"]] = I.new_atom("u16", "cx", lo, hi)
            from absint import AggV
            st.frames[0]["vm"] = AggV(vm.name, [AggV(arch.name, fs)] + list(vm.fields[1:]))

        def one(asm, sp):
            I, st, v, r = run_interp_production(ctx, "jumps_condition", k, chooser, assume=asm, split=sp, pre=pre)
            _ABORT_EVENTS.extend(e for e in I.events if e.kind == "assert")
            if v is not None and v.kind == "int" and not v.is_const():
                # the predicate is returned as a value (no branch forced a case split): split on a flag bit it depends on
                need = sorted(d for d in v.deps() if d in sp)
                if need:
                    raise NeedSplit(need[0][0], need[0][1])
            return I, st, v
        leaves = run_split(one, split)
        for asm, (I, st, v) in leaves:
            if v is None or v.kind != "int" or not v.is_const():
                return None, f"class CX={cname}, flags {asm}: result is not a constant ({v!r})"
            effects.append((cname, asm, I, st))
            fixed = {name: asm.get(("flag", FBIT[name])) for name in STATUS}
            free = [n for n in STATUS if fixed[n] is None]
            for vals in itertools.product((0, 1), repeat=len(free)):
                row = dict(fixed)
                row.update(dict(zip(free, vals)))
                table[(cname, tuple(row[n] for n in STATUS))] = bool(v.lo)
        # case splits on flag bits outside the five status flags: harmless if the outcome does not change with them,
        # a defect if it does (a conditional jump may depend on CF, PF, ZF, SF, OF and CX only)
        status_bits = [FBIT[n] for n in STATUS]
        seen_rows = {}
        for asm, (I, st, v) in leaves:
            other = {b: val for (a, b), val in asm.items() if b not in status_bits}
            if not other:
                continue
            fixed = {name: asm.get(("flag", FBIT[name])) for name in STATUS}
            free = [n for n in STATUS if fixed[n] is None]
            for vals in itertools.product((0, 1), repeat=len(free)):
                row = dict(fixed)
                row.update(dict(zip(free, vals)))
                key = (cname, tuple(row[n] for n in STATUS))
                prev = seen_rows.get(key)
                if prev is not None and prev[0] != bool(v.lo):
                    diff = sorted(b for b in set(other) | set(prev[1]) if other.get(b) != prev[1].get(b))
                    names = {v_: k_ for k_, v_ in FBIT.items()}
                    return "depends", (key, [names.get(b, f"bit{b}") for b in diff] or ["a non-status flag"])
                seen_rows[key] = (bool(v.lo), other)
    return (table, effects), None


def intel_table(m):
    f = INTEL[m]
    t = {}
    for cname, _ in CX_CLASSES:
        for vals in itertools.product((0, 1), repeat=5):
            row = dict(zip(STATUS, (bool(v) for v in vals)))
            row["CXZ"] = cname == "0"
            row["CX1"] = cname == "1"
            t[(cname, vals)] = bool(f(row))
    return t


def run(ctx, chk):
    chk.explanation = EXPL
    chk.extra["exhaustive"] = True
    P = ctx.program
    G = ctx.gram("interpreter")
    chk.rule("C06.R1", "interpreter predicate == Intel predicate (complete truth table)", floor=23)
    chk.rule("C06.R8", "no abort site in a conditional transfer, for every flag word and every CX", floor=3)
    chk.rule("C06.R2", "flag bit positions and get/set/unset_flag exactness", floor=36)
    chk.rule("C06.R3", "LOOP family decrements CX mod 2^16; others leave CX", floor=23)
    chk.rule("C06.R4", "jumps change no flag and no register other than CX", floor=23)
    chk.rule("C06.R5", "complement pairs are complements; synonyms identical", floor=9)
    chk.rule("C06.R6", "every assembler spelling reaches the Intel predicate of that spelling", floor=70)
    chk.rule("C06.R7", "taken => JMP(label.map), not taken => NEXT", floor=1)

    # R2 constants
    consts = {c["name"].split("::")[-1]: c["val"] for c in ctx.facts.mir("lib")["consts"] if c["name"].startswith("arch::FLAG_")}
    names = {"FLAG_CARRY": "CF", "FLAG_PARITY": "PF", "FLAG_AUX_CARRY": "AF", "FLAG_ZERO": "ZF", "FLAG_SIGN": "SF",
             "FLAG_TRAP": "TF", "FLAG_INTERRUPT": "IF", "FLAG_DIRECTION": "DF", "FLAG_OVERFLOW": "OF"}
    for cn, fl in names.items():
        if cn not in consts:
            chk.undecided_("C06.R2", cn, "constant not found")
        elif consts[cn] == 1 << FBIT[fl]:
            chk.ok("C06.R2", cn, f"= 1<<{FBIT[fl]}")
        else:
            chk.violation("C06.R2", cn, "wrong-bit", f"{cn} = {consts[cn]:#x}, architectural {fl} is bit {FBIT[fl]}", "src/lib/arch.rs")
    fadt = P.find_adt("util::flag_util::Flags")
    for fname, kind in (("get_flag_state", "get"), ("set_flag", "set"), ("unset_flag", "unset")):
        fn = P.find("lib", "util::flag_util::" + fname)
        if not fn or not fadt:
            chk.undecided_("C06.R2", fname, "function or enum not found")
            continue
        for vi, var in enumerate(fadt["variants"]):
            fl = FLAGS["enum_names"].get(var["name"])
            if fl is None:
                chk.undecided_("C06.R2", f"{fname}({var['name']})", "no architectural name for this variant")
                continue
            bit = FBIT[fl]
            I = Interp(P)
            st = machine_state(I, P)
            ev = EnumV("util::flag_util::Flags", vi, (), len(fadt["variants"]))
            if kind == "get":
                reg = I.new_atom("u16", "w")
                ret = I.run_fn(fn, [reg, ev], st)
                good = ret is not None and ret.kind == "int" and ret.bits[0] == ("c", "w", bit)
            else:
                st.frames[0]["w"] = I.new_atom("u16", "w")
                I.run_fn(fn, [RefV((0, "w", ())), ev], st)
                w = st.frames[0]["w"]
                want = 1 if kind == "set" else 0
                good = all((b == want) if i == bit else (b == ("c", "w", i)) for i, b in enumerate(w.bits))
            if kind == "get":
                exact = ret is not None and ret.kind == "int" and (ret.bits[0] in (0, 1) or ret.bits[0][0] in "cn")
            else:
                exact = w.kind == "int" and all(b in (0, 1) or b[0] in "cn" for b in w.bits)
            if good:
                chk.ok("C06.R2", f"{fname}({var['name']})", f"bit {bit} only")
            elif not exact:
                chk.undecided_("C06.R2", f"{fname}({var['name']})", "the accessed bit is computed in a way the bit domain does not follow")
            else:
                chk.violation("C06.R2", fname, f"{var['name']}-wrong-bit", f"{fname}(.., Flags::{var['name']}) does not act on exactly bit {bit}", fn["span"])

    # R1/R3/R4 per interpreter mnemonic
    tables = {}
    for k, p, m, chooser in mnemonic_cases(G):
        where = f"{G.g['file']}:{p['line']}"
        if m is None:
            chk.undecided_("C06.R1", f"jumps_condition#{k}", "alternative without a mnemonic keyword: its cases are not enumerated")
            continue
        if m not in INTEL:
            chk.violation("C06.R1", m, "unknown-mnemonic", f"interpreter accepts '{m}', which is not an 8086 conditional transfer", where)
            continue
        del _ABORT_EVENTS[:]
        try:
            res, err = truth_table(ctx, k, chooser)
        except Unsupported as e:
            res, err = None, str(e)
        # R8: no flag state and no CX value makes the transfer abort (overflow checks are on in the analysed build)
        if _ABORT_EVENTS:
            from insn import report_aborts
            report_aborts(chk, "C06.R8", m, list(_ABORT_EVENTS), where)
        else:
            chk.ok("C06.R8", m, "no abort site in the predicate", nontrivial=False)
        if res == "depends":
            (cname_, vals_), flags_ = err
            chk.violation("C06.R1", m, "depends-on-" + "+".join(flags_), f"'{m}' gives different outcomes for the same CF,PF,ZF,SF,OF = {dict(zip(STATUS, vals_))} depending on "
                          f"{flags_}: a conditional transfer may only look at the five status flags (and CX)", where, f"{dict(zip(STATUS, vals_))} CX={cname_}, {flags_} = 0 vs 1")
            tables[m] = None
            continue
        if res is None:
            chk.undecided_("C06.R1", m, err)
            continue
        table, effects = res
        tables[m] = table
        want = intel_table(m)
        bad = [key for key in want if table.get(key) != want[key]]
        if bad:
            cname, vals = bad[0]
            row = dict(zip(STATUS, vals))
            chk.violation("C06.R1", m, "predicate", f"'{m}' is {'taken' if table.get(bad[0]) else 'not taken'} with {row}, CX class {cname}; the 8086 "
                          f"{'takes' if want[bad[0]] else 'does not take'} it ({len(bad)} of {len(want)} rows differ)", where, f"{row} CX={cname}")
        else:
            chk.ok("C06.R1", m, f"{len(want)} rows agree")
        # effects
        ai = arch_index(P)
        frame_bad = None
        cx_bad = None
        for cname, asm, I, st in effects:
            vm = st.frames[0]["vm"]
            regs = {n: vm.fields[0].fields[i] for n, i in ai.items()}
            for n, x in regs.items():
                if n == "cx":
                    continue
                if n == "flag":
                    okf = all(b == ("c", "flag", i) or (("flag", i) in asm and b == asm[("flag", i)]) for i, b in enumerate(x.bits))
                    if not okf:
                        frame_bad = "flag"
                elif not is_copy(x, n):
                    frame_bad = n
            mem = st.frames[0]["mem"]
            if mem.cells or mem.havoc is not None:
                frame_bad = "memory"
            cx = regs["cx"]
            if m.startswith("loop"):
                want_cx = Lin.atom("cx").add(Lin(-1)).mod(1 << 16)
                if cx.aff is None:
                    cx_bad = "no exact form"
                else:
                    v, env = lin_equal_witness(cx.aff, want_cx, I.atom_ranges())
                    if v == "differ":
                        cx_bad = f"CX becomes {cx.aff.pretty()} (CX class {cname}), expected CX-1 mod 2^16; {env}"
                    elif v != "equal":
                        cx_bad = "undecided"
            else:
                if not (is_copy(cx, "cx") or (cx.is_const() and cname in ("0", "1") and cx.lo == int(cname))):
                    cx_bad = f"CX changes to {cx!r}"
        if frame_bad:
            chk.violation("C06.R4", m, "changes-" + frame_bad, f"'{m}' modifies {frame_bad}", where)
        else:
            chk.ok("C06.R4", m, "no flag/register/memory change")
        if cx_bad == "undecided" or cx_bad == "no exact form":
            chk.undecided_("C06.R3", m, cx_bad)
        elif cx_bad:
            chk.violation("C06.R3", m, "cx-update", f"'{m}': {cx_bad}", where)
        else:
            chk.ok("C06.R3", m, "CX-1 mod 2^16" if m.startswith("loop") else "CX unchanged")

    # R5 corollaries
    for a, b in COMPLEMENTS:
        if tables.get(a) and tables.get(b):
            if all(tables[a][key] != tables[b][key] for key in tables[a]):
                chk.ok("C06.R5", f"{a}/{b}", "complements on every row")
            else:
                chk.violation("C06.R5", f"{a}/{b}", "not-complementary", f"'{a}' and '{b}' are both taken or both skipped for some flags", G.g["file"])
        else:
            chk.ok("C06.R5", f"{a}/{b}", "pair not both present in the interpreter (see R6 for spellings)", nontrivial=False)

    # R6 assembler spellings
    spelling_rule(ctx, chk, tables)

    # R7 jumps_loops
    for k, p in enumerate(G.productions("jumps_loops")):
        where = f"{G.g['file']}:{p['line']}"

        def chooser(path, n, prods):
            if n == "jumps_condition":
                return next(i for i, q in enumerate(prods) if any(s["name"] == '"jmp"' for s in q["symbols"]))
            return None
        I, st, v, r = run_interp_production(ctx, "jumps_loops", k, chooser)
        # always-taken jump: result must be JMP(map) (or the error paths)
        ok_ = False
        detail = repr(v)
        if v is not None and v.kind == "enum":
            alts = {v.variant: v.fields} if v.variant is not None else (v.alts or {})
            sadt = P.find_adt("util::interpreter_util::State")
            jmp_i = [i for i, x in enumerate(sadt["variants"]) if x["name"] == "JMP"][0]
            if jmp_i in alts and alts[jmp_i]:
                tgt = alts[jmp_i][0]
                maps = [a for a in I.atoms if a.endswith(".map")]
                if tgt.kind == "int" and maps and is_copy(tgt, maps[0]):
                    ok_ = True
                    detail = f"JMP({maps[0]})"
                else:
                    detail = f"JMP payload {tgt!r} is not the label's map value"
            extra = set(alts) - {jmp_i}
            if ok_ and extra:
                ok_ = False
                detail = f"an unconditional jump can also yield State variants {sorted(extra)}"
        if ok_:
            chk.ok("C06.R7", "jumps_loops[taken]", detail)
        else:
            chk.violation("C06.R7", "jumps_loops", "taken-target", f"taken jump does not return JMP(label.map): {detail}", where)

        def chooser2(path, n, prods):
            if n == "jumps_condition":
                return next(i for i, q in enumerate(prods) if any(s["name"] == '"jcxz"' for s in q["symbols"]))
            return None

        def pre(I, st):
            pass
        I, st, v, r = run_interp_production(ctx, "jumps_loops", k, chooser2)
        if v is not None and v.kind == "enum":
            alts = {v.variant: v.fields} if v.variant is not None else (v.alts or {})
            sadt = P.find_adt("util::interpreter_util::State")
            names_ = sorted(sadt["variants"][i]["name"] for i in alts)
            if names_ == ["JMP", "NEXT"]:
                chk.ok("C06.R7", "jumps_loops[conditional]", "JMP or NEXT")
            else:
                chk.violation("C06.R7", "jumps_loops", "outcomes", f"a conditional jump yields {names_}, expected JMP or NEXT", where)


def spelling_rule(ctx, chk, tables):
    """assembler quote_jmps_loops: terminal spelling -> emitted mnemonic (string literal of the action)"""
    GA = ctx.gram("preprocessor")
    G = ctx.gram("interpreter")
    nt = "quote_jmps_loops"
    if nt not in GA.nts:
        chk.undecided_("C06.R6", nt, "nonterminal not found in the assembler grammar")
        return
    from asm import GramEval, spelling_table
    E = GramEval(GA)
    for k, (src, emitted, p) in enumerate(spelling_table(E, nt)):
        where = f"{GA.g['file']}:{p['line']}"
        if src is None:
            chk.undecided_("C06.R6", f"{nt}#{k}", "not a single-terminal alternative")
            continue
        if emitted is None:
            chk.undecided_("C06.R6", src, "action is not a string literal")
            continue
        key = src.lower()
        if key not in INTEL:
            chk.violation("C06.R6", src, "unknown-spelling", f"assembler accepts '{src}', not an 8086 conditional transfer", where)
            continue
        interp_mnems = {m_ for _k, _p, m_, _c in mnemonic_cases(G) if m_ is not None}
        if emitted not in interp_mnems:
            chk.violation("C06.R6", src, "emits-unknown-mnemonic", f"'{src}' is emitted as '{emitted}', which the interpreter grammar does not have", where)
            continue
        if tables.get(emitted) is None:
            if emitted in tables:
                chk.violation("C06.R6", src, "predicate", f"source '{src}' runs as '{emitted}', whose predicate is not a function of the status flags (see C06.R1)", where)
            else:
                chk.undecided_("C06.R6", src, f"the predicate of '{emitted}' could not be tabulated (C06.R1 undecided)")
            continue
        want = intel_table(key)
        bad = [kk for kk in want if tables[emitted].get(kk) != want[kk]]
        if bad:
            cname, vals = bad[0]
            chk.violation("C06.R6", src, "predicate", f"source '{src}' runs as '{emitted}', whose predicate differs from the 8086 predicate of {key.upper()} "
                          f"({len(bad)} rows, e.g. {dict(zip(STATUS, vals))} CX={cname})", where)
        else:
            chk.ok("C06.R6", src, f"-> {emitted}: {len(want)} rows agree")


def literal_of(ast):
    """value of an action of the shape "lit".to_owned() / String::from("lit") / "lit".to_string()"""
    if not ast:
        return None
    node = ast
    while node.get("k") == "block" and len(node["stmts"]) == 1 and node["stmts"][0]["k"] == "expr":
        node = node["stmts"][0]["e"]
    if node.get("k") == "mcall" and node["m"] in ("to_owned", "to_string", "into") and node["recv"].get("k") == "lit" and node["recv"]["ty"] == "str":
        return node["recv"]["v"]
    if node.get("k") == "call" and node["args"] and node["args"][0].get("k") == "lit" and node["args"][0]["ty"] == "str":
        return node["args"][0]["v"]
    return None
