"""Fact extraction and caching.

Facts = MIR JSON of both crates (engine M) + grammar JSON of the four .lalrpop files (engine G).
They are keyed by the sha256 of every analysed source file in /repo's *working tree*, so any edit
forces re-extraction.  Nothing of /repo is executed: the scratch copy is only type-checked
(`cargo check`, which runs the repo's own build.rs = lalrpop code generation, exactly as the real
build does) and four text files are read.
"""
import fcntl
import hashlib
import json
import os
import shutil
import subprocess
import sys
import tempfile
import time

VERIF = os.path.dirname(os.path.dirname(os.path.abspath(__file__)))
REPO = os.environ.get("VERIF_REPO", "/repo")
CACHE = os.environ.get("VERIF_CACHE_DIR") or os.path.join(VERIF, ".cache")
TOOLS = os.path.join(VERIF, "tools", "target")
MIRFACTS = os.path.join(TOOLS, "mirfacts", "debug", "mirfacts")
GRAM = os.path.join(TOOLS, "gram", "debug", "gram")

EXTRACT_VERSION = "2: overflow-checks=on debug-assertions=off mir-opt-level=0"

GRAMMARS = {
    "interpreter": "src/lib/interpreter/interpreter.lalrpop",
    "preprocessor": "src/lib/preprocessor/preprocessor.lalrpop",
    "data_parser": "src/lib/data_parser/data_parser.lalrpop",
    "print": "src/driver/print.lalrpop",
}
GENERATED = [p[: -len(".lalrpop")] + ".rs" for p in GRAMMARS.values()]


class AnalysisIncomplete(Exception):
    """The tree no longer has the shape the analysis can see (not a pass, not a claimed violation)."""

    def __init__(self, rule, msg):
        super().__init__(f"rule={rule} {msg}")
        self.rule = rule
        self.msg = msg


def source_files():
    out = []
    for top in ("Cargo.toml", "Cargo.lock", "build.rs"):
        p = os.path.join(REPO, top)
        if os.path.exists(p):
            out.append(top)
    for root, dirs, files in os.walk(os.path.join(REPO, "src")):
        dirs.sort()
        for f in sorted(files):
            rel = os.path.relpath(os.path.join(root, f), REPO)
            if rel in GENERATED:
                continue  # build products, regenerated from the grammar in the scratch copy
            if f.endswith((".rs", ".lalrpop")):
                out.append(rel)
    return out


def tree_hash():
    h = hashlib.sha256()
    h.update(EXTRACT_VERSION.encode())
    for rel in source_files():
        h.update(rel.encode())
        h.update(b"\0")
        with open(os.path.join(REPO, rel), "rb") as fh:
            h.update(fh.read())
        h.update(b"\0")
    # the tools are part of the key: a rebuilt extractor must not reuse old facts
    for t in (MIRFACTS, GRAM):
        try:
            st = os.stat(t)
            h.update(f"{t}:{st.st_size}:{int(st.st_mtime)}".encode())
        except FileNotFoundError:
            h.update(f"{t}:missing".encode())
    return h.hexdigest()[:24]


def _nightly_sysroot():
    return subprocess.check_output(["rustc", "+nightly", "--print", "sysroot"], text=True).strip()


def _extract(dest):
    if not (os.path.exists(MIRFACTS) and os.path.exists(GRAM)):
        raise AnalysisIncomplete("setup", "tools not built: run ./setup.sh")
    t0 = time.time()
    scratch = tempfile.mkdtemp(prefix="verif8086.")
    try:
        src = os.path.join(scratch, "src")
        os.makedirs(src)
        for rel in source_files():
            d = os.path.join(src, rel)
            os.makedirs(os.path.dirname(d), exist_ok=True)
            shutil.copy2(os.path.join(REPO, rel), d)
        # other files the build may want (examples etc. are not needed by cargo check)
        out = os.path.join(scratch, "out")
        os.makedirs(out)
        env = dict(os.environ)
        env.update(
            {
                "LD_LIBRARY_PATH": _nightly_sysroot() + "/lib",
                "MIRFACTS_OUT": out,
                "RUSTFLAGS": "-Zmir-opt-level=0 -Awarnings -Coverflow-checks=on -Cdebug-assertions=off",
                "RUSTC_WORKSPACE_WRAPPER": MIRFACTS,
                "CARGO_TARGET_DIR": os.path.join(scratch, "target"),
                "CARGO_NET_OFFLINE": "true",
            }
        )
        p = subprocess.run(
            ["cargo", "+nightly", "check", "--offline", "--quiet"],
            cwd=src,
            env=env,
            stdout=subprocess.PIPE,
            stderr=subprocess.STDOUT,
            text=True,
        )
        if p.returncode != 0:
            raise AnalysisIncomplete("build", "cargo check of the working tree failed:\n" + p.stdout[-4000:])
        want = {"lib": "emulator_8086_lib.Rlib.json", "bin": "emulator_8086.Executable.json"}
        for k, f in want.items():
            fp = os.path.join(out, f)
            if not os.path.exists(fp):
                raise AnalysisIncomplete("build", f"fact file {f} missing (wrapper skipped?)")
            shutil.copy2(fp, os.path.join(dest, k + ".mir.json"))
        bs = os.path.join(out, "build_script_build.Executable.json")
        if os.path.exists(bs):
            shutil.copy2(bs, os.path.join(dest, "build.mir.json"))
        # grammars: read from the working tree itself
        for name, rel in GRAMMARS.items():
            gp = os.path.join(REPO, rel)
            r = subprocess.run([GRAM, "dump", gp], stdout=subprocess.PIPE, stderr=subprocess.PIPE, text=True)
            if r.returncode != 0 or not r.stdout.strip().startswith("{"):
                raise AnalysisIncomplete("grammar", f"cannot read {rel}: {r.stdout[-500:]} {r.stderr[-500:]}")
            with open(os.path.join(dest, name + ".gram.json"), "w") as fh:
                fh.write(r.stdout)
        # helper functions of the plain Rust sources (syntax trees, for inlining calls made by grammar actions)
        rs = [os.path.join(REPO, rel) for rel in source_files() if rel.endswith(".rs")]
        r = subprocess.run([GRAM, "rustfns"] + rs, stdout=subprocess.PIPE, stderr=subprocess.PIPE, text=True)
        if r.returncode != 0 or not r.stdout.strip().startswith("["):
            raise AnalysisIncomplete("helpers", f"cannot read the Rust sources: {r.stderr[-500:]}")
        with open(os.path.join(dest, "helpers.json"), "w") as fh:
            fh.write(r.stdout)
        # generated-parser consistency: what the scratch build compiled was regenerated from the
        # grammar (the generated files were not copied).  If /repo holds a leftover generated file
        # whose header claims the current grammar but whose body differs, the real build would
        # compile something the grammar does not describe.
        stale = []
        for rel in GENERATED:
            a = os.path.join(REPO, rel)
            b = os.path.join(src, rel)
            if os.path.exists(a) and os.path.exists(b):
                ta = open(a, "rb").read()
                tb = open(b, "rb").read()
                if ta != tb and ta.split(b"\n", 2)[:2] == tb.split(b"\n", 2)[:2]:
                    stale.append(rel)
        meta = {"extract_s": round(time.time() - t0, 2), "stale_generated": stale, "files": source_files()}
        with open(os.path.join(dest, "meta.json"), "w") as fh:
            json.dump(meta, fh)
    finally:
        shutil.rmtree(scratch, ignore_errors=True)


def ensure():
    """Return the cache directory holding the facts of the current working tree."""
    os.makedirs(CACHE, exist_ok=True)
    key = tree_hash()
    d = os.path.join(CACHE, key)
    lock = open(os.path.join(CACHE, ".lock"), "w")
    fcntl.flock(lock, fcntl.LOCK_EX)
    try:
        if not os.path.exists(os.path.join(d, "meta.json")):
            tmp = d + ".tmp%d" % os.getpid()
            shutil.rmtree(tmp, ignore_errors=True)
            os.makedirs(tmp)
            try:
                _extract(tmp)
            except Exception:
                shutil.rmtree(tmp, ignore_errors=True)
                raise
            shutil.rmtree(d, ignore_errors=True)
            os.rename(tmp, d)
            # keep the cache small: drop old entries, but never one that a concurrently running check may still be
            # reading (checks of different trees can run in parallel): only entries beyond the 8 newest AND older than 30 min
            ents = [e for e in os.listdir(CACHE) if not e.startswith(".") and e != key and ".tmp" not in e]
            ents.sort(key=lambda e: os.path.getmtime(os.path.join(CACHE, e)), reverse=True)
            now = time.time()
            for e in ents[7:]:
                try:
                    if now - os.path.getmtime(os.path.join(CACHE, e)) > 1800:
                        shutil.rmtree(os.path.join(CACHE, e), ignore_errors=True)
                except OSError:
                    pass
    finally:
        fcntl.flock(lock, fcntl.LOCK_UN)
        lock.close()
    return d


class Facts:
    def __init__(self):
        self.dir = ensure()
        self.meta = json.load(open(os.path.join(self.dir, "meta.json")))
        self._mir = {}
        self._gram = {}
        if self.meta.get("stale_generated"):
            raise AnalysisIncomplete(
                "generated-parser",
                "generated parser differs from its grammar although its hash header matches: "
                + ",".join(self.meta["stale_generated"]),
            )

    def _open(self, name):
        try:
            return open(os.path.join(self.dir, name))
        except FileNotFoundError:
            # the entry was evicted under us: extract again
            self.dir = ensure()
            return open(os.path.join(self.dir, name))

    def mir(self, which):
        if which not in self._mir:
            d = json.load(self._open(which + ".mir.json"))
            d["by_name"] = {f["name"]: f for f in d["fns"]}
            self._mir[which] = d
        return self._mir[which]

    def gram(self, which):
        if which not in self._gram:
            self._gram[which] = json.load(self._open(which + ".gram.json"))
            self._gram[which]["helpers"] = self.helpers()
        return self._gram[which]

    def helpers(self):
        if not hasattr(self, "_helpers"):
            hs = json.load(self._open("helpers.json"))
            for h in hs:
                h["file"] = os.path.relpath(h["file"], REPO) if h["file"].startswith(REPO) else h["file"]
            self._helpers = hs
        return self._helpers

    def gram_path(self, which):
        return os.path.join(REPO, GRAMMARS[which])


if __name__ == "__main__":
    f = Facts()
    print(f.dir, f.meta["extract_s"])
    for w in ("lib", "bin"):
        print(w, f.mir(w)["n_fns"])
    for g in GRAMMARS:
        print(g, len(f.gram(g)["nonterminals"]))
