"""C01 — ADD/ADC/SUB/SBB/CMP/INC/DEC/NEG: flag write-set, definedness, CF preservation of INC/DEC,
frame, CMP no write-back, required input dependencies, table agreement, abort freedom.
Not decided: the numeric result and the flag formulas (value level)."""
from insn import (
    spec, fn_table, summarize_fn, check_flags, check_required_deps, changed_regs, mem_written,
    fn_where, report_aborts, FBIT, is_copy,
)
from units import run_interp_production, addr_atom
from program import arch_index
import mir as M

EXPL = (
    "Static analysis of the MIR of the arithmetic helpers and of the interpreter actions that apply them. "
    "R1 flag frame (bits outside the Intel write-set are bit-for-bit copies), R2 flag definedness (every written "
    "flag is assigned on every path; INC/DEC leave CF a copy), R3 machine frame of the helper (no register, no "
    "memory write), R4 required input dependencies of result and of each flag (missing dependency = definite "
    "defect; the may-depend set over-approximates), R5 byte/word mnemonic tables agree, R6 CMP stores nothing / "
    "other productions store only their destination, R7 abort sites inside these units. "
    "NOT decided: the two's-complement result and the flag formulas themselves (value-level; needs enumeration "
    "or a solver, other families)."
)


def required_bits(width, names, carry_in):
    req = set()
    for n in names:
        for i in range(width):
            req.add((n, i))
    if carry_in:
        req.add(("flag", FBIT["CF"]))
    return req


def flag_required(flag, width, names, carry_in):
    """minimal architectural dependency of each status flag of an add/sub-like operation"""
    lo = lambda k: {(n, i) for n in names for i in range(k)}
    ci = {("flag", FBIT["CF"])} if carry_in else set()
    if flag == "AF":
        return lo(4) | ci
    if flag == "PF":
        return lo(8) | ci
    return lo(width) | ci  # CF, ZF, SF, OF depend on every operand bit (carry chain)


def run(ctx, chk):
    chk.explanation = EXPL + (" R8 sibling cross-check: the byte and the word helper of one mnemonic must build every flag from the same expression tree "
                              "(modulo width constants and casts); a tree that is the other one with one operand left out is reported, other differences of "
                              "formulation are listed as undecided.")
    chk.assumptions += [
        "distinct abstract addresses within one action do not alias",
        "std callees behave as their models (wrapping_add, Into::into, Clone)",
        "the generated parser calls exactly the action lalrpop's tables name (same generator version)",
    ]
    A = spec("arith")
    P = ctx.program
    G = ctx.gram("interpreter")
    r_tab = chk.rule("C01.R5", "byte and word mnemonic tables bind the same mnemonics to helpers", floor=4)
    r_fr = chk.rule("C01.R1", "flags outside the Intel write-set are unchanged", floor=100)
    r_def = chk.rule("C01.R2", "every written flag is assigned on every path; INC/DEC preserve CF", floor=80)
    r_mf = chk.rule("C01.R3", "helper writes no register and no memory", floor=16)
    r_dep = chk.rule("C01.R4", "result and flags depend on every architecturally required input", floor=100)
    r_wb = chk.rule("C01.R6", "CMP writes no destination; other productions write only their destination", floor=30)
    r_ab = chk.rule("C01.R7", "no abort site in the arithmetic helpers / actions can fail", floor=10)
    chk.rule("C01.R8", "byte and word helper of a mnemonic compute every flag from the same expression (no dropped operand)", floor=25)
    chk.rule("C01.R10", "an immediate operand has the width of its destination (every operand bit comes from the same bit of the literal)", floor=6)
    chk.rule("C01.R12", "CF, AF, OF, SF, ZF are the manual's predicates over the operands (normal forms D>0 / D==0 / xor) and PF is the even parity of the result's low byte, for every operand", floor=20)
    chk.rule("C01.R11", "the stored result is the arithmetic result modulo 2^width, for every operand value and incoming carry (affine closed form)", floor=10)
    chk.rule("C01.R9", "the zero test is made on the stored result (or on a wider value that cannot be a non-zero multiple of 2^width)", floor=8)
    sibling_rule(ctx, chk)

    tabs = {}
    for nt in ("byte_binary_arithmetic", "word_binary_arithmetic", "byte_unary_arithmetic", "word_unary_arithmetic"):
        tabs[nt] = fn_table(ctx, nt)
    # R5 table agreement
    for a, b in (("byte_binary_arithmetic", "word_binary_arithmetic"), ("byte_unary_arithmetic", "word_unary_arithmetic")):
        ka = set(k for k in tabs[a] if isinstance(k, str))
        kb = set(k for k in tabs[b] if isinstance(k, str))
        if ka != kb:
            chk.violation("C01.R5", f"{a}/{b}", "mnemonic-sets-differ", f"mnemonics {sorted(ka ^ kb)} exist for one width only", G.g["file"])
        else:
            chk.ok("C01.R5", f"{a}/{b}", f"{sorted(ka)}")
        for m in sorted(ka & kb):
            fa, fb = tabs[a][m], tabs[b][m]
            if fa is None or fb is None:
                chk.undecided_("C01.R5", f"{m}", "table entry is not a single function item")
                continue
            na, nb = fa.split("::")[-1], fb.split("::")[-1]
            sa = na.replace("byte_", "", 1) if na.startswith("byte_") else None
            sb = nb.replace("word_", "", 1) if nb.startswith("word_") else None
            if sa is None or sb is None:
                chk.ok("C01.R5", f"{m}:pair", "no width marker in helper names: no verdict", nontrivial=False)
            elif sa != sb:
                chk.violation("C01.R5", m, "byte-word-helper-mismatch", f"'{m}' is bound to {na} for bytes but {nb} for words", G.g["file"])
            else:
                chk.ok("C01.R5", f"{m}:pair", f"{na}/{nb}")

    # function-level rules
    for nt, group in (("byte_binary_arithmetic", "binary"), ("word_binary_arithmetic", "binary"),
                      ("byte_unary_arithmetic", "unary"), ("word_unary_arithmetic", "unary")):
        width = 8 if nt.startswith("byte") else 16
        for m, fid in sorted((k, v) for k, v in tabs[nt].items() if isinstance(k, str)):
            if m not in ("add", "adc", "sub", "sbb", "cmp", "inc", "dec", "neg"):
                continue  # mul/div belong to C03
            if fid is None or fid not in P.fns:
                chk.undecided_("C01.R1", f"{nt}:{m}", "helper not resolved")
                continue
            fn = P.fns[fid]
            unit = f"{m}.{'b' if width == 8 else 'w'}"
            where = fn_where(fn)
            s = summarize_fn(ctx, fn)
            sp = A[group][m]
            carry_in = sp.get("carry_in", False)
            # a flag that must be preserved may be saved and restored (through a branch on its old value): decide that by
            # trace partitioning on the flag's incoming value: in both partitions the final bit is the assumed constant
            flagv = s.flag
            for nm in sp.get("preserved", ()):
                i = FBIT[nm]
                if flagv.kind == "int" and flagv.bits[i] != ("c", "flag", i):
                    same = True
                    for val in (0, 1):
                        s2 = summarize_fn(ctx, fn, assume={("flag", i): val})
                        if s2.flag.kind != "int" or s2.flag.bits[i] != val:
                            same = False
                    if same:
                        from absint import IntV
                        bits = list(flagv.bits)
                        bits[i] = ("c", "flag", i)
                        flagv = IntV(flagv.ty, tuple(bits), flagv.lo, flagv.hi)
            s.flag = flagv
            check_flags(chk, "C01.R1", "C01.R2", unit, s.flag, sp["written"], sp.get("undefined", ()), (),
                        sp.get("preserved", ()), self_dep_ok=(("CF", "PF", "AF", "ZF", "SF", "OF") if carry_in else ()), where=where)
            if carry_in:
                # one run per incoming carry: the intermediate keeps its exact affine form in each partition
                for cv in (0, 1):
                    zero_test_rule(ctx, chk, f"{unit}[CF={cv}]", fn, summarize_fn(ctx, fn, assume={("flag", FBIT["CF"]): cv}), width, where, key_unit=unit)
            else:
                zero_test_rule(ctx, chk, unit, fn, s, width, where)
            # INC/DEC: CF preserved is part of R2's statement
            ch = changed_regs(s)
            mw = mem_written(s)
            if ch or mw:
                chk.violation("C01.R3", unit, "helper-writes-" + "+".join(ch + mw), f"{fn['name']} modifies {ch + mw}", where)
            else:
                chk.ok("C01.R3", unit, "no register/memory write")
            # required dependencies
            if group == "binary":
                names = s.arg_names
                res = s.ret
                req = required_bits(width, names, carry_in)
                if sp["writes_dest"]:
                    if res is not None and res.kind == "int":
                        check_required_deps(chk, "C01.R4", unit, "result", res.bits, req, where)
                else:
                    # CMP returns what the action stores back: must be its first operand, bit for bit
                    if res is not None and is_copy(res, names[0]):
                        chk.ok("C01.R6", unit + ":helper-returns-dest", "returns op1 unchanged")
                    else:
                        chk.violation("C01.R6", unit, "cmp-returns-not-dest", f"{fn['name']} does not return its first operand unchanged", where)
            else:
                names = s.arg_names
                res = s.slots.get(names[0])
                req = required_bits(width, names, False)
                if res is not None and res.kind == "int":
                    check_required_deps(chk, "C01.R4", unit, "result", res.bits, req, where)
            for f in sp["written"]:
                fr = flag_required(f, width, names, carry_in)
                if m in ("inc", "dec", "neg"):
                    fr = {(n, i) for (n, i) in fr if n == names[0]}
                check_required_deps(chk, "C01.R4", unit, f, (s.flag.bits[FBIT[f]],), fr, where)
            report_aborts(chk, "C01.R7", unit, s.I.events, where)
            result_value_rule(ctx, chk, unit, m, group, fn, width, where)
            flag_predicate_rule(ctx, chk, unit, m, group, fn, width, where, sp["written"])

    # production-level: CMP no write-back, frames
    from units import address_overrides
    ov = address_overrides(G)
    ai = arch_index(P)
    for nt_fam, tabnts in (("binary_arithmetic", ("byte_binary_arithmetic", "word_binary_arithmetic")),
                           ("unary_arithmetic", ("byte_unary_arithmetic", "word_unary_arithmetic"))):
        for nt, k, p in G.instruction_productions(nt_fam):
            label = G.prod_label(nt, k)
            syms = [s["name"] for s in p["symbols"]]
            tab = syms[0]
            width = 8 if tab.startswith("byte") else 16
            dest_sym = next(s for s in syms[1:] if s not in ('"byte"', '"word"'))
            where = f"{G.g['file']}:{p['line']}"
            for mk, mp in enumerate(G.productions(tab)):
                m = [s["name"].strip('"') for s in mp["symbols"] if s["t"] == "term"][0]
                if m not in ("add", "adc", "sub", "sbb", "cmp", "inc", "dec", "neg"):
                    continue
                dest_regs = [None]
                if dest_sym in ("byte_reg", "word_reg"):
                    dest_regs = list(range(len(G.productions(dest_sym))))
                    if ctx.tier == "quick" and m not in ("cmp",):
                        dest_regs = dest_regs[:1] + dest_regs[-1:]
                for dr in dest_regs:
                    first = {"seen": False}

                    def chooser(path, n, prods, dr=dr, mk=mk):
                        if n == tab:
                            return mk
                        if n == dest_sym and dr is not None and len(path) == 1 and path[0] == 1:
                            return dr
                        return None
                    try:
                        I, st, v, r = run_interp_production(ctx, nt, k, chooser, overrides=ov)
                    except Unsupported as e:
                        chk.undecided_("C01.R6", f"{label}[{m}]", str(e))
                        continue
                    unit = f"{label} [{m}{'' if dr is None else ',dest#' + str(dr)}]"
                    vm = st.frames[0]["vm"]
                    regs = {n: vm.fields[0].fields[i] for n, i in ai.items()}
                    mem = st.frames[0]["mem"]
                    changed = [n for n, val in regs.items() if n != "flag" and not is_copy(val, n)]
                    written = [kk for kk, (idx, val) in mem.cells.items() if not is_copy(val, "mem[" + kk + "]")]
                    if mem.havoc is not None:
                        written.append("<havoc>")
                    if m == "cmp":
                        if changed or written:
                            chk.violation("C01.R6", f"{label} [cmp]", "cmp-writes-" + "+".join(changed + written),
                                          f"CMP modifies {changed + written}", where)
                        else:
                            chk.ok("C01.R6", unit, "no register or memory cell changes")
                    else:
                        # only the destination may change
                        if dest_sym in ("byte_reg", "word_reg"):
                            bad = written
                            okc = len(changed) <= 1
                            if bad or not okc:
                                chk.violation("C01.R6", f"{label} [{m}]", "writes-beyond-destination",
                                              f"register destination form writes {changed + written}", where)
                            else:
                                chk.ok("C01.R6", unit, f"changes {changed or 'nothing'} only")
                        else:
                            cells = 1 if width == 8 else 2
                            if changed or len(written) > cells:
                                chk.violation("C01.R6", f"{label} [{m}]", "writes-beyond-destination",
                                              f"memory destination form writes {changed + written}", where)
                            else:
                                chk.ok("C01.R6", unit, f"writes {written} only")
                    report_aborts(chk, "C01.R7", unit, [e for e in I.events if "__action" in e.fn], where)
                    # R10: an immediate operand reaches the helper with all the bits of the destination width
                    if nt_fam == "binary_arithmetic" and dr == dest_regs[0]:
                        from domains import bits_all_deps
                        for e in I.events:
                            if e.kind == "call" and "__action" in e.fn and e.callee and len(e.args) == 3 and e.args[-1].kind == "int":
                                src = e.args[-1]
                                per_bit = [{b for a, b in bits_all_deps(src.bits[i:i + 1]) if str(a).startswith("num:")} for i in range(len(src.bits))]
                                if not any(per_bit):
                                    continue   # not an immediate form
                                missing = [i for i in range(len(src.bits)) if i not in per_bit[i]]
                                if not missing:
                                    chk.ok("C01.R10", f"{label} [{m}]", f"immediate: each of the {len(src.bits)} operand bits comes from the same bit of the literal")
                                else:
                                    chk.violation("C01.R10", label, "immediate-narrower-than-destination",
                                                  f"{label}: bits {missing[0]}..{missing[-1]} of the {len(src.bits)}-bit source operand do not depend on the same bits of the literal "
                                                  f"(they repeat bit {sorted(per_bit[missing[0]])[:1]}): the immediate is read in a narrower type than the destination, so a "
                                                  f"{len(src.bits)}-bit immediate above that range cannot be an operand of this form", where,
                                                  witness=f"{m} with an immediate of 0x{(1 << (missing[0] + 1)) - 1 + (1 << missing[0]):X}")
                                break


from absint import Unsupported  # noqa: E402


def sibling_rule(ctx, chk):
    """C01.R8 (see siblings.py): width-parametric copies must agree; a dropped operand is a definite slip."""
    import siblings as S
    P = ctx.program
    for m, d in sorted(S.sibling_pairs(P).items()):
        a, b = S.flag_trees(d["byte"]), S.flag_trees(d["word"])
        if not a and not b:
            continue
        where_b, where_w = fn_where(d["byte"]), fn_where(d["word"])
        for f in sorted(set(a) | set(b)):
            ta, tb = a.get(f), b.get(f)
            unit = f"{m}:{f}"
            if ta is None or tb is None:
                chk.undecided_("C01.R8", unit, "flag set by only one of the two helpers through set_all_flags")
                continue
            if ta == tb:
                chk.ok("C01.R8", unit, S.show(ta)[:120])
                continue
            dw = S.dropped_operand(ta, tb)  # word lacks something byte has
            db = S.dropped_operand(tb, ta)
            if dw or db:
                opn, what = dw or db
                who, other, where = ("word", "byte", where_w) if dw else ("byte", "word", where_b)
                chk.violation("C01.R8", f"{m}.{who[0]}", f"{f}-drops-operand:{what}",
                              f"{who}_{m}: the expression for `{f}` is the {other} form with the operand `{what}` of a {opn} left out "
                              f"({other}: {S.show(ta if dw else tb)[:160]}; {who}: {S.show(tb if dw else ta)[:160]}): the two widths compute this flag differently", where)
            else:
                sn = S.single_node_diff(ta, tb)
                if sn:
                    chk.violation("C01.R8", m, f"{f}-{sn[0]}-differs:{sn[1]}/{sn[2]}",
                                  f"byte_{m} and word_{m} compute `{f}` from expressions that differ in exactly one {sn[0]} (byte: {sn[1]}, word: {sn[2]}) after width "
                                  f"normalisation: one of the two is wrong", where_w)
                else:
                    chk.undecided_("C01.R8", unit, f"different formulations: byte {S.show(ta)[:100]} / word {S.show(tb)[:100]}")
    # helpers that set flags one by one (inc, dec, neg): whole-function fingerprints
    for m, d in sorted(S.sibling_pairs(P).items()):
        if m in ("mul", "imul", "div", "idiv"):
            continue  # the word forms use DX:AX: not copies of the byte forms (C03)
        if S.flag_trees(d["byte"]) or S.flag_trees(d["word"]):
            continue
        r = S.compare_fingerprints(S.fingerprint(d["byte"]), S.fingerprint(d["word"]))
        where = fn_where(d["word"])
        if r[0] == "same":
            chk.ok("C01.R8", f"{m}:fingerprint", f"{r[1]} conditions/flag calls/result expressions agree")
        elif r[0] == "dropped":
            _, kind, opn, operand, side = r
            who = "word" if side == "b" else "byte"
            chk.violation("C01.R8", f"{m}.{who[0]}", f"{kind}-drops-operand:{operand}", f"{who}_{m}: a {kind} expression is the other width's with `{operand}` of a {opn} left out", where)
        elif r[0] == "node":
            _, kind, what, x, y = r
            chk.violation("C01.R8", m, f"{kind}-{what}-differs:{x}/{y}", f"byte_{m} and word_{m} differ in exactly one {what} of a {kind} expression (byte: {x}, word: {y})", where)
        else:
            chk.undecided_("C01.R8", f"{m}:fingerprint", "formulated differently")


def zero_test_rule(ctx, chk, unit, fn, s, width, where, key_unit=None):
    """C01.R9.  ZF must say whether the *stored* w-bit result is zero.  The helpers hand a bool `zero` to a flag-setting
    routine; V knows the comparison that produced it (x == 0).  If x is the result itself (same bits) the clause holds.
    If x is a wider intermediate whose low w bits are the result, `x == 0` differs from `result == 0` exactly when x is a
    non-zero multiple of 2^w: decided on x's interval -- DEFINITE when x is exact (its interval comes from an affine form
    of independent inputs), e.g. op1 - op2 - borrow = -65536 for 0 - FFFFh - 1."""
    P = ctx.program
    tests = []
    for e in s.I.events:
        if e.kind != "call" or not getattr(e, "fref", None):
            continue
        name = e.fref.get("def") or ""
        callee = P.fns.get(e.fref.get("id"))
        if callee is None or not name.startswith("instructions::"):
            continue
        zero = None
        for i, a in enumerate(e.args):
            if a.kind == "agg" and P.adts.get(str(a.name)):
                names = [f[0] for f in P.adts[str(a.name)]["variants"][0]["fields"]]
                if "zero" in names and len(a.fields) == len(names):
                    zero = a.fields[names.index("zero")]
            elif a.kind == "int" and a.ty == "bool" and i + 1 < len(callee["locals"]) and callee["locals"][i + 1].get("name") == "zero":
                zero = a
        if zero is not None:
            tests.append(zero)
    if not tests:
        return
    # which value is the stored result?  decided on symbolic terms of the helper's own MIR (joins inside the flag
    # routine blur the abstract value of the returned local, its term stays what it was assigned)
    from symterm import SymFlow, strip as tstrip
    import mir as M
    F = SymFlow(fn)
    entry, _, _ = F.run(0)
    ret_terms = set()
    for bi, bb in enumerate(fn["blocks"]):
        if bi in entry and M.term(bb)[0] == "return":
            env = F.step_stmts(entry[bi], bi)
            if 0 in env:
                ret_terms.add(env[0])
            for k_, v_ in env.items():
                if isinstance(k_, tuple) and k_[0] == "*":
                    ret_terms.add(v_)
    zero_terms = []
    for bi, t in M.calls_in(fn):
        if bi not in entry:
            continue
        callee = P.fns.get(t[1].get("id"))
        if callee is None:
            continue
        for i, a in enumerate(F.call_args(entry[bi], bi)):
            a = tstrip(a)
            if a[0] == "agg" and P.adts.get(str(a[1])):
                names = [f[0] for f in P.adts[str(a[1])]["variants"][0]["fields"]]
                if "zero" in names and len(a[3]) == len(names):
                    zero_terms.append(a[3][names.index("zero")])
            elif i + 1 < len(callee["locals"]) and callee["locals"][i + 1].get("name") == "zero":
                zero_terms.append(a)

    def same_value(tx):
        """'same' if the tested term is a stored result, 'wider' if a stored result is a truncating cast of it"""
        for r_ in ret_terms:
            r0 = r_
            if r0 == tx:
                return "same"
            while r0[0] == "cast":
                r0 = r0[2]
                if r0 == tx:
                    return "wider"
        return None
    rel = None
    for zt in zero_terms[:1]:
        if zt[0] == "bin" and zt[1] in ("Eq", "Ne") and ("const", 0) in (zt[2], zt[3]):
            tx = zt[3] if zt[2] == ("const", 0) else zt[2]
            rel = same_value(tx)
    for z in tests[:1]:
        pr = z.pred
        if not pr or pr[0] != "cmp" or pr[1] not in ("Eq", "Ne") or not (pr[3].kind == "int" and pr[3].is_const() and pr[3].lo == 0):
            chk.undecided_("C01.R9", unit, "the zero flag's condition is not a comparison with 0")
            continue
        x = pr[2]
        if x.kind != "int":
            chk.undecided_("C01.R9", unit, "tested value not an integer")
            continue
        if rel is None:
            chk.undecided_("C01.R9", unit, "the tested value is not visibly the stored result")
            continue
        if rel == "same" or x.w <= width:
            chk.ok("C01.R9", unit, f"ZF <- ({x.ty} result == 0)")
            continue
        mod = 1 << width
        k_lo, k_hi = -((-x.lo) // mod), x.hi // mod
        ks = [k for k in range(k_lo, k_hi + 1) if k != 0][:3]
        if not ks:
            chk.ok("C01.R9", unit, f"ZF <- ({x.ty} intermediate == 0); its range [{x.lo},{x.hi}] contains no non-zero multiple of 2^{width}")
        elif x.exact:
            chk.violation("C01.R9", key_unit or unit, "zf-from-untruncated-value",
                          f"{fn['name']} computes ZF from the {x.w}-bit intermediate {x.aff.pretty() if x.aff is not None else ''} instead of the stored {width}-bit result: "
                          f"for the value {ks[0] * mod} the result is 0 but ZF stays clear", where,
                          witness=f"intermediate = {ks[0] * mod} (range [{x.lo},{x.hi}])")
        else:
            chk.undecided_("C01.R9", unit, f"wide intermediate with range [{x.lo},{x.hi}] (not exact)")


def result_value_rule(ctx, chk, unit, m, group, fn, width, where):
    """C01.R11.  The value a helper returns (binary forms) or leaves in its operand (unary forms), as a closed form over
    the operand atoms, must be the manual's arithmetic result modulo 2^width:
        add op1+op2   adc op1+op2+CF   sub op1-op2   sbb op1-op2-CF   inc val+1   dec val-1   neg -val   (cmp: R6)
    The affine domain keeps `c + sum k_i*x_i mod 2^w` exactly through widening casts, wrapping and checked additions,
    `!x` and narrowing casts; a value refined on one branch only (`if res == 0`) keeps its symbolic identity across the
    join.  The run is partitioned on the incoming carry (ADC/SBB) and, for unary forms, on the operand cells
    {0}, [1,MIN-1], {MIN}, [MIN+1,MAX] so that special-cased operands (NEG of MIN, of 0) are single paths.
    Equal canonical forms = equal for every operand; two linear forms that differ come with a concrete operand pair;
    a value without a closed form is undecided."""
    from domains import Lin, lin_equal_witness
    M_ = 1 << width
    if m == "cmp":
        return
    cells = [None]
    carries = [None]
    if m in ("adc", "sbb"):
        carries = [0, 1]
    names = [l["name"] or f"arg{i}" for i, l in enumerate(fn["locals"][1:fn["argc"] + 1], 1)][1:]
    if group != "binary":
        mn = 1 << (width - 1)
        cells = [(0, 0), (1, mn - 1), (mn, mn), (mn + 1, M_ - 1)]
    verdicts = []
    for cv in carries:
        for cell in cells:
            kw = {}
            if cv is not None:
                kw["assume"] = {("flag", FBIT["CF"]): cv}
            if cell is not None:
                if cell[0] == cell[1]:
                    kw["specialise"] = {names[0]: cell[0]}
                else:
                    kw["ranges"] = {names[0]: cell}
            try:
                s = summarize_fn(ctx, fn, **kw)
            except Unsupported as e:
                verdicts.append(("undecided", str(e)))
                continue
            if s.st.dead:
                verdicts.append(("undecided", "no returning path"))
                continue
            got = s.ret if group == "binary" else s.slots.get(names[0])
            if got is None or got.kind != "int":
                verdicts.append(("undecided", "result is not an integer value"))
                continue
            c = cv or 0
            if group == "binary":
                a, b = Lin.atom(names[0]), Lin.atom(names[1])
                want = {"add": a.add(b), "adc": a.add(b).add(Lin(c)), "sub": a.sub(b), "sbb": a.sub(b).sub(Lin(c))}[m]
            else:
                v = Lin.atom(names[0]) if cell[0] != cell[1] else Lin(cell[0])
                want = {"inc": v.add(Lin(1)), "dec": v.sub(Lin(1)), "neg": v.scale(-1)}[m]
            want = want.mod(M_)
            tag = ("" if cv is None else f"CF={cv}") + ("" if cell is None else f" {names[0]} in [{cell[0]},{cell[1]}]")
            if got.aff is None:
                if got.lo == got.hi and want.is_const():
                    verdicts.append(("ok", tag) if got.lo == want.c else ("bad", f"{tag}: result {got.lo}, expected {want.c}"))
                else:
                    verdicts.append(("undecided", f"{tag}: the result has no closed form"))
                continue
            have = got.aff.mod(M_)
            ranges = s.I.atom_ranges()
            r = lin_equal_witness(have, want, ranges)
            if r[0] == "equal":
                verdicts.append(("ok", tag))
            elif r[0] == "differ":
                env = r[1]
                verdicts.append(("bad", f"{tag}: result is {have.pretty()} where the manual gives {want.pretty()}; e.g. " +
                                 ", ".join(f"{k}={v}" for k, v in sorted(env.items())) + f": {have.eval(env) % M_} instead of {want.eval(env) % M_}"))
            else:
                verdicts.append(("undecided", f"{tag}: {have.pretty()} not comparable with {want.pretty()}"))
    bad = [t for k, t in verdicts if k == "bad"]
    und = [t for k, t in verdicts if k == "undecided"]
    if bad:
        chk.violation("C01.R11", unit, "result-value", f"{fn['name']}: {bad[0]}", where, witness=bad[0])
    elif und:
        chk.undecided_("C01.R11", unit, und[0])
    else:
        chk.ok("C01.R11", unit, f"result = manual's value mod 2^{width} in {len(verdicts)} partition(s)")


# ---------------------------------------------------------------------------------------------------------------
# R12: the flag formulas of the ADD / SUB family as predicates over the operands
def _norm_pred(p, ranges, depth=0):
    """normal form of a boolean V value's provenance: ('pos', Lin D) = (D > 0), ('zero', D), ('nonzero', D),
    ('xor', p, q) with the pair ordered; None when some operand has no closed form"""
    from domains import Lin
    if p is None or depth > 6:
        return None
    pr = getattr(p, "pred", None)
    if pr is None:
        return None
    k = pr[0]
    if k == "not":
        q = _norm_pred(pr[1], ranges, depth + 1)
        return _negate(q)
    if k == "xor":
        a, b = _norm_pred(pr[1], ranges, depth + 1), _norm_pred(pr[2], ranges, depth + 1)
        if a is None or b is None:
            return None
        return ("xor",) + tuple(sorted((a, b), key=repr))
    if k == "ovf":
        # the overflow flag of overflowing_add / overflowing_sub on unsigned operands: carry out / borrow
        base, x, y = pr[1], pr[2], pr[3]
        if x.kind != "int" or y.kind != "int" or x.signed or x.aff is None or y.aff is None:
            return None
        import mir as M
        tlo, thi = M.type_range(x.ty)
        if base == "Add":
            return ("pos", x.aff.add(y.aff).sub(Lin(thi)).simplify(ranges))
        if base == "Sub":
            return ("pos", y.aff.sub(x.aff).simplify(ranges))
        return None
    if k != "cmp":
        return None
    op, x, y = pr[1], pr[2], pr[3]
    if x.kind != "int" or y.kind != "int":
        return None
    # (v & 2^k) != 0  /  == 0 : bit k of v
    for u, z in ((x, y), (y, x)):
        up = getattr(u, "pred", None)
        if up is not None and up[0] == "bit" and z.is_const() and z.lo == 0 and op in ("Ne", "Eq", "Gt"):
            v, kbit = up[1], up[2]
            if v.aff is None or (op == "Gt" and u is not x):
                return None
            d = v.aff.mod(1 << (kbit + 1)).sub(Lin((1 << kbit) - 1))
            res = ("pos", d.simplify(ranges))
            return _negate(res) if op == "Eq" else res
    if x.aff is None or y.aff is None:
        return None
    a, b = x.aff, y.aff
    if op == "Gt":
        return ("pos", a.sub(b).simplify(ranges))
    if op == "Ge":
        return ("pos", a.sub(b).add(Lin(1)).simplify(ranges))
    if op == "Lt":
        return ("pos", b.sub(a).simplify(ranges))
    if op == "Le":
        return ("pos", b.sub(a).add(Lin(1)).simplify(ranges))
    if op == "Eq":
        return ("zero", a.sub(b).simplify(ranges))
    if op == "Ne":
        return ("nonzero", a.sub(b).simplify(ranges))
    return None


def _negate(q):
    from domains import Lin
    if q is None:
        return None
    if q[0] == "pos":
        return ("pos", Lin(1).sub(q[1]))
    if q[0] == "zero":
        return ("nonzero", q[1])
    if q[0] == "nonzero":
        return ("zero", q[1])
    if q[0] == "xor":
        return ("xor",) + tuple(sorted((_negate(q[1]), q[2]), key=repr))
    return None


def _eval_pred(q, env):
    if q[0] == "pos":
        return q[1].eval(env) > 0
    if q[0] == "zero":
        return q[1].eval(env) == 0
    if q[0] == "nonzero":
        return q[1].eval(env) != 0
    return _eval_pred(q[1], env) != _eval_pred(q[2], env)


def _pred_atoms(q):
    if q[0] == "xor":
        return _pred_atoms(q[1]) | _pred_atoms(q[2])
    return q[1].atoms()


def _pred_show(q):
    if q[0] == "xor":
        return f"({_pred_show(q[1])}) xor ({_pred_show(q[2])})"
    return {"pos": "{} > 0", "zero": "{} == 0", "nonzero": "{} != 0"}[q[0]].format(q[1].pretty())


def _canon_pred(q, ranges=None):
    """`sx_w(X) < 0` is `X mod 2^w >= 2^(w-1)`; `D != 0` with D >= 0 is `D > 0`: one spelling each"""
    from domains import Lin
    if q[0] == "xor":
        return ("xor",) + tuple(sorted((_canon_pred(q[1], ranges), _canon_pred(q[2], ranges)), key=repr))
    if q[0] == "nonzero" and ranges is not None:
        lo, hi = q[1].interval(ranges)
        if lo >= 0:
            return ("pos", q[1])
        if hi <= 0:
            return ("pos", q[1].scale(-1))
    if q[0] == "pos" and q[1].c == 0 and len(q[1].terms) == 1:
        b, k = q[1].terms[0]
        if k == -1 and not isinstance(b, str) and b[0] == "sx":
            w = b[2]
            return ("pos", b[1].mod(1 << w).sub(Lin((1 << (w - 1)) - 1)))
    return q


def _compare_preds(have, want, ranges):
    """'equal' | ('differ', env) | 'unknown' : both are exact predicates over the operand atoms"""
    import itertools
    have, want = _canon_pred(have, ranges), _canon_pred(want, ranges)
    if have == want or repr(have) == repr(want):
        return "equal"
    if have[0] == want[0] and have[0] in ("zero", "nonzero"):
        # D == 0 <=> D mod m == 0 when |D| < m
        for m in (1 << 8, 1 << 16, 1 << 32):
            (l1, h1), (l2, h2) = have[1].interval(ranges), want[1].interval(ranges)
            if -m < l1 and h1 < m and -m < l2 and h2 < m and have[1].mod(m) == want[1].mod(m):
                return "equal"
    atoms = sorted(_pred_atoms(have) | _pred_atoms(want))
    cand = []
    complete = True
    for at in atoms:
        lo, hi = ranges.get(at, (0, 0xFFFF))
        pts = {lo, hi, lo + 1, hi - 1, (lo + hi) // 2, (lo + hi) // 2 + 1}
        for k in (3, 4, 7, 8, 15, 16):
            for d in (-1, 0, 1):
                pts.add((1 << k) + d)
                pts.add(hi - (1 << k) + d)
        pts = sorted(p for p in pts if lo <= p <= hi)
        if hi - lo + 1 > len(pts):
            complete = False
        else:
            pts = list(range(lo, hi + 1))
        cand.append(pts)
    for vals in itertools.product(*cand):
        env = dict(zip(atoms, vals))
        if _eval_pred(have, env) != _eval_pred(want, env):
            return ("differ", env)
    return "equal" if complete else "unknown"


_FLAGMAP_CACHE = {}


def bool_flag_map(ctx, e):
    """Which boolean argument of this call decides which flag bit, and with which polarity: the callee is run once with all
    its boolean arguments false and once per argument with only that one true; a flag bit that differs between the two
    final flag words is decided by that argument.  -> {flag bit: (index path of the bool, polarity)}"""
    from absint import Interp, IntV, AggV, Unsupported as U_
    from units import machine_state
    P = ctx.program
    g = P.fns.get(e.fref.get("id")) if getattr(e, "fref", None) else None
    if g is None:
        return {}
    paths = []
    for i, a in enumerate(e.args):
        if a.kind == "int" and a.ty == "bool":
            paths.append((i,))
        elif a.kind == "agg":
            for j, f in enumerate(a.fields):
                if f.kind == "int" and f.ty == "bool":
                    paths.append((i, j))
    if not paths:
        return {}
    key = (g["id"], tuple(paths))
    if key in _FLAGMAP_CACHE:
        return _FLAGMAP_CACHE[key]
    ai = arch_index(P)

    def run(true_path):
        I = Interp(P)
        st = machine_state(I, P)
        args = []
        for i, a in enumerate(e.args):
            if (i,) in paths:
                args.append(IntV.const("bool", 1 if (i,) == true_path else 0))
            elif a.kind == "agg" and any(p[0] == i for p in paths):
                fs = [IntV.const("bool", 1 if (i, j) == true_path else 0) if (i, j) in paths else f for j, f in enumerate(a.fields)]
                args.append(AggV(a.name, fs))
            elif a.kind == "ref":
                args.append(a)
            else:
                return None
        try:
            I.run_fn(g, args, st)
        except U_:
            return None
        if st.dead:
            return None
        return st.frames[0]["vm"].fields[0].fields[ai["flag"]]
    base = run(None)
    out = {}
    if base is not None and base.kind == "int":
        for p in paths:
            r = run(p)
            if r is None or r.kind != "int":
                continue
            for bit in range(16):
                if r.bits[bit] != base.bits[bit] and r.bits[bit] in (0, 1) and base.bits[bit] in (0, 1):
                    out[bit] = (p, r.bits[bit])
    _FLAGMAP_CACHE[key] = out
    return out


_PARITY_FN_CACHE = {}


def is_parity_helper(ctx, g):
    """does the local function g(u8) -> bool return `true iff its argument has an even number of 1 bits`?  Decided on the
    bit domain, where xor-folds are exact linear forms over GF(2): the result bit must be the complement of the xor of the
    eight argument bits."""
    from absint import Interp, Unsupported as U_
    from units import machine_state
    from domains import bxform
    if g["id"] in _PARITY_FN_CACHE:
        return _PARITY_FN_CACHE[g["id"]]
    ok = None
    try:
        if g["argc"] == 1 and (g["locals"][1]["ty"] or "") == "u8":
            I = Interp(ctx.program)
            st = machine_state(I, ctx.program)
            r = I.run_fn(g, [I.new_atom("u8", "v")], st)
            if r is not None and r.kind == "int" and r.ty == "bool":
                xf = bxform(r.bits[0])
                if xf is not None:
                    ok = (xf == (frozenset(("v", i) for i in range(8)), 1))
    except U_:
        ok = None
    _PARITY_FN_CACHE[g["id"]] = ok
    return ok


def parity_verdict(ctx, s, pf_bool, pol, want_val, ranges, result_value=None):
    """PF <- even parity of the low byte of the result: the boolean that sets PF must come out of a call of a parity helper
    (`is_parity_helper`) whose argument is, modulo 256, the result.  -> (verdict, text)"""
    P = ctx.program
    cands = []
    for e in s.I.events:
        if e.kind != "call" or not getattr(e, "fref", None) or not e.fref.get("local") or len(e.args) != 1:
            continue
        a0 = e.args[0]
        if a0.kind == "int" and a0.vid in pf_bool.lineage:
            g = P.fns.get(e.fref.get("id"))
            if g is not None:
                cands.append((e, g, a0))
    if not cands:
        return ("undecided", "the boolean that sets PF does not come out of a one-argument helper call")
    e, g, a0 = cands[-1]
    par = is_parity_helper(ctx, g)
    if par is None:
        return ("undecided", f"{g['name'].split('::')[-1]} is not recognised as a parity function on the bit domain")
    if par is False or pol != 1:
        return ("bad", f"PF is set from {g['name'].split('::')[-1]}, which does not return `even number of 1 bits` of its argument")
    if result_value is not None and result_value.kind == "int" and a0.bits[:8] == result_value.bits[:8]:
        return ("ok", "even parity of the low byte of the very value that is returned")
    if a0.aff is None or want_val is None:
        return ("undecided", "the argument of the parity helper has no closed form")
    have, want = a0.aff.mod(256).simplify(ranges), want_val.mod(256).simplify(ranges)
    from domains import lin_equal_witness
    r = lin_equal_witness(have, want, ranges)
    if r[0] == "equal":
        return ("ok", f"even parity of {have.pretty()}")
    if r[0] == "differ":
        env = r[1]
        return ("bad", f"PF is the parity of {have.pretty()}, not of the low byte of the result {want.pretty()}; e.g. " + ", ".join(f"{k}={v}" for k, v in sorted(env.items())))
    return ("undecided", f"parity of {have.pretty()} not comparable with the result {want.pretty()}")


def flag_predicate_rule(ctx, chk, unit, m, group, fn, width, where, written):
    """C01.R12.  For ADD/ADC/SUB/SBB/CMP/INC/DEC/NEG: CF, AF, ZF, SF and OF as *predicates over the operands*.
    The helpers compute booleans and hand them to a flag-setting routine; V keeps, for each boolean, the comparison that
    produced it with the closed forms of both sides, and `bool_flag_map` tells which boolean sets which flag.  The
    manual's definition is written in the same normal form (D > 0, D == 0, xor of two such):
        add  CF: a+b+c > 2^w-1   AF: a%16+b%16+c > 15   OF: (a%H+b%H+c > H-1) xor CF   SF: result >= H   ZF: result == 0
        sub  CF: a < b+c         AF: a%16 < b%16+c      OF: (a%H < b%H+c) xor CF        (result = (a-b-c) mod 2^w)
    (H = 2^(w-1); inc/dec are add/sub of 1 with CF left alone; neg is 0 - val).  Equal normal forms: the flag is right for
    every operand.  Different forms are evaluated on a grid of boundary operands; a point where they disagree is a
    concrete counterexample.  A boolean without a closed form (a hand-written bit trick) leaves that flag undecided."""
    from domains import Lin, bits_all_deps
    M_, H = 1 << width, 1 << (width - 1)
    names = [l["name"] or f"arg{i}" for i, l in enumerate(fn["locals"][1:fn["argc"] + 1], 1)][1:]
    if m == "neg":
        # NEG sets its flags by hand-written branches on the operand: on the operand cells {0}, [1,MIN-1], {MIN},
        # [MIN+1,MAX] every branch is decided and CF, OF, ZF, SF are constants (0 - val: CF = val != 0, OF = val == MIN,
        # ZF = val == 0, SF = top bit of -val), which the final flag word must show
        cells = [((0, 0), {"CF": 0, "OF": 0, "ZF": 1, "SF": 0}), ((1, H - 1), {"CF": 1, "OF": 0, "ZF": 0, "SF": 1}),
                 ((H, H), {"CF": 1, "OF": 1, "ZF": 0, "SF": 1}), ((H + 1, M_ - 1), {"CF": 1, "OF": 0, "ZF": 0, "SF": 0})]
        res = {}
        for (lo, hi), want in cells:
            kw = {"specialise": {names[0]: lo}} if lo == hi else {"ranges": {names[0]: (lo, hi)}}
            try:
                s = summarize_fn(ctx, fn, **kw)
            except Unsupported as e:
                for f in want:
                    res.setdefault(f, []).append(("undecided", str(e)))
                continue
            for f, wv in want.items():
                if f not in written:
                    continue
                gb = s.flag.bits[FBIT[f]] if not s.st.dead and s.flag.kind == "int" else None
                if gb == wv:
                    res.setdefault(f, []).append(("ok", ""))
                elif gb in (0, 1):
                    res.setdefault(f, []).append(("bad", f"{f} = {gb} for {names[0]} in [{lo},{hi}], the manual gives {wv}"))
                else:
                    # not a constant on this cell: does it follow the flag's own previous value?  (partition on it)
                    verdict = ("undecided", f"{f} is not a constant for {names[0]} in [{lo},{hi}]")
                    for old in (1 - wv, wv):
                        try:
                            s2 = summarize_fn(ctx, fn, assume={("flag", FBIT[f]): old}, **kw)
                        except Unsupported:
                            continue
                        g2 = s2.flag.bits[FBIT[f]] if not s2.st.dead and s2.flag.kind == "int" else None
                        if g2 in (0, 1) and g2 != wv:
                            verdict = ("bad", f"{f} = {g2} for {names[0]} in [{lo},{hi}] when {f} was {old} before, the manual gives {wv}")
                            break
                    res.setdefault(f, []).append(verdict)
        # AF = borrow out of bit 3 of 0 - val = (val mod 16 != 0): not a constant on any cell; the helper sets it on the two
        # sides of a hand-written branch whose condition V has as a closed form
        if "AF" in written:
            from insn import branch_flag_conditions
            try:
                sf = summarize_fn(ctx, fn, record_switch=True)
                conds = branch_flag_conditions(ctx, fn, sf)
            except Unsupported:
                conds = {}
            if FBIT["AF"] not in conds:
                res.setdefault("AF", []).append(("undecided", "AF is not set and cleared on the two sides of one branch of the helper"))
            else:
                d_, truth, arm = conds[FBIT["AF"]]
                rg = sf.I.atom_ranges()
                have = _norm_pred(d_, rg) if arm is None else (("zero" if truth else "nonzero", d_.aff.sub(Lin(arm)).simplify(rg)) if d_.aff is not None else None)
                if have is not None and arm is None and not truth:
                    have = _negate(have)
                want_af = ("pos", Lin.atom(names[0]).mod(16).simplify(rg))
                if have is None:
                    res.setdefault("AF", []).append(("undecided", "the branch condition of AF has no closed form"))
                else:
                    r_ = _compare_preds(have, want_af, rg)
                    if r_ == "equal":
                        res.setdefault("AF", []).append(("ok", ""))
                    elif r_ == "unknown":
                        res.setdefault("AF", []).append(("undecided", f"{_pred_show(have)} not comparable with {_pred_show(want_af)}"))
                    else:
                        env = r_[1]
                        res.setdefault("AF", []).append(("bad", f"AF is set iff [{_pred_show(have)}], the manual sets it iff the low nibble of the operand is not 0 "
                                                         f"[{_pred_show(want_af)}]; they differ for " + ", ".join(f"{k}={v_}" for k, v_ in sorted(env.items()))))
        for f, lst in sorted(res.items()):
            bad = [t for k, t in lst if k == "bad"]
            und = [t for k, t in lst if k == "undecided"]
            if bad:
                chk.violation("C01.R12", unit, f"{f}-formula", f"{fn['name']}: {bad[0]}", where, witness=bad[0])
            elif und:
                chk.undecided_("C01.R12", f"{unit}:{f}", und[0])
            else:
                chk.ok("C01.R12", f"{unit}:{f}", "as the manual defines, on each of the four operand cells" if f != "AF" else "AF iff the low nibble of the operand is not 0")
        return
    carries = [0, 1] if m in ("adc", "sbb") else [None]
    results = {}
    for cv in carries:
        kw = {"assume": {("flag", FBIT["CF"]): cv}} if cv is not None else {}
        try:
            s = summarize_fn(ctx, fn, **kw)
        except Unsupported:
            continue
        if s.st.dead:
            continue
        ranges = s.I.atom_ranges()
        c = cv or 0
        if group == "binary":
            a, b = Lin.atom(names[0]), Lin.atom(names[1])
        elif m in ("inc", "dec"):
            a, b = Lin.atom(names[0]), Lin(1)
        else:
            a, b = Lin(0), Lin.atom(names[0])
        add = m in ("add", "adc", "inc")
        val = (a.add(b).add(Lin(c)) if add else a.sub(b).sub(Lin(c))).mod(M_)
        if add:
            cf = ("pos", a.add(b).add(Lin(c - (M_ - 1))))
            af = ("pos", a.mod(16).add(b.mod(16)).add(Lin(c - 15)))
            inner = ("pos", a.mod(H).add(b.mod(H)).add(Lin(c - (H - 1))))
        else:
            cf = ("pos", b.add(Lin(c)).sub(a))
            af = ("pos", b.mod(16).add(Lin(c)).sub(a.mod(16)))
            inner = ("pos", b.mod(H).add(Lin(c)).sub(a.mod(H)))
        spec = {"CF": cf, "AF": af, "OF": ("xor",) + tuple(sorted((inner, cf), key=repr)),
                "SF": ("pos", val.sub(Lin(H - 1))), "ZF": ("zero", val)}
        spec = {k: (v[0],) + tuple(x.simplify(ranges) if hasattr(x, "simplify") else ((x[0], x[1].simplify(ranges)) if x[0] != "xor" else x) for x in v[1:]) for k, v in spec.items()}
        # booleans handed to flag routines, latest call wins
        decided = {}
        for e in s.I.events:
            if e.kind != "call" or not getattr(e, "fref", None) or not e.fref.get("local"):
                continue
            for bit, (path, pol) in bool_flag_map(ctx, e).items():
                v = e.args[path[0]] if len(path) == 1 else e.args[path[0]].fields[path[1]]
                decided[bit] = (v, pol)
        if "PF" in written and FBIT["PF"] in decided:
            pv, ppol = decided[FBIT["PF"]]
            results["PF" + ("" if cv is None else f"[CF={cv}]")] = parity_verdict(ctx, s, pv, ppol, val, ranges)
        elif "PF" in written:
            results["PF" + ("" if cv is None else f"[CF={cv}]")] = ("undecided", "no boolean handed to a flag routine decides this flag")
        for f in ("CF", "AF", "OF", "SF", "ZF"):
            if f not in written or (f == "CF" and m in ("inc", "dec")):
                continue
            tag = f"{f}" + ("" if cv is None else f"[CF={cv}]")
            if FBIT[f] not in decided:
                results[tag] = ("undecided", "no boolean handed to a flag routine decides this flag")
                continue
            v, pol = decided[FBIT[f]]
            have = _norm_pred(v, ranges)
            if have is not None and pol == 0:
                have = _negate(have)
            if have is None:
                if v.kind == "int" and v.is_const():
                    results[tag] = ("undecided", "the flag's boolean is a constant on this partition")
                else:
                    results[tag] = ("undecided", "the flag's boolean has no closed form")
                continue
            # the flag bit must really end up as that boolean: its final dependencies are the predicate's atoms
            fin = s.flag.bits[FBIT[f]]
            deps = {a_ for a_, _ in bits_all_deps((fin,))} if isinstance(fin, tuple) else set()
            if not (_pred_atoms(have) <= deps | {"flag"}) and _pred_atoms(have):
                results[tag] = ("undecided", "the flag is written again after the routine")
                continue
            want = spec[f]
            r = _compare_preds(have, want, ranges)
            if r == "equal":
                results[tag] = ("ok", _pred_show(have))
            elif r == "unknown":
                results[tag] = ("undecided", f"{_pred_show(have)} not comparable with {_pred_show(want)}")
            else:
                env = r[1]
                results[tag] = ("bad", f"{f} is computed as [{_pred_show(have)}], the manual defines [{_pred_show(want)}]; they differ for " +
                                ", ".join(f"{k}={v_}" for k, v_ in sorted(env.items())) + ("" if cv is None else f", CF={cv}") +
                                f": {int(_eval_pred(have, env))} instead of {int(_eval_pred(want, env))}")
    by_flag = {}
    for tag, (k, t) in results.items():
        by_flag.setdefault(tag.split("[")[0], []).append((k, t, tag))
    for f, lst in sorted(by_flag.items()):
        bad = [x for x in lst if x[0] == "bad"]
        und = [x for x in lst if x[0] == "undecided"]
        if bad:
            chk.violation("C01.R12", unit, f"{f}-formula", f"{fn['name']}: {bad[0][1]}", where, witness=bad[0][1])
        elif und:
            chk.undecided_("C01.R12", f"{unit}:{f}", und[0][1])
        else:
            chk.ok("C01.R12", f"{unit}:{f}", lst[0][1])
