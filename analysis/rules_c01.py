"""C01 — ADD/ADC/SUB/SBB/CMP/INC/DEC/NEG: flag write-set, definedness, CF preservation of INC/DEC,
frame, CMP no write-back, required input dependencies, table agreement, abort freedom.
Not decided: the numeric result and the flag formulas (value level)."""
from insn import (
    spec, fn_table, summarize_fn, check_flags, check_required_deps, changed_regs, mem_written,
    fn_where, report_aborts, FBIT, is_copy,
)
from units import run_interp_production, addr_atom
from program import arch_index
import mir as M

EXPL = (
    "Static analysis of the MIR of the arithmetic helpers and of the interpreter actions that apply them. "
    "R1 flag frame (bits outside the Intel write-set are bit-for-bit copies), R2 flag definedness (every written "
    "flag is assigned on every path; INC/DEC leave CF a copy), R3 machine frame of the helper (no register, no "
    "memory write), R4 required input dependencies of result and of each flag (missing dependency = definite "
    "defect; the may-depend set over-approximates), R5 byte/word mnemonic tables agree, R6 CMP stores nothing / "
    "other productions store only their destination, R7 abort sites inside these units. "
    "NOT decided: the two's-complement result and the flag formulas themselves (value-level; needs enumeration "
    "or a solver, other families)."
)


def required_bits(width, names, carry_in):
    req = set()
    for n in names:
        for i in range(width):
            req.add((n, i))
    if carry_in:
        req.add(("flag", FBIT["CF"]))
    return req


def flag_required(flag, width, names, carry_in):
    """minimal architectural dependency of each status flag of an add/sub-like operation"""
    lo = lambda k: {(n, i) for n in names for i in range(k)}
    ci = {("flag", FBIT["CF"])} if carry_in else set()
    if flag == "AF":
        return lo(4) | ci
    if flag == "PF":
        return lo(8) | ci
    return lo(width) | ci  # CF, ZF, SF, OF depend on every operand bit (carry chain)


def run(ctx, chk):
    chk.explanation = EXPL + (" R8 sibling cross-check: the byte and the word helper of one mnemonic must build every flag from the same expression tree "
                              "(modulo width constants and casts); a tree that is the other one with one operand left out is reported, other differences of "
                              "formulation are listed as undecided.")
    chk.assumptions += [
        "distinct abstract addresses within one action do not alias",
        "std callees behave as their models (wrapping_add, Into::into, Clone)",
        "the generated parser calls exactly the action lalrpop's tables name (same generator version)",
    ]
    A = spec("arith")
    P = ctx.program
    G = ctx.gram("interpreter")
    r_tab = chk.rule("C01.R5", "byte and word mnemonic tables bind the same mnemonics to helpers", floor=4)
    r_fr = chk.rule("C01.R1", "flags outside the Intel write-set are unchanged", floor=100)
    r_def = chk.rule("C01.R2", "every written flag is assigned on every path; INC/DEC preserve CF", floor=80)
    r_mf = chk.rule("C01.R3", "helper writes no register and no memory", floor=16)
    r_dep = chk.rule("C01.R4", "result and flags depend on every architecturally required input", floor=100)
    r_wb = chk.rule("C01.R6", "CMP writes no destination; other productions write only their destination", floor=30)
    r_ab = chk.rule("C01.R7", "no abort site in the arithmetic helpers / actions can fail", floor=10)
    chk.rule("C01.R8", "byte and word helper of a mnemonic compute every flag from the same expression (no dropped operand)", floor=25)
    chk.rule("C01.R10", "an immediate operand has the width of its destination (every operand bit comes from the same bit of the literal)", floor=6)
    chk.rule("C01.R9", "the zero test is made on the stored result (or on a wider value that cannot be a non-zero multiple of 2^width)", floor=8)
    sibling_rule(ctx, chk)

    tabs = {}
    for nt in ("byte_binary_arithmetic", "word_binary_arithmetic", "byte_unary_arithmetic", "word_unary_arithmetic"):
        tabs[nt] = fn_table(ctx, nt)
    # R5 table agreement
    for a, b in (("byte_binary_arithmetic", "word_binary_arithmetic"), ("byte_unary_arithmetic", "word_unary_arithmetic")):
        ka = set(k for k in tabs[a] if isinstance(k, str))
        kb = set(k for k in tabs[b] if isinstance(k, str))
        if ka != kb:
            chk.violation("C01.R5", f"{a}/{b}", "mnemonic-sets-differ", f"mnemonics {sorted(ka ^ kb)} exist for one width only", G.g["file"])
        else:
            chk.ok("C01.R5", f"{a}/{b}", f"{sorted(ka)}")
        for m in sorted(ka & kb):
            fa, fb = tabs[a][m], tabs[b][m]
            if fa is None or fb is None:
                chk.undecided_("C01.R5", f"{m}", "table entry is not a single function item")
                continue
            na, nb = fa.split("::")[-1], fb.split("::")[-1]
            sa = na.replace("byte_", "", 1) if na.startswith("byte_") else None
            sb = nb.replace("word_", "", 1) if nb.startswith("word_") else None
            if sa is None or sb is None:
                chk.ok("C01.R5", f"{m}:pair", "no width marker in helper names: no verdict", nontrivial=False)
            elif sa != sb:
                chk.violation("C01.R5", m, "byte-word-helper-mismatch", f"'{m}' is bound to {na} for bytes but {nb} for words", G.g["file"])
            else:
                chk.ok("C01.R5", f"{m}:pair", f"{na}/{nb}")

    # function-level rules
    for nt, group in (("byte_binary_arithmetic", "binary"), ("word_binary_arithmetic", "binary"),
                      ("byte_unary_arithmetic", "unary"), ("word_unary_arithmetic", "unary")):
        width = 8 if nt.startswith("byte") else 16
        for m, fid in sorted((k, v) for k, v in tabs[nt].items() if isinstance(k, str)):
            if m not in ("add", "adc", "sub", "sbb", "cmp", "inc", "dec", "neg"):
                continue  # mul/div belong to C03
            if fid is None or fid not in P.fns:
                chk.undecided_("C01.R1", f"{nt}:{m}", "helper not resolved")
                continue
            fn = P.fns[fid]
            unit = f"{m}.{'b' if width == 8 else 'w'}"
            where = fn_where(fn)
            s = summarize_fn(ctx, fn)
            sp = A[group][m]
            carry_in = sp.get("carry_in", False)
            # a flag that must be preserved may be saved and restored (through a branch on its old value): decide that by
            # trace partitioning on the flag's incoming value: in both partitions the final bit is the assumed constant
            flagv = s.flag
            for nm in sp.get("preserved", ()):
                i = FBIT[nm]
                if flagv.kind == "int" and flagv.bits[i] != ("c", "flag", i):
                    same = True
                    for val in (0, 1):
                        s2 = summarize_fn(ctx, fn, assume={("flag", i): val})
                        if s2.flag.kind != "int" or s2.flag.bits[i] != val:
                            same = False
                    if same:
                        from absint import IntV
                        bits = list(flagv.bits)
                        bits[i] = ("c", "flag", i)
                        flagv = IntV(flagv.ty, tuple(bits), flagv.lo, flagv.hi)
            s.flag = flagv
            check_flags(chk, "C01.R1", "C01.R2", unit, s.flag, sp["written"], sp.get("undefined", ()), (),
                        sp.get("preserved", ()), self_dep_ok=(("CF", "PF", "AF", "ZF", "SF", "OF") if carry_in else ()), where=where)
            if carry_in:
                # one run per incoming carry: the intermediate keeps its exact affine form in each partition
                for cv in (0, 1):
                    zero_test_rule(ctx, chk, f"{unit}[CF={cv}]", fn, summarize_fn(ctx, fn, assume={("flag", FBIT["CF"]): cv}), width, where, key_unit=unit)
            else:
                zero_test_rule(ctx, chk, unit, fn, s, width, where)
            # INC/DEC: CF preserved is part of R2's statement
            ch = changed_regs(s)
            mw = mem_written(s)
            if ch or mw:
                chk.violation("C01.R3", unit, "helper-writes-" + "+".join(ch + mw), f"{fn['name']} modifies {ch + mw}", where)
            else:
                chk.ok("C01.R3", unit, "no register/memory write")
            # required dependencies
            if group == "binary":
                names = s.arg_names
                res = s.ret
                req = required_bits(width, names, carry_in)
                if sp["writes_dest"]:
                    if res is not None and res.kind == "int":
                        check_required_deps(chk, "C01.R4", unit, "result", res.bits, req, where)
                else:
                    # CMP returns what the action stores back: must be its first operand, bit for bit
                    if res is not None and is_copy(res, names[0]):
                        chk.ok("C01.R6", unit + ":helper-returns-dest", "returns op1 unchanged")
                    else:
                        chk.violation("C01.R6", unit, "cmp-returns-not-dest", f"{fn['name']} does not return its first operand unchanged", where)
            else:
                names = s.arg_names
                res = s.slots.get(names[0])
                req = required_bits(width, names, False)
                if res is not None and res.kind == "int":
                    check_required_deps(chk, "C01.R4", unit, "result", res.bits, req, where)
            for f in sp["written"]:
                fr = flag_required(f, width, names, carry_in)
                if m in ("inc", "dec", "neg"):
                    fr = {(n, i) for (n, i) in fr if n == names[0]}
                check_required_deps(chk, "C01.R4", unit, f, (s.flag.bits[FBIT[f]],), fr, where)
            report_aborts(chk, "C01.R7", unit, s.I.events, where)

    # production-level: CMP no write-back, frames
    from units import address_overrides
    ov = address_overrides(G)
    ai = arch_index(P)
    for nt_fam, tabnts in (("binary_arithmetic", ("byte_binary_arithmetic", "word_binary_arithmetic")),
                           ("unary_arithmetic", ("byte_unary_arithmetic", "word_unary_arithmetic"))):
        for nt, k, p in G.instruction_productions(nt_fam):
            label = G.prod_label(nt, k)
            syms = [s["name"] for s in p["symbols"]]
            tab = syms[0]
            width = 8 if tab.startswith("byte") else 16
            dest_sym = next(s for s in syms[1:] if s not in ('"byte"', '"word"'))
            where = f"{G.g['file']}:{p['line']}"
            for mk, mp in enumerate(G.productions(tab)):
                m = [s["name"].strip('"') for s in mp["symbols"] if s["t"] == "term"][0]
                if m not in ("add", "adc", "sub", "sbb", "cmp", "inc", "dec", "neg"):
                    continue
                dest_regs = [None]
                if dest_sym in ("byte_reg", "word_reg"):
                    dest_regs = list(range(len(G.productions(dest_sym))))
                    if ctx.tier == "quick" and m not in ("cmp",):
                        dest_regs = dest_regs[:1] + dest_regs[-1:]
                for dr in dest_regs:
                    first = {"seen": False}

                    def chooser(path, n, prods, dr=dr, mk=mk):
                        if n == tab:
                            return mk
                        if n == dest_sym and dr is not None and len(path) == 1 and path[0] == 1:
                            return dr
                        return None
                    try:
                        I, st, v, r = run_interp_production(ctx, nt, k, chooser, overrides=ov)
                    except Unsupported as e:
                        chk.undecided_("C01.R6", f"{label}[{m}]", str(e))
                        continue
                    unit = f"{label} [{m}{'' if dr is None else ',dest#' + str(dr)}]"
                    vm = st.frames[0]["vm"]
                    regs = {n: vm.fields[0].fields[i] for n, i in ai.items()}
                    mem = st.frames[0]["mem"]
                    changed = [n for n, val in regs.items() if n != "flag" and not is_copy(val, n)]
                    written = [kk for kk, (idx, val) in mem.cells.items() if not is_copy(val, "mem[" + kk + "]")]
                    if mem.havoc is not None:
                        written.append("<havoc>")
                    if m == "cmp":
                        if changed or written:
                            chk.violation("C01.R6", f"{label} [cmp]", "cmp-writes-" + "+".join(changed + written),
                                          f"CMP modifies {changed + written}", where)
                        else:
                            chk.ok("C01.R6", unit, "no register or memory cell changes")
                    else:
                        # only the destination may change
                        if dest_sym in ("byte_reg", "word_reg"):
                            bad = written
                            okc = len(changed) <= 1
                            if bad or not okc:
                                chk.violation("C01.R6", f"{label} [{m}]", "writes-beyond-destination",
                                              f"register destination form writes {changed + written}", where)
                            else:
                                chk.ok("C01.R6", unit, f"changes {changed or 'nothing'} only")
                        else:
                            cells = 1 if width == 8 else 2
                            if changed or len(written) > cells:
                                chk.violation("C01.R6", f"{label} [{m}]", "writes-beyond-destination",
                                              f"memory destination form writes {changed + written}", where)
                            else:
                                chk.ok("C01.R6", unit, f"writes {written} only")
                    report_aborts(chk, "C01.R7", unit, [e for e in I.events if "__action" in e.fn], where)
                    # R10: an immediate operand reaches the helper with all the bits of the destination width
                    if nt_fam == "binary_arithmetic" and dr == dest_regs[0]:
                        from domains import bits_all_deps
                        for e in I.events:
                            if e.kind == "call" and "__action" in e.fn and e.callee and len(e.args) == 3 and e.args[-1].kind == "int":
                                src = e.args[-1]
                                per_bit = [{b for a, b in bits_all_deps(src.bits[i:i + 1]) if str(a).startswith("num:")} for i in range(len(src.bits))]
                                if not any(per_bit):
                                    continue   # not an immediate form
                                missing = [i for i in range(len(src.bits)) if i not in per_bit[i]]
                                if not missing:
                                    chk.ok("C01.R10", f"{label} [{m}]", f"immediate: each of the {len(src.bits)} operand bits comes from the same bit of the literal")
                                else:
                                    chk.violation("C01.R10", label, "immediate-narrower-than-destination",
                                                  f"{label}: bits {missing[0]}..{missing[-1]} of the {len(src.bits)}-bit source operand do not depend on the same bits of the literal "
                                                  f"(they repeat bit {sorted(per_bit[missing[0]])[:1]}): the immediate is read in a narrower type than the destination, so a "
                                                  f"{len(src.bits)}-bit immediate above that range cannot be an operand of this form", where,
                                                  witness=f"{m} with an immediate of 0x{(1 << (missing[0] + 1)) - 1 + (1 << missing[0]):X}")
                                break


from absint import Unsupported  # noqa: E402


def sibling_rule(ctx, chk):
    """C01.R8 (see siblings.py): width-parametric copies must agree; a dropped operand is a definite slip."""
    import siblings as S
    P = ctx.program
    for m, d in sorted(S.sibling_pairs(P).items()):
        a, b = S.flag_trees(d["byte"]), S.flag_trees(d["word"])
        if not a and not b:
            continue
        where_b, where_w = fn_where(d["byte"]), fn_where(d["word"])
        for f in sorted(set(a) | set(b)):
            ta, tb = a.get(f), b.get(f)
            unit = f"{m}:{f}"
            if ta is None or tb is None:
                chk.undecided_("C01.R8", unit, "flag set by only one of the two helpers through set_all_flags")
                continue
            if ta == tb:
                chk.ok("C01.R8", unit, S.show(ta)[:120])
                continue
            dw = S.dropped_operand(ta, tb)  # word lacks something byte has
            db = S.dropped_operand(tb, ta)
            if dw or db:
                opn, what = dw or db
                who, other, where = ("word", "byte", where_w) if dw else ("byte", "word", where_b)
                chk.violation("C01.R8", f"{m}.{who[0]}", f"{f}-drops-operand:{what}",
                              f"{who}_{m}: the expression for `{f}` is the {other} form with the operand `{what}` of a {opn} left out "
                              f"({other}: {S.show(ta if dw else tb)[:160]}; {who}: {S.show(tb if dw else ta)[:160]}): the two widths compute this flag differently", where)
            else:
                sn = S.single_node_diff(ta, tb)
                if sn:
                    chk.violation("C01.R8", m, f"{f}-{sn[0]}-differs:{sn[1]}/{sn[2]}",
                                  f"byte_{m} and word_{m} compute `{f}` from expressions that differ in exactly one {sn[0]} (byte: {sn[1]}, word: {sn[2]}) after width "
                                  f"normalisation: one of the two is wrong", where_w)
                else:
                    chk.undecided_("C01.R8", unit, f"different formulations: byte {S.show(ta)[:100]} / word {S.show(tb)[:100]}")
    # helpers that set flags one by one (inc, dec, neg): whole-function fingerprints
    for m, d in sorted(S.sibling_pairs(P).items()):
        if m in ("mul", "imul", "div", "idiv"):
            continue  # the word forms use DX:AX: not copies of the byte forms (C03)
        if S.flag_trees(d["byte"]) or S.flag_trees(d["word"]):
            continue
        r = S.compare_fingerprints(S.fingerprint(d["byte"]), S.fingerprint(d["word"]))
        where = fn_where(d["word"])
        if r[0] == "same":
            chk.ok("C01.R8", f"{m}:fingerprint", f"{r[1]} conditions/flag calls/result expressions agree")
        elif r[0] == "dropped":
            _, kind, opn, operand, side = r
            who = "word" if side == "b" else "byte"
            chk.violation("C01.R8", f"{m}.{who[0]}", f"{kind}-drops-operand:{operand}", f"{who}_{m}: a {kind} expression is the other width's with `{operand}` of a {opn} left out", where)
        elif r[0] == "node":
            _, kind, what, x, y = r
            chk.violation("C01.R8", m, f"{kind}-{what}-differs:{x}/{y}", f"byte_{m} and word_{m} differ in exactly one {what} of a {kind} expression (byte: {x}, word: {y})", where)
        else:
            chk.undecided_("C01.R8", f"{m}:fingerprint", "formulated differently")


def zero_test_rule(ctx, chk, unit, fn, s, width, where, key_unit=None):
    """C01.R9.  ZF must say whether the *stored* w-bit result is zero.  The helpers hand a bool `zero` to a flag-setting
    routine; V knows the comparison that produced it (x == 0).  If x is the result itself (same bits) the clause holds.
    If x is a wider intermediate whose low w bits are the result, `x == 0` differs from `result == 0` exactly when x is a
    non-zero multiple of 2^w: decided on x's interval -- DEFINITE when x is exact (its interval comes from an affine form
    of independent inputs), e.g. op1 - op2 - borrow = -65536 for 0 - FFFFh - 1."""
    P = ctx.program
    tests = []
    for e in s.I.events:
        if e.kind != "call" or not getattr(e, "fref", None):
            continue
        name = e.fref.get("def") or ""
        callee = P.fns.get(e.fref.get("id"))
        if callee is None or not name.startswith("instructions::"):
            continue
        zero = None
        for i, a in enumerate(e.args):
            if a.kind == "agg" and P.adts.get(str(a.name)):
                names = [f[0] for f in P.adts[str(a.name)]["variants"][0]["fields"]]
                if "zero" in names and len(a.fields) == len(names):
                    zero = a.fields[names.index("zero")]
            elif a.kind == "int" and a.ty == "bool" and i + 1 < len(callee["locals"]) and callee["locals"][i + 1].get("name") == "zero":
                zero = a
        if zero is not None:
            tests.append(zero)
    if not tests:
        return
    # which value is the stored result?  decided on symbolic terms of the helper's own MIR (joins inside the flag
    # routine blur the abstract value of the returned local, its term stays what it was assigned)
    from symterm import SymFlow, strip as tstrip
    import mir as M
    F = SymFlow(fn)
    entry, _, _ = F.run(0)
    ret_terms = set()
    for bi, bb in enumerate(fn["blocks"]):
        if bi in entry and M.term(bb)[0] == "return":
            env = F.step_stmts(entry[bi], bi)
            if 0 in env:
                ret_terms.add(env[0])
            for k_, v_ in env.items():
                if isinstance(k_, tuple) and k_[0] == "*":
                    ret_terms.add(v_)
    zero_terms = []
    for bi, t in M.calls_in(fn):
        if bi not in entry:
            continue
        callee = P.fns.get(t[1].get("id"))
        if callee is None:
            continue
        for i, a in enumerate(F.call_args(entry[bi], bi)):
            a = tstrip(a)
            if a[0] == "agg" and P.adts.get(str(a[1])):
                names = [f[0] for f in P.adts[str(a[1])]["variants"][0]["fields"]]
                if "zero" in names and len(a[3]) == len(names):
                    zero_terms.append(a[3][names.index("zero")])
            elif i + 1 < len(callee["locals"]) and callee["locals"][i + 1].get("name") == "zero":
                zero_terms.append(a)

    def same_value(tx):
        """'same' if the tested term is a stored result, 'wider' if a stored result is a truncating cast of it"""
        for r_ in ret_terms:
            r0 = r_
            if r0 == tx:
                return "same"
            while r0[0] == "cast":
                r0 = r0[2]
                if r0 == tx:
                    return "wider"
        return None
    rel = None
    for zt in zero_terms[:1]:
        if zt[0] == "bin" and zt[1] in ("Eq", "Ne") and ("const", 0) in (zt[2], zt[3]):
            tx = zt[3] if zt[2] == ("const", 0) else zt[2]
            rel = same_value(tx)
    for z in tests[:1]:
        pr = z.pred
        if not pr or pr[0] != "cmp" or pr[1] not in ("Eq", "Ne") or not (pr[3].kind == "int" and pr[3].is_const() and pr[3].lo == 0):
            chk.undecided_("C01.R9", unit, "the zero flag's condition is not a comparison with 0")
            continue
        x = pr[2]
        if x.kind != "int":
            chk.undecided_("C01.R9", unit, "tested value not an integer")
            continue
        if rel is None:
            chk.undecided_("C01.R9", unit, "the tested value is not visibly the stored result")
            continue
        if rel == "same" or x.w <= width:
            chk.ok("C01.R9", unit, f"ZF <- ({x.ty} result == 0)")
            continue
        mod = 1 << width
        k_lo, k_hi = -((-x.lo) // mod), x.hi // mod
        ks = [k for k in range(k_lo, k_hi + 1) if k != 0][:3]
        if not ks:
            chk.ok("C01.R9", unit, f"ZF <- ({x.ty} intermediate == 0); its range [{x.lo},{x.hi}] contains no non-zero multiple of 2^{width}")
        elif x.exact:
            chk.violation("C01.R9", key_unit or unit, "zf-from-untruncated-value",
                          f"{fn['name']} computes ZF from the {x.w}-bit intermediate {x.aff.pretty() if x.aff is not None else ''} instead of the stored {width}-bit result: "
                          f"for the value {ks[0] * mod} the result is 0 but ZF stays clear", where,
                          witness=f"intermediate = {ks[0] * mod} (range [{x.lo},{x.hi}])")
        else:
            chk.undecided_("C01.R9", unit, f"wide intermediate with range [{x.lo},{x.hi}] (not exact)")
