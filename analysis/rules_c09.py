"""C09 — totality: census of every potential abort site reachable from executing an instruction
(all 292 interpreter productions, the instruction helpers, the INT services) and the 1 MB bound."""
from census import Sites, interpreter_census, fn_census, report_sites
from insn import summarize_fn
from absint import RefV, IntV, Interp
from units import machine_state
import mir as M

EXPL = (
    "R1 census: every MIR Assert (integer overflow incl. shift amounts, division, bounds), unwrap/expect, opaque Index and "
    "explicit panic in the actions of all interpreter productions, in the instruction helpers and in int_13/int_21 is "
    "enumerated and classified by the interval/affine domains: PROVED (cannot fail for any machine state), DEFINITE (fails "
    "for an attainable operand value: witness printed) or UNDECIDED (listed, not claimed). A site is classified in the most "
    "general context of its function (all arguments unconstrained) when one exists. R2: every index into vm.mem is PROVED "
    "< 2^20 (these are the BoundsCheck sites of R1 with length 1048576). R3: every top-level production returns a State or "
    "a ParseError (type facts). Only DEFINITE sites become violations."
)


def run(ctx, chk):
    chk.explanation = EXPL
    chk.assumptions += [
        "count operands reach the word shift helpers as u8 widened to u16 (C02.R7 count-range)",
        "label offsets are u16 values (C12.R6); std callees behave as their models",
        "the generated LR driver (symbol stack, state machine) does not abort: its %d Assert terminators are not analysed" % ctx.facts.mir("lib").get("skipped_generated_asserts", 0),
    ]
    P = ctx.program
    chk.rule("C09.R1", "no abort site reachable from executing an instruction can fail", floor=200)
    chk.rule("C09.R2", "every index into the 1 MB memory is < 2^20", floor=100)
    chk.rule("C09.R4", "segment:offset translation yields an address below 2^20 on every path of the address helper", floor=1)
    address_helper_rule(ctx, chk)
    chk.rule("C09.R3", "every interpreter outcome is a State or a reported ParseError", floor=1)
    sites = Sites()
    # most general contexts of the helpers
    for f in ctx.facts.mir("lib")["fns"]:
        n = f["name"]
        if n.startswith("instructions::") or n.startswith("util::address::") or n.startswith("util::data_util::") or n.startswith("util::flag_util::") \
                or n == "util::interpreter_util::has_even_parity":
            if ("lib", n) not in P.sigs:
                continue
            sig = P.sigs[("lib", n)]
            if not sig.get("pub"):
                # a private helper is reachable only through its callers in this crate, which decide what it is handed:
                # its sites are classified in their contexts, not for arbitrary arguments
                continue
            if any(t in ("T", "V") or "Formatter" in t or t.startswith("&Self") or t == "&util::address::Address" for t in sig["inputs"]):
                continue  # generic helpers are classified through their instantiations
            if any(not (("VM" in t) or M.int_type(t.replace("&mut ", "").replace("&", "")) or "ByteReg" in t or "WordReg" in t or "Flags" in t or "FlagsToSet" in t) for t in sig["inputs"]):
                continue
            if any(("ByteReg" in t or "WordReg" in t or "Flags" in t) for t in sig["inputs"]):
                continue
            if any(t.replace("&mut ", "").replace("&", "").strip() in ("usize", "isize", "u32", "u64") for t in sig["inputs"]):
                # a helper that is handed an address / index / wide intermediate has a precondition on it (callers pass
                # values < 2^20): its sites are classified in the contexts of the productions that call it, not for an
                # arbitrary argument
                continue
            ranges = {}
            names = [l["name"] for l in f["locals"][1:f["argc"] + 1]]
            if n.startswith("instructions::bit_manipulation::word_") and names and names[-1] == "num":
                ranges = {"num": (0, 255)}
            try:
                s = summarize_fn(ctx, f, ranges=ranges)
                sites.units += 1
                sites.add_events(s.I.events, n, general_for=n)
            except Exception as e:  # noqa
                sites.failed_units.append((n, str(e)))
    interpreter_census(ctx, sites)
    # interrupt services
    for name in ("driver::interrupts::int_13", "driver::interrupts::int_21"):
        fn_census(ctx, sites, "bin", name, lambda I, st: [RefV((0, "vm", ())), I.new_atom("u8", "ah")])
    chk.extra["units_analysed"] = sites.units
    # the floor that matters is on analysed units (all interpreter productions + helpers + services), not on how many
    # checked operations the code happens to contain: repairs legitimately remove abort sites
    n_prods = sum(len(nt["productions"]) for nt in ctx.gram("interpreter").g["nonterminals"] if not nt["name"].startswith("__"))
    if sites.units < n_prods or sites.units < 300:
        chk.incomplete_("C09.R1", f"units analysed={sites.units} < productions={n_prods} (floor 300)")
    chk.extra["abort_sites"] = len(set(sites.sites) | set(sites.general))
    for u, why in sites.failed_units:
        chk.undecided_("C09.R1", u, why)
    where = lambda fn: file_of(ctx, fn)
    report_sites(chk, "C09.R1", sites, where, only=lambda k: k[1] != "BoundsCheck")
    report_sites(chk, "C09.R2", sites, where, only=lambda k: k[1] == "BoundsCheck")
    # R3: type facts
    G = ctx.gram("interpreter")
    top = G.nts.get("Interpreter")
    if top and top["type"].endswith("State"):
        chk.ok("C09.R3", "Interpreter", f"start symbol has type {top['type']}; fallible actions return ParseError")
    else:
        chk.violation("C09.R3", "Interpreter", "start-type", f"start symbol type is {top and top['type']}", G.g["file"])


def file_of(ctx, fnname):
    for which in ("lib", "bin"):
        f = ctx.program.by_name.get((which, fnname))
        if f:
            return f["span"].rsplit(":", 2)[0]
    return fnname


def address_helper_rule(ctx, chk):
    """R4.  Every memory index of the interpreter goes through the helpers of util::address: (segment, offset) -> physical
    address, the one-argument reduction of such a sum into the address space, and (address, increment) -> address.  The census classifies an index where it is used, after the helper's paths have been
    joined; there an interval like [0, 2^20] is no longer known to be attainable.  Here the helper's own paths are
    enumerated (its branches forced both ways), with segment and offset free 16-bit values: on each path the result's
    interval is exact, so a path whose result can reach 2^20 is a definite out-of-range address (with its closed form as
    witness), and a helper all of whose paths stay below 2^20 is proved."""
    from absint import Interp, Unsupported
    from units import machine_state
    P = ctx.program
    n = 0
    for f in P.fns.values():
        if not f["name"].startswith("util::address::") or f["argc"] not in (1, 2):
            continue
        sig = P.sigs.get(("lib", f["name"])) or {}
        if (sig.get("output") or "") != "usize":
            continue
        # a two-argument helper that adds its arguments unscaled is an increment, not a segment:offset translation
        out = []
        budget = [32]

        def explore(force):
            if budget[0] <= 0:
                raise Unsupported("too many paths")
            budget[0] -= 1
            I = Interp(P)
            I.record_switch = True
            I.force_switch = dict(force)
            st = machine_state(I, P)
            if mode == "segoff":
                args_ = [I.new_atom("u16", "seg"), I.new_atom("u16", "off")]
            elif f["argc"] == 1:
                # a one-argument helper reduces a sum seg*16 + off (+ a small increment) into the address space
                args_ = [I.new_atom("usize", "addr", 0, 0x10FFEF + 0xFFFF)]
            else:
                # (address, increment): an address already inside the space, advanced by at most 64 K
                args_ = [I.new_atom("usize", "addr", 0, (1 << 20) - 1), I.new_atom("usize", "inc", 0, 0xFFFF)]
            r = I.run_fn(f, args_, st)
            nxt = None
            for e in I.events:
                if e.kind == "switch" and e.fn == f["name"] and getattr(e, "depth", 1) == 1 and e.bb not in force and e.val.kind == "int" and not e.val.is_const():
                    nxt = e
                    break
            if nxt is None:
                if r is not None:
                    out.append(r)
                return
            for v in [v for v, _ in nxt.arms] + ["else"]:
                f2 = dict(force)
                f2[nxt.bb] = v
                explore(f2)
        unit = f["name"].split("::")[-1]
        mode = "segoff" if f["argc"] == 2 else "reduce"
        try:
            explore({})
        except Unsupported as e:
            chk.undecided_("C09.R4", unit, str(e))
            continue
        scaled = any(r.kind == "int" and r.aff is not None and "16*seg" in r.aff.pretty() for r in out)
        if f["argc"] == 2 and not scaled:
            # not a segment:offset translation: an (address, increment) helper
            mode = "advance"
            out.clear()
            budget[0] = 32
            try:
                explore({})
            except Unsupported as e:
                chk.undecided_("C09.R4", unit, str(e))
                continue
        n += 1
        where = f["span"].rsplit(":", 2)[0]
        bad = [r for r in out if r.kind == "int" and r.hi >= (1 << 20) and r.exact]
        unk = [r for r in out if r.kind != "int" or (r.hi >= (1 << 20) and not r.exact)]
        if bad:
            r = bad[0]
            chk.violation("C09.R4", unit, "address-can-reach-1MB", f"{f['name']}: on one of its {len(out)} paths the result is {r.aff.pretty() if r.aff is not None else '?'} "
                          f"with attainable range [{r.lo},{r.hi}]: an index of {r.hi:#x} is outside the 1 MB memory (abort instead of wrapping to 0)", where,
                          witness=f"result {r.hi:#x}")
        elif unk:
            chk.undecided_("C09.R4", unit, "the result of some path is not bounded below 2^20 by the interval domain")
        else:
            chk.ok("C09.R4", unit, f"{len(out)} path(s), every result within [0,{max(r.hi for r in out):#x}]")
    if n == 0:
        chk.undecided_("C09.R4", "util::address", "no segment:offset helper found")
