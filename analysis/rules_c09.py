"""C09 — totality: census of every potential abort site reachable from executing an instruction
(all 292 interpreter productions, the instruction helpers, the INT services) and the 1 MB bound."""
from census import Sites, interpreter_census, fn_census, report_sites
from insn import summarize_fn
from absint import RefV, IntV, Interp
from units import machine_state
import mir as M

EXPL = (
    "R1 census: every MIR Assert (integer overflow incl. shift amounts, division, bounds), unwrap/expect, opaque Index and "
    "explicit panic in the actions of all interpreter productions, in the instruction helpers and in int_13/int_21 is "
    "enumerated and classified by the interval/affine domains: PROVED (cannot fail for any machine state), DEFINITE (fails "
    "for an attainable operand value: witness printed) or UNDECIDED (listed, not claimed). A site is classified in the most "
    "general context of its function (all arguments unconstrained) when one exists. R2: every index into vm.mem is PROVED "
    "< 2^20 (these are the BoundsCheck sites of R1 with length 1048576). R3: every top-level production returns a State or "
    "a ParseError (type facts). Only DEFINITE sites become violations."
)


def run(ctx, chk):
    chk.explanation = EXPL
    chk.assumptions += [
        "count operands reach the word shift helpers as u8 widened to u16 (C02.R7 count-range)",
        "label offsets are u16 values (C12.R6); std callees behave as their models",
        "the generated LR driver (symbol stack, state machine) does not abort: its %d Assert terminators are not analysed" % ctx.facts.mir("lib").get("skipped_generated_asserts", 0),
    ]
    P = ctx.program
    chk.rule("C09.R1", "no abort site reachable from executing an instruction can fail", floor=200)
    chk.rule("C09.R2", "every index into the 1 MB memory is < 2^20", floor=100)
    chk.rule("C09.R3", "every interpreter outcome is a State or a reported ParseError", floor=1)
    sites = Sites()
    # most general contexts of the helpers
    for f in ctx.facts.mir("lib")["fns"]:
        n = f["name"]
        if n.startswith("instructions::") or n.startswith("util::address::") or n.startswith("util::data_util::") or n.startswith("util::flag_util::") \
                or n == "util::interpreter_util::has_even_parity":
            if ("lib", n) not in P.sigs:
                continue
            sig = P.sigs[("lib", n)]
            if not sig.get("pub"):
                # a private helper is reachable only through its callers in this crate, which decide what it is handed:
                # its sites are classified in their contexts, not for arbitrary arguments
                continue
            if any(t in ("T", "V") or "Formatter" in t or t.startswith("&Self") or t == "&util::address::Address" for t in sig["inputs"]):
                continue  # generic helpers are classified through their instantiations
            if any(not (("VM" in t) or M.int_type(t.replace("&mut ", "").replace("&", "")) or "ByteReg" in t or "WordReg" in t or "Flags" in t or "FlagsToSet" in t) for t in sig["inputs"]):
                continue
            if any(("ByteReg" in t or "WordReg" in t or "Flags" in t) for t in sig["inputs"]):
                continue
            if any(t.replace("&mut ", "").replace("&", "").strip() in ("usize", "isize", "u32", "u64") for t in sig["inputs"]):
                # a helper that is handed an address / index / wide intermediate has a precondition on it (callers pass
                # values < 2^20): its sites are classified in the contexts of the productions that call it, not for an
                # arbitrary argument
                continue
            ranges = {}
            names = [l["name"] for l in f["locals"][1:f["argc"] + 1]]
            if n.startswith("instructions::bit_manipulation::word_") and names and names[-1] == "num":
                ranges = {"num": (0, 255)}
            try:
                s = summarize_fn(ctx, f, ranges=ranges)
                sites.units += 1
                sites.add_events(s.I.events, n, general_for=n)
            except Exception as e:  # noqa
                sites.failed_units.append((n, str(e)))
    interpreter_census(ctx, sites)
    # interrupt services
    for name in ("driver::interrupts::int_13", "driver::interrupts::int_21"):
        fn_census(ctx, sites, "bin", name, lambda I, st: [RefV((0, "vm", ())), I.new_atom("u8", "ah")])
    chk.extra["units_analysed"] = sites.units
    # the floor that matters is on analysed units (all interpreter productions + helpers + services), not on how many
    # checked operations the code happens to contain: repairs legitimately remove abort sites
    n_prods = sum(len(nt["productions"]) for nt in ctx.gram("interpreter").g["nonterminals"] if not nt["name"].startswith("__"))
    if sites.units < n_prods or sites.units < 300:
        chk.incomplete_("C09.R1", f"units analysed={sites.units} < productions={n_prods} (floor 300)")
    chk.extra["abort_sites"] = len(set(sites.sites) | set(sites.general))
    for u, why in sites.failed_units:
        chk.undecided_("C09.R1", u, why)
    where = lambda fn: file_of(ctx, fn)
    report_sites(chk, "C09.R1", sites, where, only=lambda k: k[1] != "BoundsCheck")
    report_sites(chk, "C09.R2", sites, where, only=lambda k: k[1] == "BoundsCheck")
    # R3: type facts
    G = ctx.gram("interpreter")
    top = G.nts.get("Interpreter")
    if top and top["type"].endswith("State"):
        chk.ok("C09.R3", "Interpreter", f"start symbol has type {top['type']}; fallible actions return ParseError")
    else:
        chk.violation("C09.R3", "Interpreter", "start-type", f"start symbol type is {top and top['type']}", G.g["file"])


def file_of(ctx, fnname):
    for which in ("lib", "bin"):
        f = ctx.program.by_name.get((which, fnname))
        if f:
            return f["span"].rsplit(":", 2)[0]
    return fnname
