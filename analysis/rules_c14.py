"""C14 — invalid programs are rejected with a diagnostic before anything executes."""
import re
from asm import GramEval
from astev import Str, Res, tmpl_str
import mir as M
from driver_rules import find_parse_call
from rules_c10 import int_constants

EXPL = (
    "R1 rejecting branch per error class, on the assembler's action paths (engine A): the path taken under the error "
    "condition ends in error!, emits nothing and inserts nothing; every emitting path carries the complementary condition: "
    "jump to a DATA label, duplicate label, duplicate procedure, data operand / OFFSET on a CODE or unknown label, call of "
    "a non-procedure, out-of-range constants (conversion failure), int outside {3,10h,21h}, unsupported mnemonics (all paths "
    "error). R2 grammar shape: no two-operand production combines a byte-class with a word-class operand or two memory "
    "operands (shift counts and int immediates are not width-typed operands). R3 driver gates: preprocess's error exit, the "
    "undefined-label test and the 'start' lookup (None and DATA) each dominate the first DataParser::parse and "
    "Interpreter::parse, and each has an exit that prints and returns. R4 preprocess() never returns Ok on the parser's Err. "
    "NOT decided: that every diagnostic text is non-empty for every program text."
)

BYTE = {"gen_byte_reg", "byte_label", "reg_cl"}
WORD = {"gen_word_reg", "word_label", "seg_reg", "pop_reg", "cs_reg"}
MEM = {"memory_addr", "byte_label", "word_label"}
COUNT_OK = {"shift_rotate", "int", "op_in", "op_out", "load_ptr", "lea"}


def succeeds(q):
    return not any(e.kind == "error" for e in q.effects)


def emits(q):
    return any(e.kind == "push" for e in q.effects) or any(e.kind == "map" and e.op == "insert" for e in q.effects)


def run(ctx, chk):
    chk.explanation = EXPL
    GA = ctx.gram("preprocessor")
    E = GramEval(GA)
    chk.rule("C14.R1", "each error class has a rejecting branch that emits nothing", floor=14)
    chk.rule("C14.R2", "no production mixes operand widths or takes two memory operands", floor=100)
    chk.rule("C14.R3", "driver gates dominate loading and execution", floor=3)
    chk.rule("C14.R4", "preprocess turns every parser error into Err", floor=1)
    chk.rule("C14.R5", "forward references are recorded without loss until the driver checks them", floor=2)
    chk.rule("C14.R6", "a label can never be defined inside a macro expansion (so a data label is always known when a jump to it is assembled)", floor=2)

    def cond_rule(nt, cond_pred, name, desc):
        if nt not in GA.nts:
            chk.violation("C14.R1", nt, "missing", f"assembler nonterminal {nt} not found", GA.g["file"])
            return
        for k, p in enumerate(GA.productions(nt)):
            where = f"{GA.g['file']}:{p['line']}"
            label = GA.prod_label(nt, k)
            ua = GA.main_user_action(p["action"])
            paths = [q for q in E.prod_paths(nt, k) if getattr(q, "action", None) == ua.get("idx")]
            bad = [q for q in paths if any(cond_pred(c) for c in q.conds)]
            if not bad:
                chk.violation("C14.R1", label, f"no-test:{name}", f"{label}: nothing tests for '{desc}'", where)
                continue
            leak = [q for q in bad if succeeds(q) or emits(q)]
            if leak:
                chk.violation("C14.R1", label, f"not-rejected:{name}", f"{label}: the path for '{desc}' does not end in a diagnostic (or emits before rejecting)", where)
            else:
                chk.ok("C14.R1", f"{label}:{name}", f"'{desc}' -> error!, nothing emitted")

    from asm import key_presence as presence

    def label_type(c):
        """the label type a path condition establishes ('CODE' / 'DATA' / None): a match arm or `if let` on the
        variant, the catch-all after the other variant's arm, or an ==/!= comparison with the variant"""
        desc, truth = c[0], bool(c[1])
        both = {"CODE", "DATA"}
        m = re.search(r"matches _ \[not ([^\]]*)\]", desc)
        if m and truth:
            named = set(re.findall(r"LabelType::(CODE|DATA)", m.group(1)))
            rest = both - named
            return next(iter(rest)) if len(rest) == 1 and named else None
        m = re.search(r"matches (?:Some\(|\()*(?:[A-Za-z_:]*::)?LabelType::(CODE|DATA)", desc)
        if m:
            return m.group(1) if truth else next(iter(both - {m.group(1)}))
        m = re.search(r"(==|!=)\s*(?:[A-Za-z_:]*::)?LabelType::(CODE|DATA)|LabelType::(CODE|DATA)\s*(==|!=)", desc)
        if m:
            v = m.group(2) or m.group(3)
            op = m.group(1) or m.group(4)
            neg = desc.lstrip().startswith("!")
            holds = (truth != neg) == (op == "==")
            return v if holds else next(iter(both - {v}))
        return None

    cond_rule("jmps_loops", lambda c: label_type(c) == "DATA", "jump-to-data-label", "jump to a data label")
    cond_rule("label", lambda c: presence(c, "label_map") is True, "duplicate-label", "label already defined")
    cond_rule("proc_def", lambda c: presence(c, "fn_map") is True, "duplicate-procedure", "procedure already declared")
    for nt in ("byte_label", "word_label", "offset"):
        cond_rule(nt, lambda c: presence(c, "label_map") is False, "unknown-label", "label not defined")
        cond_rule(nt, lambda c: label_type(c) == "CODE", "code-label-as-data", "code label used as data operand")
    cond_rule("call", lambda c: presence(c, "fn_map") is False, "call-non-procedure", "call of something that is not a procedure")
    # int set
    ints = int_constants(E, "int")
    if ints == {3, 0x10, 0x21}:
        chk.ok("C14.R1", "int:set", "accepts exactly {3, 10h, 21h}")
    else:
        chk.violation("C14.R1", "int", "int-set", f"assembler accepts int {sorted(ints)}; the documented set is [3, 16, 33]", GA.g["file"])
    for k, p in enumerate(GA.productions("int")):
        paths = E.prod_paths("int", k)
        if any(not succeeds(q) and not emits(q) for q in paths) and all(any(re.search(r"==|\bmatches\b|\.contains\(", c[0]) for c in q.conds) for q in paths if succeeds(q)):
            chk.ok("C14.R1", "int:reject", "other numbers -> error!")
        else:
            chk.violation("C14.R1", "int", "int-not-rejected", "an unsupported interrupt number is not rejected", GA.g["file"])
    # unsupported mnemonics: every path errors
    for nt in ("op_in", "op_out", "load_ptr", "control_unsupported"):
        if nt not in GA.nts:
            chk.undecided_("C14.R1", nt, "nonterminal not found")
            continue
        for k, p in enumerate(GA.productions(nt)):
            label = GA.prod_label(nt, k)
            where = f"{GA.g['file']}:{p['line']}"
            ua = GA.main_user_action(p["action"])
            paths = [q for q in E.prod_paths(nt, k) if getattr(q, "action", None) == ua.get("idx")]
            if paths and all((not succeeds(q)) and not emits(q) for q in paths):
                chk.ok("C14.R1", f"{label}:unsupported", "all paths error!")
            else:
                chk.violation("C14.R1", label, "unsupported-accepted", f"{label}: an unsupported instruction is accepted", where)
    # numeric range: conversion failure -> error (every numeric regex alternative)
    for nt_data in GA.g["nonterminals"]:
        if nt_data["type"] not in ("u8", "u16", "u32", "i8", "i16"):
            continue
        nt = nt_data["name"]
        for k, p in enumerate(nt_data["productions"]):
            if not any(s["t"] == "term" and s["name"].startswith("r#") for s in p["symbols"]):
                continue
            paths = E.prod_paths(nt, k)
            label = GA.prod_label(nt, k)
            errp = [q for q in paths if any("matches Err" in c[0] for c in q.conds)]
            if errp and all(not succeeds(q) for q in errp):
                chk.ok("C14.R1", f"{label}:range", "conversion failure -> error!")
            else:
                chk.violation("C14.R1", label, "range-not-rejected", f"{label}: an out-of-range constant is not rejected", f"{GA.g['file']}:{p['line']}")
            # the conversion that can fail must be made in the operand's own type: a wider one accepts constants the operand
            # cannot hold (they are then cut down by a cast) unless the accepting path tests the range itself
            convs = [e for q in paths for e in q.effects if e.kind == "from_str_radix"]
            decl = M.int_type(nt_data["type"])
            if convs and decl:
                cty = M.int_type(convs[0].ty or "")
                if not cty:
                    chk.undecided_("C14.R1", f"{label}:range-type", f"conversion type {convs[0].ty} not an integer type")
                else:
                    def rng(t, name):
                        return (-(1 << (t[0] - 1)), (1 << (t[0] - 1)) - 1) if name.startswith("i") else (0, (1 << t[0]) - 1)
                    (clo, chi), (dlo, dhi) = rng(cty, convs[0].ty), rng(decl, nt_data["type"])
                    okp = [q for q in paths if succeeds(q)]
                    tested = any(re.search(r"<|>|contains|try_from|try_into", c[0]) for q in okp for c in q.conds if "matches" not in c[0])
                    if clo >= dlo and chi <= dhi:
                        chk.ok("C14.R1", f"{label}:range-type", f"converted as {convs[0].ty}: every accepted constant fits {nt_data['type']}")
                    elif tested:
                        chk.undecided_("C14.R1", f"{label}:range-type", f"converted as {convs[0].ty} (wider than {nt_data['type']}) with an explicit range test on the accepting path")
                    else:
                        chk.violation("C14.R1", label, f"range-wider-than-operand:{convs[0].ty}->{nt_data['type']}",
                                      f"{label}: the literal is converted as {convs[0].ty} but the operand is a {nt_data['type']}: constants in [{clo},{chi}] outside [{dlo},{dhi}] "
                                      f"are accepted and silently cut down instead of being refused", f"{GA.g['file']}:{p['line']}",
                                      witness=f"a constant just outside the {nt_data['type']} range, e.g. {dlo - 1 if clo < dlo else dhi + 1}")

    # ---- R2 grammar shape
    for nt_data in GA.g["nonterminals"]:
        nt = nt_data["name"]
        for k, p in enumerate(nt_data["productions"]):
            names = [s["name"] for s in p["symbols"]]
            if '","' not in names:
                continue
            label = GA.prod_label(nt, k)
            where = f"{GA.g['file']}:{p['line']}"
            classes = []
            mems = 0
            for i, n in enumerate(names):
                if n in BYTE or (n == "memory_addr" and i > 0 and names[i - 1] in ("quote_byte_length", '"byte"', '"BYTE"')):
                    classes.append("byte")
                if n in WORD or (n == "memory_addr" and i > 0 and names[i - 1] in ("quote_word_length", '"word"', '"WORD"')):
                    classes.append("word")
                if n in MEM:
                    mems += 1
            if nt in COUNT_OK or nt in ("general_string", "macro_use", "macro_def") or nt.startswith("(") or nt.startswith("CommaSep") or nt == "memory_addr":
                chk.ok("C14.R2", label, "second operand is a count / immediate / list separator", nontrivial=False)
                continue
            ua = GA.main_user_action(p["action"])
            paths = [q for q in E.prod_paths(nt, k) if getattr(q, "action", None) == ua.get("idx")]
            all_err = paths and all(not succeeds(q) for q in paths)
            if len(set(classes)) > 1 and not all_err:
                chk.violation("C14.R2", label, "mixed-width", f"{label} accepts a byte-class and a word-class operand together", where)
            elif mems > 1 and not all_err:
                chk.violation("C14.R2", label, "two-memory-operands", f"{label} accepts two memory operands", where)
            else:
                chk.ok("C14.R2", label, f"classes {classes or ['-']}, memory operands {mems}")

    forward_reference_record(ctx, chk)
    no_label_in_expansion(ctx, chk)
    # ---- R3 driver gates
    drv = ctx.program.find("bin", "driver::driver::CMDDriver::run")
    if drv is None:
        chk.undecided_("C14.R3", "CMDDriver::run", "driver not found")
    else:
        cfg = M.CFG(drv)
        pb, _ = find_parse_call(drv, "Interpreter::parse")
        db_, _ = find_parse_call(drv, "DataParser::parse")
        targets = [b for b in (pb, db_) if b is not None]
        gates = []
        # locals holding (a reference to) the undefined_labels field of the preprocessor context
        undef_refs = set()
        for bb in drv["blocks"]:
            for s_ in bb["stmts"]:
                if s_[0] == "assign" and not s_[1]["p"] and s_[2][0] in ("use", "ref"):
                    src = s_[2][1][1] if s_[2][0] == "use" and s_[2][1][0] in ("copy", "move") else (s_[2][1] if s_[2][0] == "ref" else None)
                    if src is None:
                        continue
                    if any(isinstance(e, list) and e[0] == "f" and e[2] == "undefined_labels" for e in src["p"]) or (src["l"] in undef_refs and not [e for e in src["p"] if e != "deref"]):
                        undef_refs.add(s_[1]["l"])
        for _ in range(3):
            for bb in drv["blocks"]:
                for s_ in bb["stmts"]:
                    if s_[0] == "assign" and not s_[1]["p"] and s_[2][0] == "ref" and s_[2][1]["l"] in undef_refs and not [e for e in s_[2][1]["p"] if e != "deref"]:
                        undef_refs.add(s_[1]["l"])
        from symterm import SymFlow, subterms, strip
        from driver_rules import local_closure, looks_up_start
        flow = SymFlow(drv)
        flow_entry, _, _ = flow.run(0, stop=set(targets))
        start_helpers = []
        for bi, t in sorted(M.calls_in(drv), key=lambda x: cfg.rpo_index.get(x[0], 10 ** 9)):
            d = t[1].get("def") or ""
            if d.endswith("preprocess::preprocess"):
                gates.append(("preprocess", bi))
            elif any(a[0] in ("copy", "move") and a[1]["l"] in undef_refs for a in t[2]) and not any(g == "undefined-labels" for g, _ in gates):
                # first use of the preprocessor's undefined_labels set (however it is iterated)
                gates.append(("undefined-labels", bi))
            elif bi in flow_entry and t[1].get("local") and ctx.program.fns.get(t[1].get("id")) is not None \
                    and ctx.program.fns[t[1]["id"]]["name"].startswith("driver::") and looks_up_start(ctx.program, ctx.program.fns[t[1]["id"]]) \
                    and not any(g_ == "start-lookup" for g_, _ in gates):
                # a local helper that contains the lookup of "start" itself
                gates.append(("start-lookup", bi))
                start_helpers.append((bi, ctx.program.fns[t[1]["id"]]))
            elif bi in flow_entry and any(strip(a) == ("str", '"start"') for a in flow.call_args(flow_entry[bi], bi)):
                # the lookup of "start": the constant "start" is an argument of a map lookup, or of a local helper that
                # performs the lookup (directly or through its closures)
                g = ctx.program.fns.get(t[1].get("id")) if t[1].get("local") else None
                if d.endswith("HashMap::<K, V, S, A>::get"):
                    gates.append(("start-lookup", bi))
                elif g is not None and any((tt[1].get("def") or "").endswith("HashMap::<K, V, S, A>::get")
                                           for f2 in local_closure(ctx.program, g) for _, tt in M.calls_in(f2)):
                    gates.append(("start-lookup", bi))
                    start_helpers.append((bi, g))
        kinds = set(g for g, _ in gates)
        for need in ("preprocess", "undefined-labels", "start-lookup"):
            if need not in kinds:
                chk.violation("C14.R3", "CMDDriver::run", f"gate-missing:{need}", f"the driver no longer has the {need} gate before loading/executing", drv["span"])
        for name, gb in gates:
            dom = all(cfg.dominates(gb, t) for t in targets)
            exits = [b for b in cfg.reachable_from(gb, avoid=set(targets)) if M.term(drv["blocks"][b])[0] == "return"]
            prints = False
            for b in cfg.reachable_from(gb, avoid=set(targets)):
                t = M.term(drv["blocks"][b])
                if t[0] == "call" and (t[1].get("def") or "").endswith("_print"):
                    prints = True
            if not dom:
                chk.violation("C14.R3", "CMDDriver::run", f"gate-bypassed:{name}", f"a path reaches data loading / execution without passing the {name} gate", drv["span"])
            elif not exits or not prints:
                chk.violation("C14.R3", "CMDDriver::run", f"gate-without-exit:{name}", f"the {name} gate has no printing exit that avoids execution", drv["span"])
            else:
                chk.ok("C14.R3", f"gate:{name}", f"bb{gb} dominates loading and execution; exits through a printing return")
        # the start lookup rejects DATA labels: a switch on the label type between lookup and execution
        okd = False
        for bi, bb in enumerate(drv["blocks"]):
            for s in bb["stmts"]:
                if s[0] == "assign" and s[2][0] == "disc" and s[2][1]["ty"].endswith("LabelType"):
                    if all(cfg.dominates(bi, t) for t in targets):
                        okd = True
        for bi, t in M.calls_in(drv):
            if (t[1].get("def") or "").endswith("Label::get_type") and all(cfg.dominates(bi, x) for x in targets):
                okd = True
        # stronger, on terms: with the type of the looked-up label assumed DATA, neither loading nor execution is reachable
        lt = next((a for n, a in ctx.program.adts.items() if n.endswith("::LabelType")), None)
        lab = next((a for n, a in ctx.program.adts.items() if n.endswith("::Label")), None)
        if okd and lt is not None and lab is not None:
            data_i = next((i for i, v in enumerate(lt["variants"]) if v["name"] == "DATA"), None)
            type_i = next((i for i, f in enumerate(lab["variants"][0]["fields"]) if f[1].endswith("LabelType")), None)
            tested = []

            def decide(t, b):
                if t[0] == "disc":
                    x = strip(t[1])
                    if (x[0] == "call" and x[1].endswith("Label::get_type")) or (x[0] == "proj" and x[2] == ("f", type_i)):
                        if any(y[0] == "call" and y[1].endswith("::get") and any(strip(a) == ("str", '"start"') for a in y[2][1:]) for y in subterms(x)):
                            tested.append(b)
                            return data_i
                return None
            e_data, _, _ = flow.run(0, stop=set(targets), decide=decide)
            _, arr_data, _ = flow.run(0, stop=set(targets), decide=decide)
            if tested and any(t in arr_data for t in targets):
                okd = False
                chk.violation("C14.R3", "CMDDriver::run", "start-type-unchecked",
                              "with `start` bound to a DATA label the driver still reaches data loading / execution: the data label is run as code", drv["span"])
                okd = None
        helper_verdict = None
        for bi, g in start_helpers:
            if all(cfg.dominates(bi, x) for x in targets):
                from rules_c08 import start_helper_rule
                lab = next((a for n, a in ctx.program.adts.items() if n.endswith("::Label")), None)
                map_i = next((i for i, f in enumerate(lab["variants"][0]["fields"]) if f[0] == "map"), None) if lab else None
                helper_verdict = start_helper_rule(ctx, ("call", g["name"], (), bi), map_i)
        if okd is None:
            pass
        elif okd:
            chk.ok("C14.R3", "gate:start-is-code", "the type of `start` is examined before execution; a DATA label cannot reach loading/execution")
        elif helper_verdict is not None and helper_verdict[0] is True:
            chk.ok("C14.R3", "gate:start-is-code", "the lookup helper yields a position for a code label only (V, per label type)")
        elif helper_verdict is not None and helper_verdict[0] is None:
            chk.undecided_("C14.R3", "gate:start-is-code", helper_verdict[1])
        else:
            chk.violation("C14.R3", "CMDDriver::run", "start-type-unchecked", "a data label named start is not rejected before execution", drv["span"])

    # ---- R4 preprocess
    pp = ctx.program.find("bin", "driver::preprocess::preprocess")
    if pp is None:
        chk.undecided_("C14.R4", "preprocess", "function not found")
    else:
        cfg = M.CFG(pp)
        pbi, _ = find_parse_call(pp, "Preprocessor::parse")
        ok_blocks = []
        for bi, bb in enumerate(pp["blocks"]):
            for s in bb["stmts"]:
                if s[0] == "assign" and s[1]["l"] == 0 and s[2][0] == "agg" and s[2][1].get("vname") == "Ok":
                    ok_blocks.append(bi)
        sw = None
        if pbi is not None:
            nxt = M.term(pp["blocks"][pbi])[4]
            t = M.term(pp["blocks"][nxt])
            if t[0] == "switch":
                arms = dict((v, tgt) for v, tgt in t[2])
                err_t = arms.get(1, t[3])
                sw = err_t
        if sw is None or not ok_blocks:
            chk.undecided_("C14.R4", "preprocess", "result dispatch not recognised")
        elif any(b in cfg.reachable_from(sw) for b in ok_blocks):
            chk.violation("C14.R4", "preprocess", "err-becomes-ok", "a parser error can reach `Ok(..)` in preprocess()", pp["span"])
        else:
            chk.ok("C14.R4", "preprocess", "the Err arm never reaches the Ok result")


def forward_reference_record(ctx, chk):
    """C14.R5: a jump to a label that is not defined yet is recorded by the assembler and checked by the driver after
    the whole text was read.  The record must not be able to lose an entry: a set/vector of (position, name) pairs, or a
    map keyed by something that contains the name.  (A map keyed by the position alone overwrites entries: positions
    inside macro expansions are offsets into the expanded text and collide.)  And every path of the jump action that finds
    the label undefined must insert into the record."""
    import re
    P = ctx.program
    adt = P.find_adt("util::preprocessor_util::Context")
    fty = dict(adt["variants"][0]["fields"]).get("undefined_labels") if adt else None
    where = "src/lib/util/preprocessor_util.rs"
    if fty is None:
        chk.violation("C14.R5", "Context", "no-forward-reference-record", "the assembler context no longer records jumps to labels defined later", where)
        return
    m = re.match(r"^(?:std::collections::)?(?:hash_map::|btree_map::|hash_set::|btree_set::)?(HashSet|BTreeSet|Vec|VecDeque|HashMap|BTreeMap)<(.*)>$", fty)
    if not m:
        chk.undecided_("C14.R5", "Context.undefined_labels", f"container type {fty} not recognised")
    else:
        kind, inner = m.group(1), m.group(2)
        if kind in ("HashSet", "BTreeSet", "Vec", "VecDeque"):
            if "String" in inner or "str" in inner:
                chk.ok("C14.R5", "Context.undefined_labels:type", f"{kind} of entries that contain the label name: no entry can replace another label's entry")
            else:
                chk.violation("C14.R5", "Context.undefined_labels", "record-without-name", f"{fty} does not keep the label names", where)
        else:
            # map: the key is the first type argument
            depth = 0
            key = inner
            for i, c in enumerate(inner):
                if c in "<([":
                    depth += 1
                elif c in ">)]":
                    depth -= 1
                elif c == "," and depth == 0:
                    key = inner[:i]
                    break
            if "String" in key or "str" in key:
                chk.ok("C14.R5", "Context.undefined_labels:type", f"{kind} keyed by {key.strip()}: one entry per label name")
            else:
                chk.violation("C14.R5", "Context.undefined_labels", "record-keyed-without-name",
                              f"forward references are recorded in a {kind} keyed by {key.strip()}: two jumps recorded under the same key (positions inside macro expansions "
                              f"are offsets into the expanded text and repeat) overwrite each other, so an undefined label can escape the driver's check", where)
    # the assembler action: the path on which the label is unknown inserts into the record
    from asm import GramEval
    GA = ctx.gram("preprocessor")
    E = GramEval(GA)
    for k, p in enumerate(GA.productions("jmps_loops")) if "jmps_loops" in GA.nts else []:
        label = GA.prod_label("jmps_loops", k)
        ua = GA.main_user_action(p["action"])
        paths = [q for q in E.prod_paths("jmps_loops", k) if getattr(q, "action", None) == ua.get("idx")]
        def is_unknown(q):
            lm = [c for c in q.conds if "label_map.get" in c[0] or "label_map.contains_key" in c[0]]
            if not lm:
                return False
            for c in lm:
                some = ("Some" in c[0] and c[1]) or ("contains_key" in c[0] and ("!" in c[0]) != bool(c[1]))
                if some:
                    return False
            return True
        unknown = [q for q in paths if is_unknown(q)]
        if not unknown:
            chk.undecided_("C14.R5", label, "no path for an unknown label found")
            continue
        miss = [q for q in unknown if not any(e.kind == "map" and e.target == "context.undefined_labels" and e.op in ("insert", "push") for e in q.effects)
                and not any(e.kind == "error" for e in q.effects)]
        if miss:
            chk.violation("C14.R5", label, "forward-jump-not-recorded", f"{label}: a jump to a label that is not defined (yet) is emitted without being recorded for the driver's check",
                          f"{GA.g['file']}:{p['line']}")
        else:
            chk.ok("C14.R5", label, "unknown label => recorded in undefined_labels (or rejected)")


def regex_can_match_char(term, ch):
    """can a string of the terminal's language contain the character? (over-approximation: True when unsure)"""
    import re as _re
    try:
        import sre_parse
        import sre_constants as C
    except ImportError:  # pragma: no cover
        return True
    m = _re.match(r'^r#"(.*)"#$', term)
    if not m:
        return ch in term.strip('"')
    rx = m.group(1).replace("[[:ascii:]]", "[\\x00-\\x7f]").replace("[[:print:]]", "[ -~]")
    try:
        tree = sre_parse.parse(rx)
    except Exception:
        return True
    code = ord(ch)

    def walk(items):
        for op, av in items:
            name = str(op)
            if name == "ANY":
                return True
            if name == "LITERAL" and av == code:
                return True
            if name == "NOT_LITERAL" and av != code:
                return True
            if name == "IN":
                neg = False
                hit = False
                for o2, a2 in av:
                    n2 = str(o2)
                    if n2 == "NEGATE":
                        neg = True
                    elif n2 == "LITERAL" and a2 == code:
                        hit = True
                    elif n2 == "RANGE" and a2[0] <= code <= a2[1]:
                        hit = True
                    elif n2 == "CATEGORY":
                        hit = hit or ("NOT" in str(a2))
                if hit != neg:
                    return True
            if name in ("MAX_REPEAT", "MIN_REPEAT", "POSSESSIVE_REPEAT"):
                if walk(av[2]):
                    return True
            if name == "SUBPATTERN":
                if walk(av[3]):
                    return True
            if name == "BRANCH":
                for alt in av[1]:
                    if walk(alt):
                        return True
        return False
    return walk(tree)


def no_label_in_expansion(ctx, chk):
    """C14.R6: jmps_loops rejects a jump to a DATA label only if the label is already defined when the jump is read; a
    forward reference is checked by the driver for existence only.  That is sound as long as a data label cannot be
    defined after code: the grammar puts data directives first (checked on the LR tables), and the text handed to the
    nested parse of a macro expansion - the macro body token with the arguments' texts substituted - cannot contain a
    label token because neither can contain ':'."""
    from asm import GramEval
    from astev import Str, tmpl_str
    from lang import parse_lines
    GA = ctx.gram("preprocessor")
    E = GramEval(GA)
    gp = ctx.facts.gram_path("preprocessor")
    res = parse_lines(gp, ["start: hlt\nx: db 5\n", "x: db 5\nstart: hlt\n"])
    if not res[0]["ok"] and res[1]["ok"]:
        chk.ok("C14.R6", "grammar:data-before-code", "`code ... label: db` is not a sentence of the assembler grammar, `label: db ... code` is")
        top_ok = True
    else:
        top_ok = False
    colon_sources = []
    if "macro_def" in GA.nts:
        for k, p in enumerate(GA.productions("macro_def")):
            for sy in p["symbols"]:
                if sy["t"] == "term" and sy["name"].startswith("r#") and regex_can_match_char(sy["name"], ":"):
                    colon_sources.append(f"macro body token {sy['name']}")
    if "general_string" in GA.nts:
        for k, p in enumerate(GA.productions("general_string")):
            for q in E.prod_paths("general_string", k):
                if isinstance(q.ret, Str):
                    for t in q.ret.t:
                        if any(part[0] == "lit" and ":" in part[1] for part in t):
                            colon_sources.append(f"macro argument `{tmpl_str(t)}` ({GA.prod_label('general_string', k)})")
                        if any(part[0] == "hole" and part[1] in ("unknown", "replaced") for part in t):
                            chk.undecided_("C14.R6", GA.prod_label("general_string", k), "argument text not followed by the action evaluator")
    # does the driver test the type of a forward-referenced label?
    drv = ctx.program.find("bin", "driver::driver::CMDDriver::run")
    types_checked = False
    if drv is not None:
        from cfgtools import Defs, origin
        # a get_type / LabelType discriminant read inside the loop over undefined labels
        cfg = M.CFG(drv)
        pb, _ = find_parse_call(drv, "DataParser::parse")
        for bi, t in M.calls_in(drv):
            d = t[1].get("def") or ""
            if d.endswith("HashMap::<K, V, S, A>::get") and "Label" in (t[1].get("inst") or ""):
                # label lookups before loading: the one inside a loop is the undefined-label gate
                reach = cfg.reachable_from(bi, avoid={pb} if pb is not None else set())
                in_loop = any(bi in cfg.reachable_from(s_) for s_ in cfg.succ[bi]) and bi in cfg.reachable_from(cfg.succ[bi][0]) if cfg.succ[bi] else False
                if in_loop:
                    for b2 in reach:
                        for s_ in drv["blocks"][b2]["stmts"]:
                            if s_[0] == "assign" and s_[2][0] == "disc" and s_[2][1]["ty"].endswith("LabelType") and b2 in cfg.reachable_from(bi) and bi in cfg.reachable_from(b2):
                                types_checked = True
    if top_ok and not colon_sources:
        chk.ok("C14.R6", "expansion:no-label-token", "neither the macro body token nor any argument text can contain ':': no label is ever defined by a nested parse")
    elif types_checked:
        chk.ok("C14.R6", "driver:forward-reference-type", "the driver checks the type of forward-referenced labels")
    else:
        why = colon_sources[0] if colon_sources else "the grammar accepts a labelled data directive after code"
        chk.violation("C14.R6", "macro expansion" if colon_sources else "grammar", "data-label-definable-after-jump",
                      f"a label can be defined after code ({why}): a jump assembled before a DATA label of that name exists is recorded as a forward reference, and the "
                      f"driver only checks that the name exists, not that it is a code label - the invalid program is accepted and fails (or silently misbehaves) at run time",
                      GA.g["file"], witness="je buf ... macro mk(v) -> buf: db v <- ... mk(1)")
