"""Engine A: abstract evaluation of grammar action ASTs (JSON from tools/gram).

Per action: the set of paths through its code, each with the ordered list of effects on the
assembler's output/context objects, the branch decisions taken and the abstract return value.
Value domain: string templates (finite sets of literal/hole sequences), typed numbers with a
symbolic polynomial, options, results, unit, unknown (TOP).  Unknown is never a violation."""
import re
import itertools
import re

MAX_TEMPLATES = 200000


class Val:
    k = "?"


class Top(Val):
    k = "top"

    def __init__(self, why=""):
        self.why = why

    def __repr__(self):
        return f"TOP({self.why})"


class Unit(Val):
    k = "unit"

    def __repr__(self):
        return "()"


UNIT = Unit()


class Str(Val):
    """finite set of templates; a template is a tuple of parts: ('lit', text) | ('hole', kind, info)"""
    k = "str"

    def __init__(self, templates):
        self.t = frozenset(templates)

    @staticmethod
    def lit(s):
        return Str([(("lit", s),)] if s != "" else [()])

    @staticmethod
    def hole(kind, info=None):
        return Str([(("hole", kind, info),)])

    def __repr__(self):
        return f"Str<{len(self.t)}>"


class Num(Val):
    k = "num"

    def __init__(self, ty, poly=None, src=None):
        self.ty = ty
        self.poly = poly  # dict monomial(tuple of names sorted) -> coef, or None
        self.src = src

    def __repr__(self):
        return f"Num<{self.ty} {self.poly}>"


class Opt(Val):
    k = "opt"

    def __init__(self, some=None, none=True):
        self.some = some  # Val or None (cannot be Some)
        self.none = none

    def __repr__(self):
        return f"Opt(some={self.some}, none={self.none})"


class Res(Val):
    k = "res"

    def __init__(self, ok=None, err=False, errmsg=None):
        self.ok = ok
        self.err = err
        self.errmsg = errmsg

    def __repr__(self):
        return f"Res(ok={self.ok}, err={self.err})"


class Tup(Val):
    k = "tup"

    def __init__(self, elems):
        self.elems = elems


class Obj(Val):
    """opaque object with a name (context, out, context.mapper, a looked-up label...)"""
    k = "obj"

    def __init__(self, name, attrs=None):
        self.name = name
        self.attrs = attrs or {}

    def __repr__(self):
        return f"Obj({self.name})"


class Bool(Val):
    k = "bool"

    def __init__(self, v=None, desc=""):
        self.v = v
        self.desc = desc


def H(**kw):
    """hashable hole info"""
    def fz(v):
        if isinstance(v, dict):
            return tuple(sorted((k, fz(x)) for k, x in v.items()))
        if isinstance(v, (list, tuple)):
            return tuple(fz(x) for x in v)
        return v
    return tuple(sorted((k, fz(v)) for k, v in kw.items()))


def hinfo(part):
    return dict(part[2]) if isinstance(part[2], tuple) else ({} if part[2] is None else {"v": part[2]})


def tmpl_concat(a, b):
    out = set()
    for x in a:
        for y in b:
            if x and y and x[-1][0] == "lit" and y[0][0] == "lit":
                out.add(x[:-1] + (("lit", x[-1][1] + y[0][1]),) + y[1:])
            else:
                out.add(x + y)
            if len(out) > MAX_TEMPLATES:
                raise Overflow()
    return out


def cuts_of(infos):
    """(skip, drop) records of slice holes"""
    out = []
    for i in infos:
        try:
            d = dict(i)
        except (TypeError, ValueError):
            continue
        if "skip" in d or "drop" in d:
            out.append(tuple(sorted((k, v) for k, v in d.items() if k in ("skip", "drop"))))
    return out


class Overflow(Exception):
    pass


# ---- polynomials: dict {monomial tuple: coef}


def p_const(c):
    return {(): c} if c else {}


def p_var(n):
    return {(n,): 1}


def p_add(a, b, sign=1):
    out = dict(a)
    for m, c in b.items():
        out[m] = out.get(m, 0) + sign * c
        if out[m] == 0:
            del out[m]
    return out


def p_mul(a, b):
    out = {}
    for m1, c1 in a.items():
        for m2, c2 in b.items():
            m = tuple(sorted(m1 + m2))
            out[m] = out.get(m, 0) + c1 * c2
            if out[m] == 0:
                del out[m]
    return out


def p_str(p):
    if not p:
        return "0"
    parts = []
    for m, c in sorted(p.items()):
        mono = "*".join(m)
        parts.append((f"{c}*{mono}" if c != 1 else mono) if mono else str(c))
    return " + ".join(parts)


class Effect:
    def __init__(self, kind, line, **kw):
        self.kind = kind
        self.line = line
        self.__dict__.update(kw)

    def __repr__(self):
        d = {k: v for k, v in self.__dict__.items() if k not in ("kind", "line")}
        return f"{self.kind}@{self.line}{d}"


class Path:
    def __init__(self):
        self.effects = []
        self.conds = []
        self.ret = None
        self.returned = False
        self.env = {}

    def fork(self):
        p = Path()
        p.effects = list(self.effects)
        p.conds = list(self.conds)
        p.env = dict(self.env)
        return p


INT_TYPES = ("u8", "u16", "u32", "u64", "usize", "i8", "i16", "i32", "i64", "isize")


_MISSING = object()


class Evaluator:
    """evaluates one action; `args`: name -> Val"""

    def __init__(self, grammar_name, unknown_log=None):
        self.gname = grammar_name
        self.unknown = unknown_log if unknown_log is not None else []
        self.macros_as_strings = ("format",)

    # types of the objects the actions get from the parser's parameters: receiver name -> type whose methods apply
    RECV_TYPES = {"context": "Context", "out": "Output", "context.mapper": "SourceMapper", "vm": "VM"}

    def set_helpers(self, helpers):
        """functions/methods of the plain Rust sources (syntax trees): calls to them are evaluated by inlining.
        A name defined twice for the same receiver type is ambiguous and left opaque."""
        tbl, dup = {}, set()
        self.consts = {h["name"]: h for h in helpers if h.get("kind") == "const"}
        for h in helpers:
            if h.get("kind") == "const":
                continue
            key = (h.get("self_ty"), h["name"])
            if key in tbl:
                dup.add(key)
            tbl[key] = h
        for k in dup:
            tbl.pop(k, None)
        self.helpers = tbl
        self.inline_depth = 0

    def inline(self, h, recv, args, p):
        """evaluate the body of helper h on this path: own scope, `return` ends the helper only"""
        if getattr(self, "inline_depth", 0) >= 5:
            return None
        self.inline_depth += 1
        try:
            saved = p.env
            env = {k: v for k, v in saved.items() if k.startswith("$")}
            names = list(h["params"])
            if names and names[0] == "self":
                env["self"] = recv
                names = names[1:]
            for n, v in zip(names, args):
                env[n] = v
            p.env = env
            n_before = len(p.effects)
            c_before = len(p.conds)
            outs = self.block(h["body"], [p])
            for q in outs:
                if isinstance(recv, Obj) and not recv.name.startswith(("path:", "variant:")):
                    # conditions tested inside a method are conditions on the receiver: `self.x` reads `context.x`
                    q.conds[c_before:] = [(re.sub(r"\bself\b", recv.name, c[0]),) + tuple(c[1:]) for c in q.conds[c_before:]]
                # an `Err(..)` built inside a helper is a value handed to the caller, not yet a diagnostic of the action
                for e_ in q.effects[n_before:]:
                    if e_.kind == "error" and getattr(e_, "start", None) is None and getattr(e_, "msg", None) is None:
                        e_.kind = "err_value"
                q.returned = False
                keep = {k: v for k, v in q.env.items() if k.startswith("$")}
                q.env = dict(saved)
                q.env.update(keep)
            return outs
        finally:
            self.inline_depth -= 1

    def run(self, ast, args):
        p = Path()
        p.env = dict(args)
        outs = self.block(ast, [p])
        for q in outs:
            if not q.returned:
                q.returned = True
        return outs

    # ---- statements
    def block(self, node, paths):
        if node.get("k") != "block":
            return self.expr_paths(node, paths)
        stmts = node["stmts"]
        cur = paths
        last_val_paths = None
        for i, s in enumerate(stmts):
            live = [p for p in cur if not p.returned]
            done = [p for p in cur if p.returned]
            if s["k"] == "local":
                if s["init"] is not None:
                    live = self.expr_paths(s["init"], live)
                    for p in live:
                        if not p.returned:
                            self.bind(s["pat"], p.ret, p)
                else:
                    for p in live:
                        self.bind(s["pat"], Top("uninit"), p)
                for p in live:
                    if not p.returned:
                        p.ret = UNIT
            elif s["k"] == "expr":
                live = self.expr_paths(s["e"], live)
                if s["semi"] or i < len(stmts) - 1:
                    for p in live:
                        if not p.returned:
                            p.ret = UNIT if s["semi"] else p.ret
            else:
                for p in live:
                    p.ret = UNIT
            cur = done + live
        if not stmts:
            for p in cur:
                if not p.returned:
                    p.ret = UNIT
        return cur

    def bind(self, pat, val, p):
        k = pat["k"]
        if k == "ident":
            p.env[pat["name"]] = val
        elif k == "tuple" and isinstance(val, Tup):
            for sp, v in zip(pat["elems"], val.elems):
                self.bind(sp, v, p)
        elif k == "tuple":
            for sp in pat["elems"]:
                self.bind(sp, Top("tuple-destructure"), p)
        elif k == "wild":
            pass
        elif k == "ref":
            self.bind(pat["p"], val, p)
        elif k == "struct" and isinstance(val, Obj) and val.name.startswith("struct:"):
            # `let S{a, b: x, ..} = value_built_by_a_struct_expression`: field by field
            for member, sp in pat.get("fields", []):
                self.bind(sp, val.attrs.get(member, Top("field:" + str(member))), p)
        elif k in ("tuple_struct", "struct"):
            for sp in (pat.get("elems") or [x[1] for x in pat.get("fields", [])]):
                self.bind(sp, Top("struct-destructure"), p)

    # ---- expressions: returns list of paths with p.ret set
    def expr_paths(self, e, paths):
        out = []
        for p in paths:
            if p.returned:
                out.append(p)
                continue
            out.extend(self.expr(e, p))
        return out

    def ev1(self, e, p):
        """evaluate an expression that does not fork (arguments etc.); forks are joined to TOP"""
        res = self.expr(e, p.fork())
        live = [q for q in res if not q.returned]
        if len(res) == 1 and len(live) == 1:
            q = live[0]
            p.effects = q.effects
            p.conds = q.conds
            p.env = q.env
            return q.ret
        if len(live) >= 1 and all(isinstance(q.ret, Str) for q in live) and len(res) == len(live):
            # pure value alternatives (if/match producing strings): union
            t = set()
            for q in live:
                t |= q.ret.t
            return Str(t)
        if len(live) >= 1 and len(res) == len(live) and all(isinstance(q.ret, Num) for q in live):
            return Num(live[0].ret.ty)
        self.unknown.append(("forking-subexpression", e.get("k"), e.get("line")))
        return Top("fork")

    def expr(self, e, p):
        k = e["k"]
        m = getattr(self, "e_" + k, None)
        if m is None:
            self.unknown.append(("expr-kind", k, e.get("line")))
            p.ret = Top(k)
            return [p]
        return m(e, p)

    def e_lit(self, e, p):
        if e["ty"] == "str":
            p.ret = Str.lit(e["v"])
        elif e["ty"] == "int":
            v = e["v"]
            p.ret = Num(e.get("suffix") or "int", p_const(int(v)) if isinstance(v, int) else None)
        elif e["ty"] == "bool":
            p.ret = Bool(e["v"])
        else:
            p.ret = Top("lit")
        return [p]

    def e_path(self, e, p):
        segs = e["segs"]
        if len(segs) == 1:
            n = segs[0]
            if n in p.env:
                p.ret = p.env[n]
            elif n == "None":
                p.ret = Opt(None, True)
            elif n in ("context", "out", "vm", "counter"):
                p.ret = Obj(n)
            else:
                p.ret = Obj("path:" + n)
            return [p]
        full = "::".join(segs)
        consts = {"u16::MAX": 65535, "u8::MAX": 255, "i16::MAX": 32767, "i8::MAX": 127, "u32::MAX": (1 << 32) - 1, "MB": 1 << 20}
        if full in consts:
            p.ret = Num("int", p_const(consts[full]))
        elif len(segs) == 2 and segs[0][:1].isupper() and segs[1][:1].isupper() and not segs[1].isupper() and segs[0] not in ("LabelType", "Flags", "State"):
            p.ret = Obj("variant:" + full, {"$args": []})
        else:
            p.ret = Obj("path:" + full)
        return [p]

    def e_paren(self, e, p):
        return self.expr(e["e"], p)

    def e_block(self, e, p):
        return self.block(e, [p])

    def e_ref(self, e, p):
        return self.expr(e["e"], p)

    def e_un(self, e, p):
        v = self.ev1(e["e"], p)
        if e["op"] == "*" or e["op"] == "&":
            p.ret = v
        elif e["op"] == "!":
            p.ret = Bool(None if not isinstance(v, Bool) or v.v is None else (not v.v), desc="!" + getattr(v, "desc", "?"))
        elif e["op"] == "-" and isinstance(v, Num) and v.poly is not None:
            p.ret = Num(v.ty, p_mul(v.poly, p_const(-1)))
        else:
            p.ret = Top("un")
        return [p]

    def e_cast(self, e, p):
        v = self.ev1(e["e"], p)
        ty = e["ty"].replace(" ", "")
        if isinstance(v, Num):
            p.ret = Num(ty, v.poly, v.src)
            p.effects.append(Effect("cast", e.get("line", 0), frm=v.ty, to=ty, poly=v.poly))
        else:
            p.ret = Num(ty) if ty in INT_TYPES else Top("cast")
        return [p]

    def e_tuple(self, e, p):
        if not e["elems"]:
            p.ret = UNIT
            return [p]
        p.ret = Tup([self.ev1(x, p) for x in e["elems"]])
        return [p]

    def e_field(self, e, p):
        base = self.ev1(e["e"], p)
        if isinstance(base, Obj):
            name = f"{base.name}.{e['m']}"
            if e["m"] in base.attrs:
                p.ret = base.attrs[e["m"]]
            elif name == "context.data_counter":
                p.ret = Num("u16", p.env.get("$data_counter", p_var("DC")))
            elif e["m"] == "source_position" and base.name.startswith("entry:"):
                # the position recorded with an earlier definition (its own @L): keeps that identity through local variables
                p.ret = Num("usize", p_var("@Ldef:source_position"))
            else:
                p.ret = Obj(name)
        elif isinstance(base, Tup) and e["m"].isdigit() and int(e["m"]) < len(base.elems):
            p.ret = base.elems[int(e["m"])]
        else:
            p.ret = Top("field")
        return [p]

    def e_index(self, e, p):
        base = self.ev1(e["e"], p)
        idx = e["i"]
        if isinstance(base, Str) and idx["k"] == "range":
            p.ret = self.slice_str(base, idx, p)
            if isinstance(p.ret, Str) and idx.get("hi") is not None:
                # length of the slice as a polynomial over the length of the sliced text: len - skipped - dropped
                cut = [part[2] for t in p.ret.t for part in t if part[0] == "hole" and len(part) > 2]
                cuts = {(dict(c).get("skip", 0), dict(c).get("drop", 0)) for c in cuts_of(cut)}
                if len(cuts) == 1:
                    sk, dr = next(iter(cuts))
                    base_len = getattr(base, "lenpoly", None) or p_var("len(" + self.describe(e["e"]) + ")")
                    p.ret.lenpoly = p_add(base_len, p_const(sk + dr), -1)
        else:
            self.ev1(idx, p) if idx["k"] != "range" else None
            p.ret = Top("index")
        return [p]

    def slice_str(self, s, rng, p):
        """&n[2..] / s[0..s.len()-k] on templates whose ends are holes: record as a slice hole"""
        lo = rng.get("lo")
        hi = rng.get("hi")
        lo_c = 0
        hi_c = 0
        if lo is not None:
            v = self.ev1(lo, p)
            if isinstance(v, Num) and v.poly is not None and set(v.poly) <= {()}:
                lo_c = v.poly.get((), 0)
            else:
                return Top("slice-lo")
        if hi is not None:
            # pattern x.len() - k
            if hi["k"] == "bin" and hi["op"] == "-" and hi["l"]["k"] == "mcall" and hi["l"]["m"] == "len" and hi["r"]["k"] == "lit":
                hi_c = int(hi["r"]["v"])
            else:
                return Top("slice-hi")
        out = set()
        for t in s.t:
            if len(t) == 1 and t[0][0] == "hole":
                out.add((("hole", t[0][1], H(of=t[0][2], skip=lo_c, drop=hi_c)),))
            elif len(t) == 1 and t[0][0] == "lit":
                txt = t[0][1]
                out.add((("lit", txt[lo_c:len(txt) - hi_c if hi_c else None]),))
            else:
                return Top("slice-of-template")
        return Str(out)

    def e_bin(self, e, p):
        op = e["op"]
        if op in ("+=", "-=", "*="):
            tgt = self.place_name(e["l"], p)
            rv = self.ev1(e["r"], p)
            p.effects.append(Effect("compound", e.get("line", 0), target=tgt, op=op, value=rv))
            if tgt == "context.data_counter" and isinstance(rv, Num) and rv.poly is not None:
                cur = p.env.get("$data_counter", p_var("DC"))
                p.env["$data_counter"] = p_add(cur, rv.poly, 1 if op == "+=" else -1)
            elif tgt == "context.data_counter":
                p.env["$data_counter"] = None
            p.ret = UNIT
            return [p]
        if op in ("&&", "||"):
            l = self.ev1(e["l"], p)
            r = self.ev1(e["r"], p)
            p.ret = Bool(None, desc=f"({getattr(l, 'desc', '?')} {op} {getattr(r, 'desc', '?')})")
            return [p]
        l = self.ev1(e["l"], p)
        r = self.ev1(e["r"], p)
        if op in ("+", "-", "*") and isinstance(l, Num) and isinstance(r, Num) and l.poly is not None and r.poly is not None:
            poly = p_add(l.poly, r.poly) if op == "+" else (p_add(l.poly, r.poly, -1) if op == "-" else p_mul(l.poly, r.poly))
            ty = l.ty if l.ty != "int" else r.ty
            p.effects.append(Effect("arith", e.get("line", 0), op=op, ty=ty, l=l, r=r))
            p.ret = Num(ty, poly)
        elif op in ("+", "-", "*", "/", "%"):
            ty = l.ty if isinstance(l, Num) else (r.ty if isinstance(r, Num) else "int")
            p.ret = Num(ty)
        elif op in ("==", "!=", "<", ">", "<=", ">="):
            p.ret = Bool(None, desc=f"{self.describe(e['l'])} {op} {self.describe(e['r'])}")
            p.ret.cmp = (op, l, r)
        else:
            p.ret = Top("bin")
        return [p]

    def describe(self, e):
        k = e["k"]
        if k == "path":
            return "::".join(e["segs"])
        if k == "lit":
            return repr(e["v"])
        if k == "field":
            return self.describe(e["e"]) + "." + e["m"]
        if k == "mcall":
            return self.describe(e["recv"]) + "." + e["m"] + "(" + ",".join(self.describe(a) for a in e["args"]) + ")"
        if k == "call":
            return self.describe(e["f"]) + "(" + ",".join(self.describe(a) for a in e["args"]) + ")"
        if k == "bin":
            return f"({self.describe(e['l'])} {e['op']} {self.describe(e['r'])})"
        if k == "un":
            return e["op"] + self.describe(e["e"])
        if k == "ref":
            return "&" + self.describe(e["e"])
        if k == "cast":
            return f"({self.describe(e['e'])} as {e['ty']})"
        if k == "index":
            return self.describe(e["e"]) + "[..]"
        return k

    def place_name(self, e, p):
        if e["k"] == "field":
            return self.place_name(e["e"], p) + "." + e["m"]
        if e["k"] == "path":
            if len(e["segs"]) == 1 and isinstance(p.env.get(e["segs"][0]), Obj) and not p.env[e["segs"][0]].name.startswith("path:"):
                return p.env[e["segs"][0]].name  # e.g. `self` inside an inlined method of the context
            return "::".join(e["segs"])
        if e["k"] == "un" and e["op"] == "*":
            return "*" + self.place_name(e["e"], p)
        return self.describe(e)

    def e_assign(self, e, p):
        tgt = self.place_name(e["l"], p)
        rv = self.ev1(e["r"], p)
        p.effects.append(Effect("assign", e.get("line", 0), target=tgt, value=rv))
        if tgt == "context.data_counter":
            p.env["$data_counter"] = rv.poly if isinstance(rv, Num) else None
        elif e["l"]["k"] == "path" and len(e["l"]["segs"]) == 1:
            p.env[e["l"]["segs"][0]] = rv
        p.ret = UNIT
        return [p]

    def e_return(self, e, p):
        if e["e"] is not None:
            outs = self.expr(e["e"], p)
        else:
            p.ret = UNIT
            outs = [p]
        for q in outs:
            q.returned = True
        return outs

    def e_macro(self, e, p):
        name = e["name"]
        line = e.get("line", 0)
        if name in ("format", "println", "print"):
            args = e.get("args")
            if not args or args[0]["k"] != "lit" or args[0]["ty"] != "str":
                p.ret = Top("format-args")
                return [p]
            fmt = args[0]["v"]
            vals = [self.ev1(a, p) for a in args[1:]]
            t = self.format(fmt, vals, args[1:])
            if name == "format":
                p.ret = t
            else:
                p.effects.append(Effect("print", line, text=t, fmt=fmt, args=[self.describe(a) for a in args[1:]]))
                p.ret = UNIT
            return [p]
        if name == "error":
            args = e.get("args") or []
            msg = self.ev1(args[2], p) if len(args) >= 3 else None
            sv = self.ev1(args[0], p) if args else None
            ev_ = self.ev1(args[1], p) if len(args) > 1 else None
            p.effects.append(Effect("error", line, msg=msg, start=self.describe(args[0]) if args else None, end=self.describe(args[1]) if len(args) > 1 else None,
                                    startv=sv, endv=ev_))
            p.ret = Res(None, True, msg)
            return [p]
        if name in ("vec", "alloc::vec"):
            p.ret = Top("vec")
            return [p]
        if name == "matches":
            args = e.get("args")
            if args and len(args) >= 2:
                self.ev1(args[0], p)
                # the pattern was parsed as an expression: `A | B` is an or-pattern, a path is a variant
                pat = self.describe(args[1]).replace("(", "").replace(")", "")
                p.ret = Bool(None, desc=f"{self.describe(args[0])} matches {pat}")
            else:
                p.ret = Bool(None, desc="matches!(" + (e.get("tokens") or "")[:60] + ")")
            return [p]
        self.unknown.append(("macro", name, line))
        p.ret = Top("macro:" + name)
        return [p]

    def format(self, fmt, vals, arg_nodes):
        """format string -> templates"""
        parts = re.split(r"(\{\{|\}\}|\{[^{}]*\})", fmt)
        cur = {()}
        ai = 0
        for part in parts:
            if part == "":
                continue
            if part == "{{":
                cur = tmpl_concat(cur, {(("lit", "{"),)})
            elif part == "}}":
                cur = tmpl_concat(cur, {(("lit", "}"),)})
            elif part.startswith("{") and part.endswith("}"):
                spec = part[1:-1]
                if ai >= len(vals):
                    return Top("format-arity")
                v = vals[ai]
                ai += 1
                if isinstance(v, Str):
                    cur = tmpl_concat(cur, v.t)
                elif isinstance(v, Num) and v.poly is not None and set(v.poly) <= {()}:
                    cur = tmpl_concat(cur, {(("lit", str(v.poly.get((), 0))),)})
                elif isinstance(v, Num):
                    cur = tmpl_concat(cur, {(("hole", "num", H(ty=v.ty, spec=spec)),)})
                else:
                    cur = tmpl_concat(cur, {(("hole", "unknown", H(arg=self.describe(arg_nodes[ai - 1]), val=repr(v))),)})
            else:
                cur = tmpl_concat(cur, {(("lit", part),)})
        return Str(cur)

    def scrutinee_paths(self, e, p):
        """evaluate the tested expression of an if / if let / match; it may fork (an inlined helper with several
        exits): returns (paths that yield a value in .ret, paths that returned from the action inside it)"""
        res = self.expr(e, p.fork())
        return [q for q in res if not q.returned], [q for q in res if q.returned]

    def e_if(self, e, p):
        cond = e["cond"]
        live, outs = self.scrutinee_paths(cond["e"] if cond["k"] == "let_cond" else cond, p)
        for q in live:
            outs.extend(self.if_on(e, q, q.ret))
        return outs

    def if_on(self, e, p, c):
        cond = e["cond"]
        outs = []
        if cond["k"] == "let_cond":
            arms = [{"pat": cond["pat"], "body": e["then"], "guard": None},
                    {"pat": {"k": "wild"}, "body": e["else"] or {"k": "block", "stmts": []}, "guard": None}]
            return self.do_match(c, arms, p, self.describe(cond["e"]), e.get("line", 0))
        desc = getattr(c, "desc", None) or self.describe(cond)
        branches = []
        if not (isinstance(c, Bool) and c.v is False):
            q = p.fork()
            q.conds.append((desc, True, e.get("line", 0), getattr(c, "cmp", None)))
            branches.append((q, e["then"]))
        if not (isinstance(c, Bool) and c.v is True):
            q = p.fork()
            q.conds.append((desc, False, e.get("line", 0), getattr(c, "cmp", None)))
            branches.append((q, e["else"] or {"k": "block", "stmts": []}))
        for q, body in branches:
            outs.extend(self.block(body, [q]) if body.get("k") == "block" else self.expr(body, q))
        return outs

    def e_match(self, e, p):
        live, outs = self.scrutinee_paths(e["e"], p)
        for q in live:
            outs.extend(self.do_match(q.ret, e["arms"], q, self.describe(e["e"]), e.get("line", 0)))
        return outs

    def do_match(self, scrut, arms, p, desc, line):
        outs = []
        remaining = {"some": True, "none": True, "ok": True, "err": True}
        earlier = []  # patterns of the arms above: a catch-all arm is taken when none of them matched
        for arm in arms:
            pat = arm["pat"]
            q = p.fork()
            take = True
            tag = self.pat_tag(pat)
            ent = getattr(scrut, "entry_of", None) if isinstance(scrut, Opt) else None
            if ent is not None and tag in ("Occupied", "Vacant"):
                tag = "Some" if tag == "Occupied" else "None"
                if tag == "None" and pat["k"] == "tuple_struct" and pat.get("elems"):
                    self.bind(pat["elems"][0], Obj("vacant:" + ent[0], {"key": ent[1], "key_desc": ent[2]}), q)
            if isinstance(scrut, Opt):
                if tag == "Some":
                    if scrut.some is None or not remaining["some"]:
                        take = False
                    else:
                        self.bind_payload(pat, scrut.some, q)
                        if all(self.irrefutable(x) for x in (pat.get("elems") or [])):
                            remaining["some"] = False  # Some(x): everything that is Some; Some(PATTERN) leaves the rest to later arms
                elif tag == "None":
                    if not scrut.none or not remaining["none"]:
                        take = False
                    remaining["none"] = False
                else:  # wildcard / binding: whatever is left
                    if not ((scrut.some is not None and remaining["some"]) or (scrut.none and remaining["none"])):
                        take = False
                    if pat["k"] == "ident":
                        q.env[pat["name"]] = scrut
            elif isinstance(scrut, Res):
                if tag == "Ok":
                    if scrut.ok is None or not remaining["ok"]:
                        take = False
                    else:
                        self.bind_payload(pat, scrut.ok, q)
                        remaining["ok"] = False
                elif tag == "Err":
                    if not scrut.err or not remaining["err"]:
                        take = False
                    else:
                        self.bind_payload(pat, Obj("err"), q)
                    remaining["err"] = False
                else:  # wildcard / binding: whatever is left
                    if not ((scrut.ok is not None and remaining["ok"]) or (scrut.err and remaining["err"])):
                        take = False
                    if pat["k"] == "ident":
                        q.env[pat["name"]] = scrut
            elif isinstance(scrut, Obj) and scrut.name.startswith("variant:"):
                # a value of a user enum built by a known constructor: only the arm of that variant (or a catch-all)
                vname = scrut.name.split("::")[-1]
                if remaining.get("variant_done"):
                    take = False
                elif tag is not None and pat["k"] in ("tuple_struct", "path", "struct"):
                    if tag != vname:
                        take = False
                    else:
                        remaining["variant_done"] = True
                        if pat["k"] == "tuple_struct":
                            for sp, v_ in zip(pat.get("elems") or [], scrut.attrs.get("$args") or []):
                                self.bind(sp, v_, q)
                elif self.irrefutable(pat):
                    remaining["variant_done"] = True
                    if pat["k"] == "ident":
                        q.env[pat["name"]] = scrut
            else:
                # unknown scrutinee: every arm is possible
                if pat["k"] in ("tuple_struct",):
                    self.bind_payload(pat, Top("payload"), q)
                elif pat["k"] == "ident" and tag is None:
                    q.env[pat["name"]] = scrut
                elif pat["k"] == "struct":
                    # `Variant{field: (a, b, c), other}`: every name bound by the pattern shadows an outer one
                    self.bind(pat, Top("struct-pattern"), q)
            ps = self.pat_str(pat)
            if ent is not None:
                ps = "Some(..)" if tag == "Some" else ("None" if tag == "None" else ps)
            if not take:
                if arm.get("guard") is None:
                    earlier.append(ps)
                continue
            if pat["k"] == "ident" and pat.get("name", "A")[0].islower() and pat.get("sub") is None:
                ps = "_"  # a binding pattern catches everything that is left
            if ps == "_" and earlier:
                ps = "_ [not " + " | ".join(earlier) + "]"
            elif arm.get("guard") is None:
                earlier.append(ps)
            q.conds.append((f"{desc.replace('.entry(', '.get(') if ent is not None else desc} matches {ps}", True, line, None))
            body = arm["body"]
            # names bound by the pattern are visible in the arm only: restore what they shadowed afterwards
            names = self.pattern_names(pat)
            saved = {n: p.env.get(n, _MISSING) for n in names}
            res = self.block(body, [q]) if body.get("k") == "block" else self.expr(body, q)
            for r_ in res:
                for n, v in saved.items():
                    if v is _MISSING:
                        r_.env.pop(n, None)
                    else:
                        r_.env[n] = v
            outs.extend(res)
        return outs

    def pattern_names(self, pat):
        out = []

        def walk(n):
            if isinstance(n, dict):
                if n.get("k") == "ident" and n.get("name") and not n["name"][0].isupper():
                    out.append(n["name"])
                for v in n.values():
                    walk(v)
            elif isinstance(n, list):
                for v in n:
                    walk(v)
        walk(pat)
        return out

    def pat_tag(self, pat):
        if pat["k"] == "tuple_struct":
            return pat["path"][-1]
        if pat["k"] == "ident" and pat["name"] in ("None",):
            return "None"
        if pat["k"] == "path":
            return pat["segs"][-1]
        return None

    def irrefutable(self, pat):
        k = pat.get("k")
        if k == "wild" or k == "rest":
            return True
        if k == "ident":
            return pat.get("name", "A")[0].islower() and pat.get("sub") is None
        if k == "tuple":
            return all(self.irrefutable(x) for x in pat.get("elems", []))
        if k == "ref":
            return self.irrefutable(pat["p"])
        return False

    def pat_str(self, pat):
        if pat["k"] == "tuple_struct":
            inner = pat.get("elems") or []
            if inner and not all(self.irrefutable(x) for x in inner):
                return "::".join(pat["path"]) + "(" + ", ".join(self.pat_str(x) for x in inner) + ")"
            return "::".join(pat["path"]) + "(..)"
        if pat["k"] == "tuple":
            return "(" + ", ".join(self.pat_str(x) for x in pat.get("elems", [])) + ")"
        if pat["k"] == "ident":
            return pat["name"]
        if pat["k"] == "path":
            return "::".join(pat["segs"])
        if pat["k"] == "wild":
            return "_"
        return pat["k"]

    def bind_payload(self, pat, val, q):
        if pat["k"] == "tuple_struct" and pat["elems"]:
            self.bind(pat["elems"][0], val, q)

    def e_call(self, e, p):
        f = e["f"]
        fname = "::".join(f["segs"]) if f["k"] == "path" else self.describe(f)
        args = [self.ev1(a, p) for a in e["args"]]
        line = e.get("line", 0)
        if fname == "Some" and args:
            p.ret = Opt(args[0], False)
        elif fname == "Ok" and args:
            p.ret = Res(args[0], False)
        elif fname == "Err":
            p.effects.append(Effect("error", line, msg=None, start=None, end=None))
            p.ret = Res(None, True)
        elif fname.endswith("::from_str_radix") and len(e["args"]) == 2:
            ty = fname.split("::")[0]
            radix = args[1].poly.get((), None) if isinstance(args[1], Num) and args[1].poly is not None else None
            p.effects.append(Effect("from_str_radix", line, ty=ty, radix=radix, text=args[0], text_desc=self.describe(e["args"][0])))
            p.ret = Res(Num(ty, p_var("n"), src=args[0]), True)
        elif fname == "Label::new":
            p.ret = Obj("Label", {"type": self.describe(e["args"][0]), "pos": args[1], "map": args[2], "map_desc": self.describe(e["args"][2])})
        elif fname in ("Regex::new",):
            p.effects.append(Effect("regex_new", line, pattern=args[0] if args else None))
            p.ret = Res(Obj("regex"), True)
        elif fname == "PreprocessorParser::new":
            p.ret = Obj("parser")
        elif fname in ("String::from", "String::new"):
            p.ret = args[0] if args else Str.lit("")
        elif f["k"] == "path" and len(f["segs"]) >= 2 and f["segs"][-1][:1].isupper() and f["segs"][-2][:1].isupper() \
                and (f["segs"][-2], f["segs"][-1]) not in getattr(self, "helpers", {}) and f["segs"][-2] not in ("String", "Vec", "Box", "Regex", "HashMap", "HashSet", "ParseError", "State", "Token"):
            # Enum::Variant(args): a value of a user enum; matched later by variant name
            p.ret = Obj("variant:" + "::".join(f["segs"][-2:]), {"$args": args})
        else:
            segs = fname.split("::")
            h = getattr(self, "helpers", {}).get((segs[-2] if len(segs) > 1 else None, segs[-1]))
            if h is not None and len(h["params"]) == len(args) and (not h["params"] or h["params"][0] != "self"):
                outs = self.inline(h, None, args, p)
                if outs is not None:
                    return outs
            p.effects.append(Effect("call", line, fn=fname, args=args, arg_descs=[self.describe(a) for a in e["args"]]))
            p.ret = Top("call:" + fname)
        return [p]

    def e_mcall(self, e, p):
        recv_node = e["recv"]
        m = e["m"]
        line = e.get("line", 0)
        recv = self.ev1(recv_node, p)
        rname = recv.name if isinstance(recv, Obj) else None
        args = [self.ev1(a, p) for a in e["args"]]
        descs = [self.describe(a) for a in e["args"]]
        if m == "parse" and not args and not (isinstance(recv, Obj) and recv.name == "parser"):
            # str::parse::<T>() is from_str_radix(.., 10) for the integer types
            tf = (e.get("turbofish") or "").replace(" ", "").replace("::<", "").replace(">", "").replace("<", "")
            ty = tf if tf in INT_TYPES else "?"
            p.effects.append(Effect("from_str_radix", line, ty=ty, radix=10, text=recv, text_desc=self.describe(recv_node)))
            p.ret = Res(Num(ty, p_var("n"), src=recv), True)
            return [p]
        comb = self.combinator(recv, recv_node, m, args, p, line)
        if comb is not None:
            return comb
        if m in ("to_owned", "to_string", "clone", "into", "as_str", "as_ref", "borrow") and not args:
            if isinstance(recv, Num):
                p.ret = self.format("{}", [recv], [recv_node]) if m == "to_string" else recv
            else:
                p.ret = recv
            return [p]
        if rname in ("out.code", "out.data") and m == "len":
            p.ret = Num("usize", p_var(rname + ".len"))
            p.ret.marker = rname + ".len@" + str(len([x for x in p.effects if x.kind == "push" and x.target == rname]))
            return [p]
        if m == "len" and not args:
            if isinstance(recv, Str) and len(recv.t) == 1 and len(next(iter(recv.t))) == 1 and next(iter(recv.t))[0][0] == "lit":
                p.ret = Num("usize", p_const(len(next(iter(recv.t))[0][1])))
            elif isinstance(recv, Str) and getattr(recv, "lenpoly", None) is not None:
                p.ret = Num("usize", recv.lenpoly)
            else:
                p.ret = Num("usize", p_var("len(" + self.describe(recv_node) + ")"))
            return [p]
        if m in ("unwrap_or", "unwrap_or_default") and isinstance(recv, Opt):
            dflt = args[0] if args else Num("?", p_const(0))
            if recv.some is not None and not recv.none:
                p.ret = recv.some
            elif recv.some is None:
                p.ret = dflt
            elif isinstance(recv.some, Str) and isinstance(dflt, Str):
                p.ret = Str(recv.some.t | dflt.t)
            else:
                p.ret = Top("unwrap_or of an option that may be either")
            return [p]
        if m == "unwrap":
            p.effects.append(Effect("unwrap", line, on=self.describe(recv_node), val=recv))
            if isinstance(recv, Res):
                p.ret = recv.ok or Top("unwrap")
            elif isinstance(recv, Opt):
                p.ret = recv.some or Top("unwrap")
            else:
                p.ret = Top("unwrap")
            return [p]
        # effects on the assembler's objects
        if rname in ("out.code", "out.data") and m == "push":
            p.effects.append(Effect("push", line, target=rname, value=args[0] if args else None))
            p.ret = UNIT
            return [p]
        if rname in ("out.code", "out.data") and m == "len":
            p.ret = Num("usize", p_var(rname + ".len"))
            p.ret.marker = rname + ".len@" + str(len([x for x in p.effects if x.kind == "push" and x.target == rname]))
            return [p]
        if rname == "context.mapper":
            p.effects.append(Effect("mapper", line, op=m, args=args, arg_descs=descs))
            p.ret = UNIT
            return [p]
        TRACKED = ("context.label_map", "context.fn_map", "context.macro_map", "context.undefined_labels", "context.macro_nesting_counter")
        if isinstance(recv, Obj) and recv.name.startswith("iter:") and recv.name[5:] in TRACKED and m in ("any", "position", "find") and args \
                and isinstance(args[0], Obj) and args[0].name == "closure":
            # `c.iter().any(|x| x == key)`: a membership test on the container, whatever its type
            body = args[0].attrs.get("$body") or {}
            params = [pp.get("name") for pp in args[0].attrs.get("$params") or [] if isinstance(pp, dict)]
            while body.get("k") == "block" and len(body.get("stmts", [])) == 1 and body["stmts"][0].get("k") == "expr":
                body = body["stmts"][0]["e"]
            key = None
            if body.get("k") == "bin" and body.get("op") == "==":
                for side in (body["l"], body["r"]):
                    d_ = self.describe(side).lstrip("*&")
                    if d_ not in params:
                        key = d_
            if key is not None:
                tgt = recv.name[5:]
                p.effects.append(Effect("map", line, target=tgt, op="contains", args=[], arg_descs=[key]))
                p.ret = Bool(None, desc=f"{tgt}.contains({key})")
                return [p]
        if rname in TRACKED and m in ("push", "pop"):
            # a vector used as a set/stack: push = insert, pop = remove (of the element pushed last)
            p.effects.append(Effect("map", line, target=rname, op="insert" if m == "push" else "remove", args=args, arg_descs=descs))
            p.ret = UNIT if m == "push" else Opt(Top("popped"), True)
            return [p]
        if rname in TRACKED and m in ("iter", "into_iter", "keys"):
            p.ret = Obj("iter:" + rname)
            return [p]
        if isinstance(recv, Obj) and recv.name.startswith("vacant:") and m == "insert":
            # `Entry::Vacant(e) => e.insert(v)` is the map's insert(key, v) on the path where the key is known absent
            tgt = recv.name[7:]
            p.effects.append(Effect("map", line, target=tgt, op="insert", args=[recv.attrs.get("key")] + list(args), arg_descs=[recv.attrs.get("key_desc", "key")] + list(descs)))
            p.ret = Top("inserted")
            return [p]
        if isinstance(recv, Obj) and recv.name.startswith("entry:") and m in ("get", "get_mut", "into_mut"):
            p.ret = recv
            return [p]
        if isinstance(recv, Obj) and (recv.name.startswith("entry:") or recv.name.startswith("vacant:")) and m == "key":
            p.ret = recv.attrs.get("key") or Top("key")
            return [p]
        if rname in TRACKED and m == "entry":
            # the entry API: `match map.entry(k) { Occupied(e) => .., Vacant(e) => .. }` is `match map.get(&k) { Some(e) => .., None => .. }`
            p.effects.append(Effect("map", line, target=rname, op="get", args=args, arg_descs=descs))
            o = Opt(Obj("entry:" + rname, {"map": Num("usize", p_var("label.map")), "key": args[0] if args else None}), True)
            o.entry_of = (rname, args[0] if args else None, descs[0] if descs else "key")
            p.ret = o
            return [p]
        if rname in TRACKED:
            p.effects.append(Effect("map", line, target=rname, op=m, args=args, arg_descs=descs))
            if m == "get":
                p.ret = Opt(Obj("entry:" + rname, {"map": Num("usize", p_var("label.map"))}), True)
            elif m in ("contains_key", "contains") or (m in ("insert", "remove") and rname in ("context.undefined_labels", "context.macro_nesting_counter")):
                # membership tests, and the bool a set's insert/remove reports (new element / element was present)
                p.ret = Bool(None, desc=f"{rname}.{m}({','.join(descs)})")
            else:
                p.ret = Top("map-op")
            return [p]
        if m == "parse" and isinstance(recv, Obj) and recv.name == "parser":
            p.effects.append(Effect("nested_parse", line, text=args[2] if len(args) > 2 else None, arg_descs=descs))
            p.ret = Res(UNIT, True)
            return [p]
        if m == "get_type":
            p.ret = Obj("label_type")
            return [p]
        if m in ("replace", "replace_all"):
            p.effects.append(Effect("string_replace", line, op=m, on=self.describe(recv_node), args=descs))
            # literal-by-literal replacement on a template: exact when the pattern can only occur inside the literal parts
            # (none of its characters can be produced by a hole next to a literal boundary is not checked: holes of these
            # templates are register names, identifiers and numerals, the pattern must contain a character outside them)
            done = None
            if m == "replace" and isinstance(recv, Str) and len(args) == 2 and all(isinstance(a, Str) and len(a.t) == 1 for a in args):
                pa, ra = (tmpl_str(next(iter(a.t))) if all(part[0] == "lit" for part in next(iter(a.t))) else None for a in args)
                if pa and ra is not None and any(not (ch.isalnum() or ch in "_-") for ch in pa):
                    new_t = set()
                    for t in recv.t:
                        new_t.add(tuple(("lit", part[1].replace(pa, ra)) if part[0] == "lit" else part for part in t))
                    done = Str(new_t)
            p.ret = done if done is not None else Str.hole("replaced", self.describe(recv_node))
            return [p]
        if m in ("iter", "enumerate", "bytes", "chars"):
            p.ret = Obj("iter:" + self.describe(recv_node))
            return [p]
        if m == "push" and isinstance(recv, Obj):
            p.effects.append(Effect("local_push", line, target=recv.name))
            p.ret = UNIT
            return [p]
        h = getattr(self, "helpers", {}).get((self.RECV_TYPES.get(rname), m)) if rname in self.RECV_TYPES else None
        if h is not None and len(h["params"]) == len(args) + 1 and h["params"][0] == "self":
            outs = self.inline(h, recv, args, p)
            if outs is not None:
                return outs
        p.effects.append(Effect("mcall", line, recv=self.describe(recv_node), m=m, args=args, arg_descs=descs))
        if m in ("contains", "contains_key", "starts_with", "ends_with", "is_empty", "is_some", "is_none", "is_ok", "is_err", "eq", "ne", "any", "all"):
            # a predicate: unknown truth, but the test it makes is kept for the rules that look at path conditions
            p.ret = Bool(None, desc=f"{self.describe(recv_node)}.{m}({','.join(descs)})")
            return [p]
        p.ret = Top("mcall:" + m)
        return [p]

    def trip_poly(self, node, p):
        """number of iterations of `for _ in <node>` as a polynomial, or None"""
        n = node
        while n["k"] in ("paren", "ref"):
            n = n["e"]
        if n["k"] == "range" and n.get("hi") is not None:
            hi = self.ev1(n["hi"], p.fork())
            lo = self.ev1(n["lo"], p.fork()) if n.get("lo") is not None else Num("int", p_const(0))
            if isinstance(hi, Num) and isinstance(lo, Num) and hi.poly is not None and lo.poly is not None:
                poly = p_add(hi.poly, lo.poly, -1)
                if n.get("incl"):
                    poly = p_add(poly, p_const(1))
                return poly
            return None
        if n["k"] == "mcall" and n["m"] in ("bytes", "chars") and not n["args"]:
            r = n["recv"]
            while r["k"] in ("paren", "ref"):
                r = r["e"]
            if r["k"] == "index" and r["i"]["k"] == "range":
                base = p_var("len(" + self.describe(r["e"]) + ")")
                lo = r["i"].get("lo")
                hi = r["i"].get("hi")
                skip = self.ev1(lo, p.fork()) if lo is not None else Num("int", p_const(0))
                if not (isinstance(skip, Num) and skip.poly is not None):
                    return None
                if hi is None:
                    return p_add(base, skip.poly, -1)
                hv = self.ev1(hi, p.fork())
                if isinstance(hv, Num) and hv.poly is not None:
                    return p_add(hv.poly, skip.poly, -1)
                return None
            rv = self.ev1(r, p.fork())
            if isinstance(rv, Str) and getattr(rv, "lenpoly", None) is not None:
                return rv.lenpoly
            return p_var("len(" + self.describe(r) + ")")
        return None

    def e_for(self, e, p):
        trip = self.trip_poly(e["iter"], p)
        it = self.ev1(e["iter"], p)
        q = p.fork()
        self.bind(e["pat"], Top("loop-var"), q)
        body = self.block(e["body"], [q])
        # effects of one iteration, marked as repeated
        for b in body[:1]:
            new = b.effects[len(p.effects):]
            p.effects.append(Effect("loop", e.get("line", 0), over=self.describe(e["iter"]), body=new, trip=trip))
        p.ret = UNIT
        return [p]

    def e_closure(self, e, p):
        # the closure's syntax tree travels with the value; it is evaluated where a combinator applies it
        p.ret = Obj("closure", {"$params": e.get("params") or [], "$body": e.get("body")})
        return [p]

    def apply_closure(self, clos, argvals, p):
        """paths of the closure body evaluated on this path (its parameters bound, then unbound again)"""
        if isinstance(clos, Obj) and clos.name.startswith("path:") and "::" in clos.name and len(argvals) == 1:
            # a function path used as the callable (`.map(Label::get_type)`): the method applied to the payload
            ty, m = clos.name[5:].rsplit("::", 1)
            h = getattr(self, "helpers", {}).get((ty.split("::")[-1], m))
            if h is not None and h["params"] and h["params"][0] == "self" and len(h["params"]) == 1:
                return self.inline(h, argvals[0], [], p)
            p.ret = Obj("label_type") if m == "get_type" else Top("fn-path:" + m)
            return [p]
        if not (isinstance(clos, Obj) and clos.name == "closure" and clos.attrs.get("$body") is not None):
            return None
        params, body = clos.attrs["$params"], clos.attrs["$body"]
        names = []
        for pat in params:
            names += self.pattern_names(pat)
        saved = {n: p.env.get(n, _MISSING) for n in names}
        for pat, v in zip(params, argvals):
            self.bind(pat, v, p)
        was_returned_marker = len(p.conds)
        outs = self.block(body, [p]) if body.get("k") == "block" else self.expr(body, p)
        for q in outs:
            # `return` inside a closure leaves the closure only
            q.returned = False
            for n, v in saved.items():
                if v is _MISSING:
                    q.env.pop(n, None)
                else:
                    q.env[n] = v
        return outs

    def combinator(self, recv, recv_node, m, args, p, line):
        """Option/Result combinators taking a closure: map, and_then, or_else, map_err, unwrap_or_else, ok_or_else.
        Returns the resulting paths, or None if this is not such a call."""
        if not args or not (isinstance(args[0], Obj) and (args[0].name == "closure" or (args[0].name.startswith("path:") and "::" in args[0].name))):
            return None
        clos = args[0]
        desc = self.describe(recv_node)
        outs = []
        if isinstance(recv, Res) and m in ("or_else", "map_err", "map", "and_then", "unwrap_or_else"):
            if recv.ok is not None:
                q = p.fork() if recv.err else p
                q.conds.append((f"{desc} matches Ok(..)", True, line, None))
                if m in ("map", "and_then"):
                    res = self.apply_closure(clos, [recv.ok], q) or []
                    for r_ in res:
                        if m == "map":
                            r_.ret = Res(r_.ret, False)
                    outs.extend(res)
                else:
                    q.ret = recv.ok if m == "unwrap_or_else" else Res(recv.ok, False)
                    outs.append(q)
            if recv.err:
                q = p.fork() if recv.ok is not None else p
                q.conds.append((f"{desc} matches Err(..)", True, line, None))
                if m in ("map", "and_then"):
                    q.ret = Res(None, True)
                    outs.append(q)
                else:
                    res = self.apply_closure(clos, [Obj("err")], q) or []
                    for r_ in res:
                        if m == "map_err":
                            r_.ret = Res(None, True)
                    outs.extend(res)
            return outs
        if isinstance(recv, Opt) and m == "filter":
            # Some(x) stays only if the closure accepts x
            if recv.none:
                q = p.fork() if recv.some is not None else p
                q.conds.append((f"{desc} matches None", True, line, None))
                q.ret = Opt(None, True)
                outs.append(q)
            if recv.some is not None:
                for r_ in self.apply_closure(clos, [recv.some], p) or []:
                    c = r_.ret
                    cd = getattr(c, "desc", None) or "filter closure"
                    if not (isinstance(c, Bool) and c.v is False):
                        k = r_.fork()
                        k.conds.append((cd, True, line, None))
                        k.ret = Opt(recv.some, False)
                        outs.append(k)
                    if not (isinstance(c, Bool) and c.v is True):
                        k = r_.fork()
                        k.conds.append((cd, False, line, None))
                        k.ret = Opt(None, True)
                        outs.append(k)
            return outs
        if isinstance(recv, Opt) and m in ("map", "and_then", "or_else", "unwrap_or_else", "ok_or_else", "map_or_else"):
            if recv.some is not None:
                q = p.fork() if recv.none else p
                q.conds.append((f"{desc} matches Some(..)", True, line, None))
                if m in ("map", "and_then"):
                    res = self.apply_closure(clos, [recv.some], q) or []
                    for r_ in res:
                        if m == "map":
                            r_.ret = Opt(r_.ret, False)
                    outs.extend(res)
                else:
                    q.ret = recv.some if m == "unwrap_or_else" else (Res(recv.some, False) if m == "ok_or_else" else Opt(recv.some, False))
                    outs.append(q)
            if recv.none:
                q = p.fork() if recv.some is not None else p
                q.conds.append((f"{desc} matches None", True, line, None))
                if m in ("map", "and_then"):
                    q.ret = Opt(None, True)
                    outs.append(q)
                else:
                    res = self.apply_closure(clos, [], q) or []
                    for r_ in res:
                        if m == "ok_or_else":
                            r_.ret = Res(None, True)
                    outs.extend(res)
            return outs
        return None

    def e_struct(self, e, p):
        p.ret = Obj("struct:" + "::".join(e["path"]), {f[0]: self.ev1(f[1], p) for f in e["fields"]})
        return [p]

    def e_try(self, e, p):
        """`x?`: the None / Err case leaves the enclosing function (the action, or an inlined helper) with that value"""
        live, outs = self.scrutinee_paths(e["e"], p)
        desc = self.describe(e["e"])
        line = e.get("line", 0)
        for q in live:
            v = q.ret
            if isinstance(v, Opt):
                if v.none:
                    r = q.fork() if v.some is not None else q
                    r.conds.append((f"{desc} matches None", True, line, None))
                    r.ret = Opt(None, True)
                    r.returned = True
                    outs.append(r)
                if v.some is not None:
                    q.conds.append((f"{desc} matches Some(..)", True, line, None))
                    q.ret = v.some
                    outs.append(q)
            elif isinstance(v, Res):
                if v.err:
                    r = q.fork() if v.ok is not None else q
                    r.conds.append((f"{desc} matches Err(..)", True, line, None))
                    r.effects.append(Effect("error", line, msg=None, start=None, end=None))
                    r.ret = Res(None, True)
                    r.returned = True
                    outs.append(r)
                if v.ok is not None:
                    q.conds.append((f"{desc} matches Ok(..)", True, line, None))
                    q.ret = v.ok
                    outs.append(q)
            else:
                q.ret = Top("try")
                outs.append(q)
        return outs

    def e_other(self, e, p):
        self.unknown.append(("other", e.get("text", "")[:40], e.get("line")))
        p.ret = Top("other")
        return [p]

    def e_parse_error(self, e, p):
        self.unknown.append(("parse_error", e.get("msg"), 0))
        p.ret = Top("parse_error")
        return [p]

    def e_array(self, e, p):
        p.ret = Top("array")
        return [p]

    def e_range(self, e, p):
        p.ret = Top("range")
        return [p]

    def e_while(self, e, p):
        p.ret = UNIT
        return [p]

    def e_loop(self, e, p):
        p.ret = UNIT
        return [p]


def tmpl_str(t):
    out = []
    for part in t:
        if part[0] == "lit":
            out.append(part[1])
        else:
            info = hinfo(part)
            if part[1] == "num":
                out.append("<" + info["ty"] + ">")
            else:
                out.append("<" + part[1] + ">")
    return "".join(out)
