"""C04 — operand forms and addressing: the physical address of every memory_addr production as an affine
form over the registers, compared with the architectural form (16*seg + ea16) mod 2^20; default segment;
byte-register aliasing; word lanes; LEA.  The required form is derived from the production itself."""
from domains import Lin, lin_equal_witness, bits_all_deps
from insn import is_copy, report_aborts, fn_where
from units import run_interp_production, addr_atom, Gram
from program import arch_index
from absint import IntV, EnumV, RefV, Interp, State, Unsupported
from insn import summarize_fn
import mir as M

MBm = 1 << 20

EXPL = (
    "Every alternative of the memory_addr nonterminal is executed abstractly (all register/override/number "
    "sub-alternatives enumerated); the returned physical address is an exact affine-with-modulus form over the "
    "register atoms. R1: it must depend on exactly the registers named in the production, the displacement and the "
    "right segment (override, else SS iff BP is a base, else DS). R2: it must equal ((16*seg + ((sum of offset parts) "
    "mod 2^16)) mod 2^20) - decided by normal-form equality, or refuted by a concrete valuation of the symbols on which "
    "the two closed forms differ (the witness). R3: result < 2^20 (interval). R4: byte-register aliasing exact in the bit "
    "domain for all 8 halves. R5: word operands use cells m and m+1 mod 2^20, low lane first (separate_bytes, and every "
    "word read/write in the interpreter actions). R6: LEA writes one register, touches no memory or flag, and its value "
    "is the 16-bit offset (no segment dependency). R7: data labels resolve to (16*DS + offset) mod 2^20."
)


def seg_choice(G, seg_nt="seg_reg"):
    out = []
    for k, p in enumerate(G.productions(seg_nt)):
        t = [s["name"].strip('"') for s in p["symbols"] if s["t"] == "term"]
        out.append((k, t[0] if t else None))
    return out


def leaf_terms(G, nt, k, seen=()):
    """terminal spellings reachable by choosing alternative k of nt (register names)"""
    p = G.productions(nt)[k]
    out = []
    for s in p["symbols"]:
        if s["t"] == "term":
            out.append(s["name"].strip('"'))
    return out


def expand_choices(G, nt):
    """all ways to pick alternatives down to terminals for register-ish nonterminals: list of (choice dict path->k, regs)"""
    res = []
    prods = G.productions(nt)
    for k, p in enumerate(prods):
        subs = [(i, s["name"]) for i, s in enumerate(p["symbols"]) if s["t"] == "nt"]
        terms = [s["name"].strip('"') for s in p["symbols"] if s["t"] == "term"]
        if not subs:
            res.append(({(): k}, terms))
        else:
            # pass-through alternative(s)
            partial = [({(): k}, list(terms))]
            for i, sub in subs:
                new = []
                for ch, regs in partial:
                    for ch2, regs2 in expand_choices(G, sub):
                        d = dict(ch)
                        for pth, kk in ch2.items():
                            d[(i,) + pth] = kk
                        new.append((d, regs + regs2))
                partial = new
            res.extend(partial)
    return res


def reg_nonterminals(G):
    """nonterminals that only choose among the address registers (directly or through another such nonterminal):
    derived from the grammar, so that a refactored or added register nonterminal is enumerated like the others"""
    regs = {'"bx"', '"bp"', '"si"', '"di"'}
    S = set()
    changed = True
    while changed:
        changed = False
        for nt in G.g["nonterminals"]:
            n = nt["name"]
            if n in S or n.startswith("__") or not nt["productions"]:
                continue
            if all(len(p["symbols"]) == 1 and ((p["symbols"][0]["t"] == "term" and p["symbols"][0]["name"] in regs)
                                              or (p["symbols"][0]["t"] == "nt" and p["symbols"][0]["name"] in S)) for p in nt["productions"]):
                S.add(n)
                changed = True
    return S


def seg_nonterminals(G):
    """nonterminals that only choose a segment register or nothing: the register choice itself (every alternative one
    of cs/ds/es/ss) and any wrapper around it built from terminals, e.g. an optional `seg_reg ":"` prefix"""
    segs = {'"cs"', '"ds"', '"es"', '"ss"'}
    base = set()
    for nt in G.g["nonterminals"]:
        if nt["productions"] and all(len(p["symbols"]) == 1 and p["symbols"][0]["t"] == "term" and p["symbols"][0]["name"] in segs
                                     for p in nt["productions"]):
            base.add(nt["name"])
    S = set(base)
    changed = True
    while changed:
        changed = False
        for nt in G.g["nonterminals"]:
            n = nt["name"]
            if n in S or not nt["productions"]:
                continue
            if all(all(x["t"] == "term" or x["name"] in S for x in p["symbols"]) for p in nt["productions"]) and \
                    any(x["t"] == "nt" and x["name"] in S for p in nt["productions"] for x in p["symbols"]):
                S.add(n)
                changed = True
    return S


NUM_NTS = ("u_word_num", "s_word_num", "u_byte_num", "s_byte_num")


def addr_part_nonterminal(G, nt, reg_nts, seg_nts, depth=0):
    """every alternative consists of punctuation, address-register / segment / numeral nonterminals or other such parts"""
    if depth > 4 or nt not in G.nts:
        return False
    for p in G.productions(nt):
        for x in p["symbols"]:
            if x["t"] == "term":
                continue
            n = x["name"]
            if n in reg_nts or n in seg_nts or n in NUM_NTS:
                continue
            if not addr_part_nonterminal(G, n, reg_nts, seg_nts, depth + 1):
                return False
    return True


def run(ctx, chk):
    chk.explanation = EXPL
    chk.assumptions += [
        "register atoms are independent 16-bit values; numbers are arbitrary values of their Rust type",
        "witness valuations are evaluated on the two closed forms (analysis result vs. Intel form), never on the program",
    ]
    P = ctx.program
    G = ctx.gram("interpreter")
    chk.rule("C04.R1", "address depends on exactly the architecturally required registers, displacement and segment", floor=60)
    chk.rule("C04.R2", "address == (16*seg + (offset parts mod 2^16)) mod 2^20", floor=60)
    chk.rule("C04.R3", "every address value is < 2^20", floor=10)
    chk.rule("C04.R4", "byte registers alias exactly their half of the word register", floor=16)
    chk.rule("C04.R5", "word operands are the cells m, m+1 (mod 2^20), low byte first", floor=40)
    chk.rule("C04.R6", "LEA: one register written, no memory/flag touched, value is the 16-bit offset", floor=2)
    chk.rule("C04.R7", "data labels resolve to (16*DS + offset) mod 2^20", floor=2)
    # every addressing alternative contains at least one checked arithmetic site, so that is the least that must be seen
    chk.rule("C04.R8", "no abort site in the addressing actions", floor=max(3, len(G.productions("memory_addr"))))

    segs = seg_choice(G)
    REG_NTS = reg_nonterminals(G)
    SEG_NTS = seg_nonterminals(G)
    chk.extra["segment_nonterminals"] = sorted(SEG_NTS)
    chk.extra["register_nonterminals"] = sorted(REG_NTS)
    variants = 0
    for k, p in enumerate(G.productions("memory_addr")):
        label = G.prod_label("memory_addr", k)
        where = f"{G.g['file']}:{p['line']}"
        syms = p["symbols"]
        has_seg = any(s["t"] == "nt" and s["name"] == "seg_reg" for s in syms)
        # enumerate sub-choices per symbol
        per_sym = []
        for i, s in enumerate(syms):
            if s["t"] != "nt":
                continue
            if s["name"] in SEG_NTS:
                opts = []
                for ch, terms in expand_choices(G, s["name"]):
                    nm = [t for t in terms if t in ("cs", "ds", "es", "ss")]
                    opts.append((i, "seg", {(i,) + pth: kk for pth, kk in ch.items()}, [nm[0] if nm else None]))
                per_sym.append(opts)
            elif s["name"] in REG_NTS:
                opts = []
                for ch, regs in expand_choices(G, s["name"]):
                    opts.append((i, "reg", {(i,) + pth: kk for pth, kk in ch.items()}, regs))
                per_sym.append(opts)
            elif s["name"] in NUM_NTS:
                opts = []
                for ch, regs in expand_choices(G, s["name"]):
                    opts.append((i, "num", {(i,) + pth: kk for pth, kk in ch.items()}, []))
                per_sym.append(opts)
            else:
                # a nonterminal that assembles part of the address from registers and numbers (e.g. `mem_offset`,
                # `base_reg_pair`): enumerate its alternatives down to the terminals, like the register nonterminals
                opts = None
                if addr_part_nonterminal(G, s["name"], REG_NTS, SEG_NTS):
                    try:
                        ex = expand_choices(G, s["name"])
                        if len(ex) <= 400:
                            opts = [(i, "mixed", {(i,) + pth: kk for pth, kk in ch.items()}, terms) for ch, terms in ex]
                    except RecursionError:
                        opts = None
                per_sym.append(opts or [(i, "other", {}, [])])
        import itertools
        for combo in itertools.product(*per_sym):
            choice = {}
            regs = []
            seg = None
            for (i, kind, ch, names) in combo:
                choice.update(ch)
                if kind == "seg":
                    seg = names[0]
                elif kind == "reg":
                    regs += names
                elif kind == "mixed":
                    regs += [t_ for t_ in names if t_ in ("bx", "bp", "si", "di")]
                    sg = [t_ for t_ in names if t_ in ("cs", "ds", "es", "ss")]
                    if sg:
                        seg = sg[0]
            regs = [r for r in regs if r in ("bx", "bp", "si", "di")]

            def chooser(path, n, prods, choice=choice):
                return choice.get(tuple(path))
            try:
                I, st, v, r = run_interp_production(ctx, "memory_addr", k, chooser)
            except Unsupported as e:
                chk.undecided_("C04.R2", label, str(e))
                continue
            variants += 1
            nums = sorted(a for a in I.atoms if a.startswith("num:"))
            unit = f"{label} [{'+'.join(regs) or 'direct'}{' seg=' + seg if seg else ''}{' num=' + ','.join(I.atoms[n][0] for n in nums) if nums else ''}]"
            if v is None or v.kind != "int":
                chk.undecided_("C04.R2", unit, f"address value is not an integer: {v!r}")
                continue
            # R3
            if v.lo >= 0 and v.hi < MBm:
                chk.ok("C04.R3", unit, f"[{v.lo},{v.hi}]")
            else:
                chk.violation("C04.R3", label, "address-not-below-1MB", f"address range [{v.lo},{v.hi}] is not within the 1 MB space", where)
            # architectural form
            want_seg = seg or ("ss" if "bp" in regs else "ds")
            ea = Lin(0)
            for rname in regs:
                ea = ea.add(Lin.atom(rname))
            for n in nums:
                ea = ea.add(Lin.atom(n))
            ea16 = ea.mod(1 << 16)
            want = Lin.atom(want_seg).scale(16).add(ea16).mod(MBm)
            # R1 dependencies (sound: may-depend over-approximates)
            have = set(a for a, _ in v.deps())
            need = set(regs) | set(nums) | {want_seg}
            miss = need - have
            extra_seg = (have & {"ds", "ss", "es", "cs"}) - {want_seg}
            extra_reg = (have & {"ax", "bx", "cx", "dx", "si", "di", "bp", "sp"}) - set(regs)
            if miss:
                chk.violation("C04.R1", label, f"ignores-{'+'.join(sorted(miss))}:{'+'.join(regs) or 'direct'}{':' + seg if seg else ''}",
                              f"address of {unit} cannot depend on {sorted(miss)}", where)
            elif (extra_seg or extra_reg) and v.aff is not None:
                chk.violation("C04.R1", label, f"uses-{'+'.join(sorted(extra_seg | extra_reg))}:{'+'.join(regs) or 'direct'}{':' + seg if seg else ''}",
                              f"address of {unit} is a function of {sorted(extra_seg | extra_reg)} (exact form {v.aff.pretty()}); required: {sorted(need)}", where)
            else:
                chk.ok("C04.R1", unit, f"depends on {sorted(have)}")
            # R2 closed form
            if v.aff is None:
                chk.undecided_("C04.R2", unit, "no exact affine form for the address")
                continue
            ranges = I.atom_ranges()
            verdict, env = lin_equal_witness(v.aff, want, ranges)
            if verdict == "equal":
                chk.ok("C04.R2", unit, v.aff.pretty())
            elif verdict == "differ":
                got, exp = v.aff.eval(env), want.eval(env)
                shape = "+".join(regs) or "direct"
                chk.violation("C04.R2", label, "offset-not-wrapped-at-16-bits",
                              f"{unit}: emulator address {v.aff.pretty()} differs from the 8086 address {want.pretty()}",
                              where, f"{ {k_: hex(x) if x >= 0 else x for k_, x in env.items()} }: emulator {hex(got)}, 8086 {hex(exp)}")
            else:
                chk.undecided_("C04.R2", unit, f"forms differ syntactically, no separating valuation found: {v.aff.pretty()} vs {want.pretty()}")
            report_aborts(chk, "C04.R8", unit, I.events, where)
    chk.extra["memory_addr_variants"] = variants

    # R7 labels
    for nt in ("byte_label", "word_label"):
        for k, p in enumerate(G.productions(nt)):
            where = f"{G.g['file']}:{p['line']}"
            I, st, v, r = run_interp_production(ctx, nt, k)
            if v is None or v.kind != "int" or v.aff is None:
                chk.undecided_("C04.R7", nt, f"label address not an exact integer form: {v!r}")
                continue
            maps = [a for a in I.atoms if a.endswith(".map")]
            if len(maps) != 1:
                chk.undecided_("C04.R7", nt, f"label offset atom not identified: {sorted(I.atoms)}")
                continue
            want = Lin.atom("ds").scale(16).add(Lin.atom(maps[0])).mod(MBm)
            ranges = I.atom_ranges()
            verdict, env = lin_equal_witness(v.aff, want, ranges)
            if verdict == "equal":
                chk.ok("C04.R7", nt, v.aff.pretty())
            elif verdict == "differ":
                chk.violation("C04.R7", nt, "label-address", f"{nt}: address {v.aff.pretty()} differs from (16*DS + offset) mod 2^20", where, str(env))
            else:
                chk.undecided_("C04.R7", nt, "no separating valuation")
            if v.lo >= 0 and v.hi < MBm:
                chk.ok("C04.R3", nt, f"[{v.lo},{v.hi}]")
            else:
                chk.violation("C04.R3", nt, "address-not-below-1MB", f"label address range [{v.lo},{v.hi}]", where)
            report_aborts(chk, "C04.R8", nt, I.events, where)

    # R4 byte register aliasing
    breg = P.find_adt("util::data_util::ByteReg")
    getf = P.find("lib", "util::data_util::get_byte_reg")
    setf = P.find("lib", "util::data_util::set_byte_reg")
    if not (breg and getf and setf):
        chk.undecided_("C04.R4", "get/set_byte_reg", "functions or ByteReg enum not found")
    else:
        from units import machine_state
        ai = arch_index(P)
        for vi, var in enumerate(breg["variants"]):
            name = var["name"]
            word = name[0].lower() + "x"
            lo = 0 if name[1] == "L" else 8
            # get
            I = Interp(P)
            st = machine_state(I, P)
            ret = I.run_fn(getf, [RefV((0, "vm", ())), EnumV(breg["name"], vi, (), len(breg["variants"]))], st)
            good = ret is not None and ret.kind == "int" and all(b == ("c", word, lo + i) for i, b in enumerate(ret.bits))
            if good:
                chk.ok("C04.R4", f"get {name}", f"= {word}[{lo}..{lo + 7}]")
            else:
                chk.violation("C04.R4", "get_byte_reg", f"{name}-wrong-half", f"get_byte_reg({name}) is not bits {lo}..{lo + 7} of {word.upper()}: {ret!r}", fn_where(getf))
            # set
            I = Interp(P)
            st = machine_state(I, P)
            val = I.new_atom("u8", "val")
            I.run_fn(setf, [RefV((0, "vm", ())), EnumV(breg["name"], vi, (), len(breg["variants"])), val], st)
            vm = st.frames[0]["vm"]
            regs = {n: vm.fields[0].fields[i] for n, i in ai.items()}
            bad = [n for n, x in regs.items() if n != word and not is_copy(x, n)]
            wv = regs[word]
            okbits = all((b == ("c", "val", i - lo)) if lo <= i < lo + 8 else (b == ("c", word, i)) for i, b in enumerate(wv.bits))
            if bad or not okbits:
                chk.violation("C04.R4", "set_byte_reg", f"{name}-wrong-half", f"set_byte_reg({name}) does not replace exactly bits {lo}..{lo + 7} of {word.upper()} (others changed: {bad})", fn_where(setf))
            else:
                chk.ok("C04.R4", f"set {name}", f"replaces {word}[{lo}..{lo + 7}] only")

    # R5 word lanes: separate_bytes + every interpreter production with a word memory operand
    sep = P.find("lib", "util::data_util::separate_bytes")
    if sep:
        s = summarize_fn(ctx, sep)
        ret = s.ret
        nm = s.arg_names[0]
        ok_ = ret is not None and ret.kind == "agg" and len(ret.fields) == 2 and \
            all(b == ("c", nm, 8 + i) for i, b in enumerate(ret.fields[0].bits)) and all(b == ("c", nm, i) for i, b in enumerate(ret.fields[1].bits))
        if ok_:
            chk.ok("C04.R5", "separate_bytes", "(high, low) = (bits 8..15, bits 0..7)")
        else:
            chk.violation("C04.R5", "separate_bytes", "lanes", f"separate_bytes does not return (bits 8..15, bits 0..7): {ret!r}", fn_where(sep))
    word_lane_rule(ctx, chk, G)

    # R6 LEA
    for k, p in enumerate(G.productions("lea")):
        label = G.prod_label("lea", k)
        where = f"{G.g['file']}:{p['line']}"
        # concrete shape: lea r, word [bx] (and label form)
        seen_viol = False
        sub = expand_choices(G, "memory_addr") if any(s["name"] == "memory_addr" for s in p["symbols"]) else [({}, [])]
        mi = next((i for i, s in enumerate(p["symbols"]) if s["name"] in ("memory_addr", "word_label")), None)
        done = 0
        for ch, regs in sub:
            regs = [r for r in regs if r in ("bx", "bp", "si", "di")]
            segs_ = [r for r in ch and [] or []]
            choice = {(mi,) + pth: kk for pth, kk in ch.items()}
            choice[(1,)] = 0  # destination register: first alternative

            def chooser(path, n, prods, choice=choice):
                return choice.get(tuple(path))
            I, st, v, r = run_interp_production(ctx, "lea", k, chooser)
            done += 1
            ai = arch_index(P)
            vm = st.frames[0]["vm"]
            regsv = {n: vm.fields[0].fields[i] for n, i in ai.items()}
            mem = st.frames[0]["mem"]
            changed = [n for n, x in regsv.items() if not is_copy(x, n)]
            touched = list(mem.cells)
            if "flag" in changed:
                chk.violation("C04.R6", label, "lea-changes-flags", "LEA modifies the flag word", where)
                continue
            if touched or mem.havoc is not None:
                chk.violation("C04.R6", label, "lea-touches-memory", f"LEA accesses memory cells {touched}", where)
                continue
            if len(changed) != 1:
                chk.violation("C04.R6", label, "lea-writes-" + "+".join(changed), f"LEA changes {changed}", where)
                continue
            val = regsv[changed[0]]
            have = set(a for a, _ in val.deps())
            segdeps = have & {"ds", "ss", "es", "cs"}
            if segdeps and val.aff is not None:
                nums = sorted(a for a in I.atoms if a.startswith("num:") or a.endswith(".map"))
                ea = Lin(0)
                for rn in regs:
                    ea = ea.add(Lin.atom(rn))
                for n in nums:
                    ea = ea.add(Lin.atom(n))
                want = ea.mod(1 << 16)
                verdict, env = lin_equal_witness(val.aff, want, I.atom_ranges())
                if verdict == "differ":
                    if not seen_viol:
                        chk.violation("C04.R6", label, "lea-depends-on-segment",
                                      f"LEA result {val.aff.pretty()} depends on {sorted(segdeps)}; the 8086 loads the 16-bit offset {want.pretty()}",
                                      where, f"{env}: emulator {hex(val.aff.eval(env))}, 8086 {hex(want.eval(env))}")
                        seen_viol = True
                elif verdict == "equal":
                    chk.ok("C04.R6", f"{label} [{'+'.join(regs)}]", "offset only")
                else:
                    chk.undecided_("C04.R6", f"{label} [{'+'.join(regs)}]", "segment-dependent form, no separating valuation")
            elif segdeps:
                chk.undecided_("C04.R6", f"{label} [{'+'.join(regs)}]", f"may depend on {sorted(segdeps)}, no exact form")
            else:
                chk.ok("C04.R6", f"{label} [{'+'.join(regs)}]", "no segment dependency, no memory, no flags")
        report_aborts(chk, "C04.R8", label, [], where)


def address_wrappers(G):
    """nonterminals that only hand on an address: every alternative is one addressing nonterminal (memory_addr behind
    a "byte"/"word" keyword, byte_label, word_label, or another such wrapper) with no code of its own.
    Returns {name: set of widths {'b','w'}}"""
    cls = {"byte_label": {"b"}, "word_label": {"w"}}
    changed = True
    while changed:
        changed = False
        for nt in G.g["nonterminals"]:
            n = nt["name"]
            if n in cls or n == "memory_addr" or nt.get("type") != "usize" or not nt["productions"]:
                continue
            ws, ok = set(), True
            for p in nt["productions"]:
                nts = [x["name"] for x in p["symbols"] if x["t"] == "nt"]
                terms = [x["name"] for x in p["symbols"] if x["t"] == "term"]
                ua = G.main_user_action(p["action"])
                if len(nts) != 1:
                    ok = False
                    break
                if ua["kind"] == "user":
                    # code of its own is allowed only if it is the bare name of the addressing symbol (`<memory_addr>`, `<m:..> => m`)
                    pos = [i for i, x in enumerate(p["symbols"]) if x["t"] == "nt"][0]
                    names_ = ua.get("arg_names") or []
                    if not (pos < len(names_) and (ua.get("code") or "").strip() == names_[pos] and names_[pos] not in ("_", "")):
                        ok = False
                        break
                if nts[0] == "memory_addr" and '"word"' in terms:
                    ws.add("w")
                elif nts[0] == "memory_addr" and '"byte"' in terms:
                    ws.add("b")
                elif nts[0] in cls:
                    ws |= cls[nts[0]]
                else:
                    ok = False
                    break
            if ok and ws:
                cls[n] = ws
                changed = True
    return cls


def word_lane_rule(ctx, chk, G):
    """every production whose RHS has `"word" memory_addr` or word_label: the cells touched for that operand are
    exactly m and (m+1) mod 2^20; word values assembled from them have m in bits 0..7 and m+1 in bits 8..15."""
    ov_names = {"memory_addr": "m", "byte_label": "lb", "word_label": "lw"}
    from units import addr_atom
    P = ctx.program
    wrappers = address_wrappers(G)
    for w in wrappers:
        ov_names.setdefault(w, "m")
    chk.extra["address_wrappers"] = {k: sorted(v) for k, v in wrappers.items() if k not in ("byte_label", "word_label")}
    for nt_data in G.g["nonterminals"]:
        nt = nt_data["name"]
        if nt in ("memory_addr", "lea") or nt in wrappers:
            continue
        for k, p in enumerate(nt_data["productions"]):
            names = [s["name"] for s in p["symbols"]]
            word_ops = []
            for i, n in enumerate(names):
                if wrappers.get(n) == {"w"} or (n == "memory_addr" and i > 0 and names[i - 1] == '"word"'):
                    word_ops.append(i)
            byte_ops = [i for i, n in enumerate(names) if wrappers.get(n) == {"b"} or (n == "memory_addr" and i > 0 and names[i - 1] == '"byte"')]
            if not word_ops and not byte_ops:
                continue
            label = G.prod_label(nt, k)
            where = f"{G.g['file']}:{p['line']}"
            ov = {n: addr_atom(v) for n, v in ov_names.items()}
            try:
                I, st, v, r = run_interp_production(ctx, nt, k, overrides=ov)
            except Unsupported as e:
                chk.undecided_("C04.R5", label, str(e))
                continue
            mem = st.frames[0]["mem"]
            if not mem.cells and mem.havoc is None and v is not None and not any(e.kind == "assert" and e.akind == "BoundsCheck" for e in I.events):
                # the production touches no memory at all and only hands the address on inside its value (an operand-class
                # nonterminal such as `pop_operand = "word" memory_addr => WordOperand::Mem(m)`): the access is made, and
                # checked, in the production that consumes the value
                deps_ = {a for a, _b in I.deep_deps(st, v)} if hasattr(I, "deep_deps") else set()
                if any(any((ov_names.get(names[i], "m") + str(i)) == a for a in deps_) for i in word_ops + byte_ops):
                    chk.ok("C04.R5", f"{label}:hands-address-on", "no memory access here; the address is part of the production's value", nontrivial=False)
                    continue
            for i in word_ops + byte_ops:
                base = ov_names.get(names[i], "m") + str(i)
                want = {base} if i in byte_ops else {base, f"(({base} + 1) mod 2^20)"}
                got = set(kk for kk in mem.cells if base in kk)
                if mem.havoc is not None:
                    chk.undecided_("C04.R5", f"{label}@{i}", "memory havocked")
                    continue
                if got != want:
                    chk.violation("C04.R5", label, f"cells-of-operand-{i}", f"operand at position {i}: touches cells {sorted(got)}, expected {sorted(want)}", where)
                    continue
                good = True
                detail = "cells m, m+1"
                if i in word_ops:
                    # every 16-bit value that mixes the two lanes must have them in little-endian position
                    lo_atom, hi_atom = f"mem[{base}]", f"mem[(({base} + 1) mod 2^20)]"
                    for e in I.events:
                        if e.kind != "call":
                            continue
                        for a in e.args:
                            if a.kind == "int" and a.w == 16:
                                atoms = set(x for x, _ in a.deps())
                                copies = [b for b in a.bits if b not in (0, 1) and b[0] == "c" and b[1] in (lo_atom, hi_atom)]
                                if len(copies) == 16:
                                    if not all(b == ("c", lo_atom if j < 8 else hi_atom, j % 8) for j, b in enumerate(a.bits)):
                                        good = False
                                        detail = f"a word read passed to {e.callee} has its lanes misplaced"
                if good:
                    chk.ok("C04.R5", f"{label}@{i}", detail)
                else:
                    chk.violation("C04.R5", label, f"lanes-of-operand-{i}", detail, where)
