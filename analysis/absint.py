"""Engine V: forward abstract interpreter over MIR (JSON facts of engine M).

Flow-sensitive, joins at merge points, widening at loop heads, context-sensitive inlining of
local callees, hand-written models for std callees.  Integer values are a reduced product of
per-bit provenance (B), intervals with an exactness flag (I) and affine forms (F), see domains.py.
Nothing is executed: every function below manipulates abstract values only.
"""
import itertools
import re
from domains import (
    Lin, opaque, shr_lin, band, bor, bxor, bnot, bdeps, bdep, bjoin, bits_const, bits_atom, bits_known,
    bits_all_deps, bits_dep_all, bits_carry_chain, bits_same,
)
import mir as M

MB = 1 << 20
_vid = itertools.count(1)


class Unsupported(Exception):
    pass


class NeedSplit(Exception):
    def __init__(self, atom, bit):
        self.atom = atom
        self.bit = bit


# ----------------------------------------------------------------------------------------------
# values


class V:
    kind = "?"

    def deps(self):
        return frozenset()


class UnitV(V):
    kind = "unit"

    def __repr__(self):
        return "()"


UNIT = UnitV()


class IntV(V):
    kind = "int"
    __slots__ = ("ty", "w", "signed", "bits", "lo", "hi", "aff", "exact", "vid", "lineage", "pred", "full", "excl", "sym")

    def __init__(self, ty, bits, lo, hi, aff=None, exact=False, lineage=frozenset(), pred=None, vid=None, full=False,
                 excl=frozenset()):
        it = M.int_type(ty)
        if it is None:
            raise Unsupported("IntV of type " + ty)
        self.ty = ty
        self.w, self.signed = it
        self.bits = bits
        tlo, thi = M.type_range(ty)
        self.lo = max(lo, tlo)
        self.hi = min(hi, thi)
        self.aff = aff
        # the symbolic identity of the value survives a refinement to a single point (where aff becomes the constant):
        # a join of two refinements of one value gets it back
        self.sym = aff
        self.exact = exact
        self.vid = vid if vid is not None else next(_vid)
        self.lineage = lineage | {self.vid}
        self.pred = pred
        self.full = full and exact  # every value of [lo,hi] is attained (up to excluded points)
        self.excl = frozenset(x for x in excl if self.lo <= x <= self.hi) if excl else frozenset()
        while self.lo in self.excl and self.lo < self.hi:
            self.lo += 1
        while self.hi in self.excl and self.hi > self.lo:
            self.hi -= 1
        # reduce: known bits <-> interval
        if self.lo == self.hi:
            self.full = True
            # keep provenance bits (copies of input atoms) of a value refined to a single point
            if not any(b not in (0, 1) and b[0] in "cn" for b in self.bits):
                self.bits = bits_const(self.lo, self.w)
            self.aff = Lin(self.lo)
            self.exact = True
        else:
            val, mask = bits_known(self.bits)
            if mask == (1 << self.w) - 1:
                v = val
                if self.signed and v >= 1 << (self.w - 1):
                    v -= 1 << self.w
                self.lo = self.hi = v
                self.aff = Lin(v)
                self.exact = True
            elif not self.signed and mask:
                # high known-zero bits bound the value
                hi2 = ((1 << self.w) - 1) & ~mask | val
                lo2 = val
                if hi2 < self.hi:
                    self.hi = hi2
                    self.exact = False if self.exact and hi2 != self.hi else self.exact
                if lo2 > self.lo:
                    self.lo = lo2

    @staticmethod
    def const(ty, v):
        w, s = M.int_type(ty)
        if not s:
            v &= (1 << w) - 1
        return IntV(ty, bits_const(v, w), v, v, Lin(v), True)

    @staticmethod
    def atom(ty, name, lo=None, hi=None):
        w, s = M.int_type(ty)
        tlo, thi = M.type_range(ty)
        lo = tlo if lo is None else lo
        hi = thi if hi is None else hi
        return IntV(ty, bits_atom(name, w), lo, hi, Lin.atom(name), True, full=True)

    @staticmethod
    def top(ty, deps=frozenset(), lo=None, hi=None, exact=False):
        w, s = M.int_type(ty)
        tlo, thi = M.type_range(ty)
        return IntV(ty, bits_dep_all(w, deps), tlo if lo is None else lo, thi if hi is None else hi, None, exact)

    def is_const(self):
        return self.lo == self.hi

    def norm(self):
        """operand view: a single-point value as a plain constant (provenance bits dropped)"""
        if self.lo == self.hi and any(b not in (0, 1) for b in self.bits):
            return IntV(self.ty, bits_const(self.lo, self.w), self.lo, self.lo, Lin(self.lo), True, self.lineage, self.pred, full=True)
        return self

    def deps(self):
        return bits_all_deps(self.bits)

    def with_(self, **kw):
        d = dict(ty=self.ty, bits=self.bits, lo=self.lo, hi=self.hi, aff=self.aff, exact=self.exact,
                 lineage=self.lineage, pred=self.pred, full=self.full, excl=self.excl)
        d.update(kw)
        return IntV(**d)

    def uval_range(self):
        """range of the unsigned bit pattern (only meaningful if it does not straddle)"""
        if not self.signed or self.lo >= 0:
            return self.lo, self.hi
        if self.hi < 0:
            return self.lo + (1 << self.w), self.hi + (1 << self.w)
        return 0, (1 << self.w) - 1

    def __repr__(self):
        r = f"{self.lo}" if self.lo == self.hi else f"[{self.lo},{self.hi}]{'!' if self.exact else ''}"
        a = f" aff={self.aff.pretty()}" if self.aff is not None and not self.is_const() else ""
        return f"<{self.ty} {r}{a}>"


class RefV(V):
    kind = "ref"
    __slots__ = ("loc",)

    def __init__(self, loc):
        self.loc = loc  # (frame, local, path tuple)

    def __repr__(self):
        return f"&{self.loc}"


class AggV(V):
    kind = "agg"
    __slots__ = ("name", "fields")

    def __init__(self, name, fields):
        self.name = name
        self.fields = tuple(fields)

    def deps(self):
        s = frozenset()
        for f in self.fields:
            s |= f.deps()
        return s

    def __repr__(self):
        return f"{self.name}{list(self.fields)}"


class EnumV(V):
    kind = "enum"
    __slots__ = ("name", "variant", "fields", "nvariants", "ddeps", "alts")

    def __init__(self, name, variant, fields=(), nvariants=None, ddeps=frozenset(), alts=None):
        self.name = name
        self.variant = variant  # int or None (unknown)
        self.fields = tuple(fields)  # payload of the known variant
        self.nvariants = nvariants
        self.ddeps = ddeps  # what the discriminant depends on
        self.alts = alts  # unknown variant: {variant: payload tuple}

    def deps(self):
        s = frozenset(self.ddeps)
        for f in self.fields:
            s |= f.deps()
        if self.alts:
            for fs in self.alts.values():
                for f in fs:
                    s |= f.deps()
        return s

    def __repr__(self):
        return f"{self.name}#{self.variant}{list(self.fields)}"


class FnV(V):
    kind = "fn"
    __slots__ = ("ids",)

    def __init__(self, ids):
        self.ids = frozenset(ids)

    def __repr__(self):
        return f"fn{sorted(self.ids)}"


class TopV(V):
    kind = "top"
    __slots__ = ("ty", "d", "tag")

    def __init__(self, ty="?", d=frozenset(), tag=None):
        self.ty = ty
        self.d = frozenset(d)
        self.tag = tag  # free-form provenance, e.g. ('str', "text")

    def deps(self):
        return self.d

    def __repr__(self):
        return f"T<{self.ty}{' ' + str(self.tag) if self.tag else ''}>"


class MemV(V):
    """abstract 1 MB memory: address key -> (index value, byte value)"""
    kind = "mem"
    __slots__ = ("cells", "havoc")

    def __init__(self, cells=None, havoc=None):
        self.cells = cells or {}
        self.havoc = havoc  # None or frozenset of deps: unknown writes happened

    def deps(self):
        return self.havoc or frozenset()

    def __repr__(self):
        return f"Mem{{{', '.join(k + ':' + repr(v[1]) for k, v in self.cells.items())}}}{' havoc' if self.havoc is not None else ''}"


def veq(a, b):
    if a is b:
        return True
    if a.kind != b.kind:
        return False
    if a.kind == "int":
        return a.ty == b.ty and a.lo == b.lo and a.hi == b.hi and bits_same(a.bits, b.bits) and a.aff == b.aff and a.exact == b.exact
    if a.kind == "ref":
        return a.loc == b.loc
    if a.kind == "agg":
        return len(a.fields) == len(b.fields) and all(veq(x, y) for x, y in zip(a.fields, b.fields))
    if a.kind == "enum":
        return a.variant == b.variant and len(a.fields) == len(b.fields) and all(veq(x, y) for x, y in zip(a.fields, b.fields))
    if a.kind == "fn":
        return a.ids == b.ids
    if a.kind == "top":
        return a.d == b.d and a.tag == b.tag
    if a.kind == "mem":
        if a.havoc != b.havoc or a.cells.keys() != b.cells.keys():
            return False
        return all(veq(a.cells[k][1], b.cells[k][1]) for k in a.cells)
    return True


def vjoin(a, b, cd, widen=False):
    """least upper bound (with control deps cd added to differing parts)"""
    if a is b:
        return a
    if a.kind != b.kind:
        return TopV("?", a.deps() | b.deps() | cd)
    if a.kind == "int":
        if a.ty != b.ty:
            return TopV("?", a.deps() | b.deps() | cd)
        if a.vid == b.vid and veq(a, b):
            return a
        bits = tuple(bjoin(x, y, cd) for x, y in zip(a.bits, b.bits))
        lo, hi = min(a.lo, b.lo), max(a.hi, b.hi)
        excl_j = frozenset(x for x in (a.excl | b.excl) if (x in a.excl or not (a.lo <= x <= a.hi)) and (x in b.excl or not (b.lo <= x <= b.hi)))
        if widen:
            tlo, thi = M.type_range(a.ty)
            if b.lo < a.lo:
                lo = tlo
            if b.hi > a.hi:
                hi = thi
        aff = a.aff if (a.aff is not None and a.aff == b.aff) else None
        if aff is None and a.sym is not None and a.sym == b.sym:
            aff = a.sym   # both are the same symbolic value, constrained differently on the two branches
        return IntV(a.ty, bits, lo, hi, aff, False, a.lineage | b.lineage, excl=excl_j)
    if a.kind == "ref":
        return a if a.loc == b.loc else TopV("&", cd)
    if a.kind == "agg":
        if len(a.fields) != len(b.fields):
            return TopV("?", a.deps() | b.deps() | cd)
        return AggV(a.name, [vjoin(x, y, cd, widen) for x, y in zip(a.fields, b.fields)])
    if a.kind == "enum":
        if a.variant == b.variant and len(a.fields) == len(b.fields):
            return EnumV(a.name, a.variant, [vjoin(x, y, cd, widen) for x, y in zip(a.fields, b.fields)], a.nvariants, a.ddeps | b.ddeps)
        d = a.ddeps | b.ddeps | cd
        alts = {}
        for e in (a, b):
            src = {e.variant: e.fields} if e.variant is not None else (e.alts or {})
            for vnt, fs in src.items():
                if vnt in alts and len(alts[vnt]) == len(fs):
                    alts[vnt] = tuple(vjoin(x, y, cd, widen) for x, y in zip(alts[vnt], fs))
                elif vnt not in alts:
                    alts[vnt] = tuple(fs)
        return EnumV(a.name, None, (), a.nvariants, d, alts)
    if a.kind == "fn":
        return FnV(a.ids | b.ids)
    if a.kind == "top":
        if a.d == b.d and a.tag == b.tag:
            return a
        return TopV(a.ty, a.d | b.d | cd, a.tag if a.tag == b.tag else None)
    if a.kind == "mem":
        cells = {}
        hv = None
        if a.havoc is not None or b.havoc is not None:
            hv = (a.havoc or frozenset()) | (b.havoc or frozenset()) | cd
        for k in set(a.cells) | set(b.cells):
            if k in a.cells and k in b.cells:
                cells[k] = (a.cells[k][0], vjoin(a.cells[k][1], b.cells[k][1], cd, widen))
            else:
                # written/read on one path only: the other path holds the initial content
                src = a.cells.get(k) or b.cells.get(k)
                init = IntV.atom("u8", "mem[" + k + "]")
                cells[k] = (src[0], vjoin(src[1], init, cd, widen))
        return MemV(cells, hv)
    return a


# ----------------------------------------------------------------------------------------------
# state


class State:
    __slots__ = ("frames", "pc", "refined", "corr", "dead", "afacts", "rel")

    def __init__(self):
        self.frames = []  # list of dict local -> V
        self.pc = []  # per frame: dict block -> (succ, deps)
        self.refined = {}  # atom -> frozenset(vids)
        self.corr = frozenset()
        self.dead = False
        # facts about linear forms of the (immutable) input atoms established by branch conditions on this path:
        # key of the exact affine form -> (lo, hi) of its mathematical value
        self.afacts = {}
        # relational facts between two linear forms of the inputs established by branches: ("lt"|"le", key_x, key_y)
        self.rel = frozenset()

    def copy(self):
        s = State()
        s.frames = [dict(f) for f in self.frames]
        s.pc = [dict(p) for p in self.pc]
        s.refined = dict(self.refined)
        s.corr = self.corr
        s.afacts = dict(self.afacts)
        s.rel = self.rel
        return s


def get_path(v, path):
    for p in path:
        if v.kind == "ref" and isinstance(p, int):
            continue  # projection into the representation of Box/NonNull: same pointer
        if v.kind == "agg":
            v = v.fields[p]
        elif v.kind == "enum":
            # p = ('v', variant, idx)
            if p[0] == "v":
                if v.variant is not None and v.variant != p[1]:
                    raise Unsupported("downcast to other variant")
                if p[2] < len(v.fields) and v.variant is not None:
                    v = v.fields[p[2]]
                elif v.variant is None and v.alts and p[1] in v.alts and p[2] < len(v.alts[p[1]]):
                    v = v.alts[p[1]][p[2]]
                else:
                    v = TopV("?", v.deps())
            else:
                raise Unsupported("enum path")
        elif v.kind == "top":
            return TopV("?", v.d)
        else:
            raise Unsupported(f"path {p} into {v.kind}")
    return v


def set_path(v, path, new):
    if not path:
        return new
    p = path[0]
    if v.kind == "agg":
        fs = list(v.fields)
        fs[p] = set_path(fs[p], path[1:], new)
        return AggV(v.name, fs)
    if v.kind == "enum" and p[0] == "v":
        fs = list(v.fields)
        while len(fs) <= p[2]:
            fs.append(TopV())
        fs[p[2]] = set_path(fs[p[2]], path[1:], new)
        return EnumV(v.name, p[1], fs, v.nvariants, v.ddeps)
    if v.kind == "top":
        return TopV(v.ty, v.d | new.deps())
    raise Unsupported(f"set path {p} into {v.kind}")


def map_ints(v, f):
    """apply f to every IntV inside v (returns same object if nothing changed)"""
    if v.kind == "int":
        return f(v)
    if v.kind == "agg":
        fs = [map_ints(x, f) for x in v.fields]
        if all(a is b for a, b in zip(fs, v.fields)):
            return v
        return AggV(v.name, fs)
    if v.kind == "enum":
        fs = [map_ints(x, f) for x in v.fields]
        if all(a is b for a, b in zip(fs, v.fields)):
            return v
        return EnumV(v.name, v.variant, fs, v.nvariants, v.ddeps)
    if v.kind == "mem":
        changed = False
        cells = {}
        for k, (i, x) in v.cells.items():
            y = f(x)
            changed |= y is not x
            cells[k] = (i, y)
        return MemV(cells, v.havoc) if changed else v
    return v


# ----------------------------------------------------------------------------------------------
# events


class Event:
    def __init__(self, kind, fn, bb, line, **kw):
        self.kind = kind
        self.fn = fn
        self.bb = bb
        self.line = line
        self.__dict__.update(kw)

    def __repr__(self):
        d = {k: v for k, v in self.__dict__.items() if k not in ("kind", "fn", "bb", "line")}
        return f"Event({self.kind} {self.fn}@bb{self.bb}:{self.line} {d})"


# ----------------------------------------------------------------------------------------------
# interpreter


class Interp:
    def __init__(self, program, max_depth=10, assume=None, split=frozenset()):
        self.P = program  # Program: id -> fn, name -> id
        self.events = []
        self.max_depth = max_depth
        self.atoms = {}  # name -> (ty, lo, hi)
        self.assume = assume or {}  # (atom, bit) -> 0/1  (trace partition assumptions)
        self.top_ret_filter = None  # optional predicate on the outermost function's returned value: other returns are dropped
        self.force_switch = None   # {block: value}: in the outermost function follow only that side of the branch at `block`
        self.record_switch = False  # emit a "switch" event (scrutinee value) for every branch executed
        self.kill_ret_variant = None  # optional: paths of the outermost function that return this enum variant are dropped
        self.split = split  # set of (atom, bit) on which to case-split lazily
        self.call_stack = []
        self.steps = 0
        self.notes = []
        self.cfgs = {}
        self.unknown_calls = set()
        self.div_vids = set()
        self.div_notes = {}  # vid of a quotient -> ("nonstrict", K, X, V): a guard established only X <= V
        self.record_arith = False
        self.cur_line = 0
        # upstream guarantees about values that enter from the assembler's context (checked by C12.R6)
        self.range_hints = {".map": (0, 0xFFFF)}

    # -- atoms --------------------------------------------------------------------------------
    def new_atom(self, ty, name, lo=None, hi=None):
        for suffix, (hlo, hhi) in self.range_hints.items():
            if name.endswith(suffix) and lo is None and hi is None:
                lo, hi = hlo, hhi
        v = IntV.atom(ty, name, lo, hi)
        self.atoms[name] = (ty, v.lo, v.hi)
        if self.assume:
            bits = list(v.bits)
            ch = False
            for i in range(v.w):
                if (name, i) in self.assume:
                    bits[i] = self.assume[(name, i)]
                    ch = True
            if ch:
                v = IntV(ty, tuple(bits), v.lo, v.hi, v.aff, False)
        return v

    def atom_ranges(self):
        return {k: (lo, hi) for k, (ty, lo, hi) in self.atoms.items()}

    def cfg(self, fn):
        c = self.cfgs.get(fn["id"])
        if c is None:
            c = M.CFG(fn)
            self.cfgs[fn["id"]] = c
        return c

    def event(self, kind, fn, bb, line, **kw):
        e = Event(kind, fn["name"], bb, line, stack=tuple(self.call_stack), **kw)
        self.events.append(e)
        return e

    # -- places -------------------------------------------------------------------------------
    def resolve(self, st, fi, place):
        """-> loc (frame, local, path) ; may contain ('idx', IntV) for memory"""
        fr, loc, path = fi, place["l"], []
        for p in place["p"]:
            if p == "deref":
                cur = self.read_loc(st, (fr, loc, tuple(path)))
                if cur.kind == "ref":
                    fr, loc, path = cur.loc[0], cur.loc[1], list(cur.loc[2])
                elif cur.kind in ("mem", "agg", "int", "enum"):
                    pass  # Box<T> modelled as T
                elif cur.kind == "top":
                    path.append(("top",))
                else:
                    raise Unsupported("deref of " + cur.kind)
            elif p[0] == "f":
                path.append(p[1])
            elif p[0] == "down":
                path.append(("v", p[1]))
            elif p[0] == "idx":
                iv = st.frames[fi][p[1]]
                path.append(("idx", iv))
            elif p[0] == "cidx":
                path.append(("idx", IntV.const("usize", p[1])))
            else:
                raise Unsupported(f"projection {p}")
        # fold ('v',variant) + field index into ('v',variant,idx)
        out = []
        i = 0
        while i < len(path):
            p = path[i]
            if isinstance(p, tuple) and p[0] == "v" and len(p) == 2:
                if i + 1 < len(path) and isinstance(path[i + 1], int):
                    out.append(("v", p[1], path[i + 1]))
                    i += 2
                    continue
                out.append(("vv", p[1]))
                i += 1
                continue
            out.append(p)
            i += 1
        return (fr, loc, tuple(out))

    def _split_mem(self, path):
        for i, p in enumerate(path):
            if isinstance(p, tuple) and p[0] == "idx":
                return path[:i], p[1], path[i + 1:]
        return path, None, ()

    def read_loc(self, st, loc):
        fr, l, path = loc
        if not (0 <= fr < len(st.frames)):
            # a reference into an activation that has ended (a borrow of a temporary handed back by a callee):
            # what it points to is not tracked
            return TopV("?")
        base = st.frames[fr].get(l)
        if base is None:
            return TopV("uninit")
        pre, idx, post = self._split_mem(path)
        if any(isinstance(p, tuple) and p[0] in ("top", "vv") for p in pre):
            # deref of an opaque value: the opaque value itself (keeps its tag), anything deeper is unknown
            cut = next(i for i, p in enumerate(pre) if isinstance(p, tuple) and p[0] in ("top", "vv"))
            try:
                v = get_path(base, pre[:cut])
            except Unsupported:
                return TopV("?", base.deps())
            if v.kind == "top" and cut == len(pre) - 1 and idx is None:
                return v
            return TopV("?", v.deps())
        v = get_path(base, pre)
        if idx is None:
            return v
        if v.kind == "mem":
            val, newmem = self.mem_read(v, idx)
            if newmem is not v:
                st.frames[fr][l] = set_path(base, pre, newmem)
            return val if not post else TopV("?", val.deps())
        if v.kind == "agg":  # small array
            if idx.kind == "int" and idx.is_const() and idx.lo < len(v.fields):
                return get_path(v.fields[idx.lo], post)
            return TopV("?", v.deps() | idx.deps())
        return TopV("?", v.deps() | (idx.deps() if idx is not None else frozenset()))

    def write_loc(self, st, loc, val):
        fr, l, path = loc
        if not (0 <= fr < len(st.frames)):
            raise Unsupported("store through a reference into an activation that has ended")
        base = st.frames[fr].get(l)
        if not path:
            st.frames[fr][l] = val
            return
        if base is None:
            base = TopV("uninit")
        pre, idx, post = self._split_mem(path)
        if any(isinstance(p, tuple) and p[0] in ("top", "vv") for p in pre):
            st.frames[fr][l] = TopV("?", base.deps() | val.deps())
            return
        if idx is None:
            st.frames[fr][l] = set_path(base, pre, val)
            return
        v = get_path(base, pre)
        if v.kind == "mem":
            newmem = self.mem_write(v, idx, val)
            st.frames[fr][l] = set_path(base, pre, newmem)
            if st.frames and "$stored" in st.frames[0]:
                # ghost variable of rules that ask "does every returning path store to memory": 1 on this path from here on
                st.frames[0]["$stored"] = IntV.const("bool", 1)
            return
        if v.kind == "agg" and idx.kind == "int" and idx.is_const() and idx.lo < len(v.fields) and not post:
            fs = list(v.fields)
            fs[idx.lo] = val
            st.frames[fr][l] = set_path(base, pre, AggV(v.name, fs))
            return
        st.frames[fr][l] = set_path(base, pre, TopV("?", v.deps() | val.deps() | idx.deps()))

    def mem_key(self, idx):
        if idx.kind == "int" and idx.aff is not None:
            return idx.aff.pretty()
        return "?"

    def mem_read(self, mem, idx):
        k = self.mem_key(idx)
        self.events.append(Event("mem", self.call_stack[-1] if self.call_stack else "?", -1, self.cur_line, op="r", idx=idx, key=k, stack=tuple(self.call_stack)))
        if k in mem.cells:
            return mem.cells[k][1], mem
        if k.startswith("?"):
            # address without an exact form: some byte of memory (not remembered: no identity to key it by)
            return IntV.top("u8", (mem.havoc or frozenset()) | idx.deps() | frozenset({("mem[?]", 0)}), exact=True), mem
        if mem.havoc is not None:
            v = IntV.top("u8", mem.havoc | idx.deps())
        else:
            v = self.new_atom("u8", "mem[" + k + "]")
        cells = dict(mem.cells)
        cells[k] = (idx, v)
        return v, MemV(cells, mem.havoc)

    def mem_write(self, mem, idx, val):
        k = self.mem_key(idx)
        self.events.append(Event("mem", self.call_stack[-1] if self.call_stack else "?", -1, self.cur_line, op="w", idx=idx, key=k, val=val, stack=tuple(self.call_stack)))
        if val.kind != "int":
            val = IntV.top("u8", val.deps())
        if k.startswith("?"):
            # store through an address without an exact form: it may hit any cell
            return MemV({}, (mem.havoc or frozenset()) | val.deps() | idx.deps() | mem.deps())
        cells = dict(mem.cells)
        cells[k] = (idx, val)
        return MemV(cells, mem.havoc)

    # -- operands -----------------------------------------------------------------------------
    def operand(self, st, fi, op):
        k = op[0]
        if k in ("copy", "move"):
            return self.read_loc(st, self.resolve(st, fi, op[1]))
        if k == "const":
            c = op[1]
            if "fn" in c:
                return FnV([c["fn"]["id"]])
            if "val" in c:
                return IntV.const(c["ty"], c["val"])
            if c["ty"] == "()":
                return UNIT
            return TopV(c["ty"], tag=("const", c.get("txt")))
        return TopV("?")

    # -- integer transfer functions -----------------------------------------------------------
    def _indep(self, st, a, b):
        if a.deps() & b.deps():
            return False
        for x in a.lineage:
            for y in b.lineage:
                if frozenset((x, y)) in st.corr:
                    return False
        return True

    def open_deps(self, st):
        """deps of all branch conditions the current point is still control dependent on"""
        d = set()
        for pc in st.pc:
            for (_succ, deps) in pc.values():
                d |= deps
        return frozenset(d)

    def binop(self, st, op, a, b, dest_ty):
        r = self._binop(st, op, a, b, dest_ty)
        if op in ("Sub", "SubO", "Lt", "Gt", "Le", "Ge") and a.kind == "int" and b.kind == "int" and self.record_arith:
            self.events.append(Event("arith", self.call_stack[-1] if self.call_stack else "?", -1, self.cur_line, op=op, a=a, b=b, stack=tuple(self.call_stack)))
        if op in ("Div", "Rem") and r.kind == "int":
            if r.aff is None and a.kind == "int" and b.kind == "int" and a.aff is not None and b.aff is not None and not r.is_const():
                # an uninterpreted truncating quotient / remainder of two closed forms
                note = self.div_notes.get(r.vid)
                r = IntV(r.ty, r.bits, r.lo, r.hi, Lin(0, ((opaque("div" if op == "Div" else "rem", a.aff, b.aff), 1),)), r.exact, r.lineage,
                         r.pred, vid=r.vid, full=r.full, excl=r.excl)
                if note is not None:
                    self.div_notes[r.vid] = note
            self.div_vids.add(r.vid)
        return r

    def _binop(self, st, op, a, b, dest_ty):
        if a.kind == "int":
            a = a.norm()
        if b.kind == "int":
            b = b.norm()
        if a.kind != "int" or b.kind != "int":
            d = a.deps() | b.deps()
            if op in ("Eq", "Ne", "Lt", "Le", "Gt", "Ge"):
                return IntV.top("bool", d)
            if op.endswith("O"):
                it = M.int_type(dest_ty.split(",")[0].strip("( "))
                t0 = dest_ty.split(",")[0].strip("( ")
                return AggV("tuple", [IntV.top(t0, d) if it else TopV(t0, d), IntV.top("bool", d)])
            if M.int_type(dest_ty):
                return IntV.top(dest_ty, d)
            return TopV(dest_ty, d)
        lin = a.lineage | b.lineage
        w = a.w
        ty = a.ty
        tlo, thi = M.type_range(ty)
        both_exact = a.exact and b.exact and (a.is_const() or b.is_const() or self._indep(st, a, b))
        if op in ("Add", "Sub", "Mul", "AddO", "SubO", "MulO"):
            base = op[:3]
            if base == "Add":
                lo, hi = a.lo + b.lo, a.hi + b.hi
                aff = a.aff.add(b.aff) if a.aff is not None and b.aff is not None else None
            elif base == "Sub":
                lo, hi = a.lo - b.hi, a.hi - b.lo
                aff = a.aff.sub(b.aff) if a.aff is not None and b.aff is not None else None
            else:
                c = [a.lo * b.lo, a.lo * b.hi, a.hi * b.lo, a.hi * b.hi]
                lo, hi = min(c), max(c)
                aff = None
                if a.aff is not None and b.is_const():
                    aff = a.aff.scale(b.lo)
                elif b.aff is not None and a.is_const():
                    aff = b.aff.scale(a.lo)
                elif a.aff is not None and b.aff is not None:
                    # an uninterpreted product of two closed forms (compared structurally by the value rules)
                    aff = Lin(0, ((opaque("mul", a.aff, b.aff), 1),))
            if aff is not None and st is not None and st.afacts:
                fact = st.afacts.get(aff.key())
                if fact is not None and max(lo, fact[0]) <= min(hi, fact[1]):
                    # a branch on this path bounded the same linear form of the inputs (e.g. `a + b > MAX => return`)
                    lo, hi = max(lo, fact[0]), min(hi, fact[1])
            ovf_possible = lo < tlo or hi > thi
            ovf_certain = hi < tlo or lo > thi
            if a.is_const() and b.is_const():
                bits = None
            elif base in ("Add", "Sub") and (b.is_const() and b.lo == 0):
                bits = a.bits
            elif base == "Add" and a.is_const() and a.lo == 0:
                bits = b.bits
            else:
                bits = bits_carry_chain(a.bits, b.bits, w) if base != "Mul" else bits_dep_all(w, a.deps() | b.deps())
                if base == "Mul":
                    # a 0/1 value times a constant mask, or any value times a power of two: exact in the bit domain
                    for x_, c_ in ((a, b), (b, a)):
                        if c_.is_const() and c_.lo >= 0 and not x_.is_const():
                            c = c_.lo
                            if x_.lo >= 0 and x_.hi <= 1:
                                bits = tuple((x_.bits[0] if (c >> i_) & 1 else 0) for i_ in range(w))
                            elif c > 0 and c & (c - 1) == 0:
                                k_ = c.bit_length() - 1
                                bits = ((0,) * k_ + x_.bits)[:w]
            if op.endswith("O"):
                # value on the non-overflowing path (the only path that continues after the Assert)
                rlo, rhi = max(lo, tlo), min(hi, thi)
                if rlo > rhi:
                    rlo, rhi = tlo, thi
                if bits is None:
                    res = IntV.const(ty, rlo)
                else:
                    res = IntV(ty, bits, rlo, rhi, aff, both_exact and not ovf_possible, lin,
                               full=(base in ("Add", "Sub") and ((b.is_const() and a.full) or (a.is_const() and b.full))))
                flag = IntV("bool", bits_dep_all(1, a.deps() | b.deps()) if ovf_possible and not ovf_certain else bits_const(1 if ovf_certain else 0, 1),
                            1 if ovf_certain else 0, 1 if ovf_possible else 0,
                            pred=("ovf", base, a, b, lo, hi, both_exact))
                return AggV("tuple", [res, flag])
            # wrapping semantics
            fullr = base in ("Add", "Sub") and ((b.is_const() and a.full) or (a.is_const() and b.full))
            if not ovf_possible:
                if bits is None:
                    return IntV.const(ty, lo)
                return IntV(ty, bits, lo, hi, aff, both_exact, lin, full=fullr)
            if bits is None:
                return IntV.const(ty, (lo - tlo) % (1 << w) + tlo)
            aff2 = None
            if aff is not None:
                aff2 = aff.sx(w) if a.signed else aff.mod(1 << w)
            return IntV(ty, bits, tlo, thi, aff2, False, lin)
        if op in ("BitAnd", "BitOr", "BitXor"):
            f = {"BitAnd": band, "BitOr": bor, "BitXor": bxor}[op]
            bits = tuple(f(x, y) for x, y in zip(a.bits, b.bits))
            if ty == "bool" and op in ("BitAnd", "BitOr") and not (a.is_const() or b.is_const()):
                r = IntV("bool", bits, 0, 1, None, False, lin, pred=("and" if op == "BitAnd" else "or", a, b))
                return r
            if ty == "bool" and op == "BitXor" and not (a.is_const() or b.is_const()):
                # remembered for the rules that compare flag formulas; assume_bool ignores it
                return IntV("bool", bits, 0, 1, None, False, lin, pred=("xor", a, b))
            if op == "BitAnd" and ty != "bool":
                # x & 2^k : which single bit of which value is looked at (read by `!= 0` / `== 0` tests in the flag rules)
                for x_, y_ in ((a, b), (b, a)):
                    if y_.is_const() and y_.lo > 0 and (y_.lo & (y_.lo - 1)) == 0 and not x_.is_const() and x_.aff is not None:
                        k_ = y_.lo.bit_length() - 1
                        return IntV(ty, bits, 0, y_.lo, None, False, lin, pred=("bit", x_, k_))
            aff = None
            lo, hi = tlo, thi
            ex = False
            if op == "BitAnd" and a.signed:
                # two's complement: x & (2^k - 1) = x mod 2^k also for negative x
                for x, y in ((a, b), (b, a)):
                    if y.is_const() and y.lo > 0 and (y.lo & (y.lo + 1)) == 0 and x.aff is not None and not x.is_const():
                        return IntV(ty, bits, 0, y.lo, x.aff.mod(y.lo + 1), False, lin)
            if not a.signed and a.lo >= 0 and b.lo >= 0:
                if op == "BitAnd":
                    lo, hi = 0, min(a.hi, b.hi)
                    for x, y in ((a, b), (b, a)):
                        if y.is_const() and y.lo > 0 and x.aff is not None and not x.is_const():
                            low0 = (y.lo & -y.lo).bit_length() - 1          # number of trailing zero bits of the mask
                            top = y.lo | ((1 << low0) - 1)
                            if low0 > 0 and (top & (top + 1)) == 0 and x.hi <= top:
                                # mask = all bits from low0 up to the top of x's range: x & mask = x - (x mod 2^low0)
                                aff = x.aff.sub(x.aff.mod(1 << low0))
                                hi = min(x.hi, y.lo)
                    for x, y in ((a, b), (b, a)):
                        if y.is_const() and (y.lo & (y.lo + 1)) == 0:  # mask 2^k-1
                            m = y.lo + 1
                            if x.hi < m:
                                aff = x.aff
                                lo, hi, ex = x.lo, x.hi, x.exact
                            else:
                                aff = x.aff.mod(m) if x.aff is not None else None
                                ex = x.exact and (x.hi - x.lo + 1 >= m)
                                hi = m - 1
                else:
                    lo = max(a.lo, b.lo) if op == "BitOr" else 0
                    hb = max(a.hi, b.hi).bit_length()
                    hi = (1 << hb) - 1
                    # disjoint known-zero masks: or == add
                    va, ma = bits_known(a.bits)
                    vb, mb = bits_known(b.bits)
                    za = ma & ~va
                    zb = mb & ~vb
                    full = (1 << w) - 1
                    if (za | zb) & full == full and a.aff is not None and b.aff is not None:
                        aff = a.aff.add(b.aff)
                        lo, hi = a.lo + b.lo, min(a.hi + b.hi, thi)
                        ex = both_exact
                        if both_exact and a.full and b.full and hi - lo + 1 == (a.hi - a.lo + 1) * (b.hi - b.lo + 1):
                            return IntV(ty, bits, lo, hi, aff, ex, lin, full=True)
            return IntV(ty, bits, lo, hi, aff, ex, lin)
        if op in ("Shl", "Shr"):
            if b.is_const():
                k = b.lo
                if k < 0 or k >= w:
                    return IntV.top(ty, a.deps() | b.deps())
                if op == "Shl":
                    bits = (0,) * k + a.bits[: w - k]
                    aff = a.aff.scale(1 << k).mod(1 << w) if (a.aff is not None and not a.signed) else None
                    ulo, uhi = a.lo << k, a.hi << k
                    if not a.signed and uhi <= thi:
                        if a.aff is not None:
                            aff = a.aff.scale(1 << k)
                        return IntV(ty, bits, ulo, uhi, aff, a.exact, lin)
                    return IntV(ty, bits, tlo, thi, aff, False, lin)
                fill = a.bits[w - 1] if a.signed else 0
                bits = a.bits[k:] + (fill,) * k
                saff = shr_lin(a.aff, k) if (a.aff is not None and a.lo >= 0) else None
                return IntV(ty, bits, a.lo >> k, a.hi >> k, saff, a.exact, lin)
            d = a.deps() | b.deps()
            r = IntV.top(ty, d)
            if op == "Shr" and not a.signed:
                r = IntV(ty, r.bits, 0, a.hi, None, False, lin)
            return r
        if op in ("Div", "Rem"):
            d = a.deps() | b.deps()
            if a.is_const() and b.is_const() and b.lo != 0:
                q = abs(a.lo) // abs(b.lo) * (1 if (a.lo < 0) == (b.lo < 0) else -1)
                return IntV.const(ty, q if op == "Div" else a.lo - q * b.lo)
            if op == "Rem" and b.is_const() and b.lo > 0 and a.lo >= 0:
                m = b.lo
                aff = None
                if m & (m - 1) == 0 and a.aff is not None:
                    aff = a.aff.mod(m)
                if a.hi < m:
                    return IntV(ty, a.bits, a.lo, a.hi, a.aff, a.exact, lin)
                bits = bits_dep_all(w, d)
                if m & (m - 1) == 0:
                    k = m.bit_length() - 1
                    bits = a.bits[:k] + (0,) * (w - k)
                return IntV(ty, bits, 0, m - 1, aff, a.exact and (a.hi - a.lo + 1 >= m), lin)
            if 0 in b.excl and b.lo <= 0 <= b.hi:
                pass  # divisor known non-zero; ranges below stay conservative
            if op == "Rem" and b.lo > 0 and a.lo >= 0:
                return IntV(ty, bits_dep_all(w, d), 0, min(a.hi, b.hi - 1), None, False, lin)
            if op == "Div" and a.lo >= 0 and b.lo > 0:
                qlo, qhi = a.lo // b.hi, a.hi // b.lo
                note = None
                # lemma: dividend = K*X + Y with 0 <= Y < K and X < V (= divisor >= 1)  =>  quotient < K
                if a.aff is not None and b.aff is not None and a.aff.c >= 0 and a.aff.terms and st is not None:
                    top = max(a.aff.terms, key=lambda t: t[1])
                    K = top[1]
                    rest_hi = a.aff.c
                    ok_rest = K > 1
                    for base, k in a.aff.terms:
                        if (base, k) == top:
                            continue
                        at = self.atoms.get(base) if isinstance(base, str) else None
                        if k <= 0 or at is None or at[1] < 0:
                            ok_rest = False
                            break
                        rest_hi += k * at[2]
                    at = self.atoms.get(top[0]) if isinstance(top[0], str) else None
                    if ok_rest and rest_hi <= K - 1 and at is not None and at[1] >= 0:
                        kx, kv = Lin.atom(top[0]).key(), b.aff.key()
                        if ("lt", kx, kv) in st.rel:
                            qhi = min(qhi, K - 1)
                        elif ("le", kx, kv) in st.rel:
                            note = ("nonstrict", K, top[0], b.aff.pretty())
                rq = IntV(ty, bits_dep_all(w, d), qlo, qhi, None, False, lin)
                if note:
                    self.div_notes[rq.vid] = note
                return rq
            if op == "Div" and b.is_const() and b.lo != 0:
                c = [int(a.lo / b.lo), int(a.hi / b.lo)]
                return IntV(ty, bits_dep_all(w, d), min(c), max(c), None, False, lin)
            if op == "Rem":
                m = max(abs(b.lo), abs(b.hi)) - 1
                if m >= 0:
                    return IntV(ty, bits_dep_all(w, d), max(-m, a.lo) if a.lo < 0 else 0, min(m, a.hi) if a.hi > 0 else 0, None, False, lin)
            return IntV.top(ty, d)
        if op in ("Eq", "Ne", "Lt", "Le", "Gt", "Ge"):
            res = None
            if op == "Eq":
                if a.hi < b.lo or b.hi < a.lo or (b.is_const() and b.lo in a.excl) or (a.is_const() and a.lo in b.excl):
                    res = 0
                elif a.is_const() and b.is_const():
                    res = 1
            elif op == "Ne":
                if a.hi < b.lo or b.hi < a.lo or (b.is_const() and b.lo in a.excl) or (a.is_const() and a.lo in b.excl):
                    res = 1
                elif a.is_const() and b.is_const():
                    res = 0
            elif op == "Lt":
                res = 1 if a.hi < b.lo else (0 if a.lo >= b.hi else None)
            elif op == "Le":
                res = 1 if a.hi <= b.lo else (0 if a.lo > b.hi else None)
            elif op == "Gt":
                res = 1 if a.lo > b.hi else (0 if a.hi <= b.lo else None)
            elif op == "Ge":
                res = 1 if a.lo >= b.hi else (0 if a.hi < b.lo else None)
            pred = ("cmp", op, a, b)
            if res is not None:
                return IntV("bool", bits_const(res, 1), res, res, pred=pred)
            # bit-level special cases for Eq/Ne
            if op in ("Eq", "Ne"):
                for x, y in ((a, b), (b, a)):
                    if y.is_const():
                        yb = bits_const(y.lo, w)
                        unknown = [i for i in range(w) if x.bits[i] not in (0, 1)]
                        mismatch = any(x.bits[i] in (0, 1) and x.bits[i] != yb[i] for i in range(w))
                        if mismatch:
                            r = 0 if op == "Eq" else 1
                            return IntV("bool", bits_const(r, 1), r, r, pred=pred)
                        if len(unknown) == 1:
                            bit = x.bits[unknown[0]]
                            if yb[unknown[0]] == 0:
                                bit = bnot(bit)
                            if op == "Ne":
                                bit = bnot(bit)
                            bit = self.maybe_split(bit)
                            if bit in (0, 1):
                                return IntV("bool", (bit,), bit, bit, pred=pred)
                            return IntV("bool", (bit,), 0, 1, None, False, lin, pred=pred)
                # two single-bit values (bools)
                if w == 1:
                    x0 = self.maybe_split(a.bits[0])
                    y0 = self.maybe_split(b.bits[0])
                    bit = bxor(x0, y0)
                    if op == "Eq":
                        bit = bnot(bit)
                    if bit in (0, 1):
                        return IntV("bool", (bit,), bit, bit, pred=pred)
                    return IntV("bool", (bit,), 0, 1, None, False, lin, pred=pred)
            d = self.split_deps(a.deps() | b.deps())
            return IntV("bool", bits_dep_all(1, d), 0, 1, None, False, lin, pred=pred)
        if op == "Offset":
            return TopV("ptr", a.deps() | b.deps())
        raise Unsupported("binop " + op)

    def maybe_split(self, bit):
        if bit in (0, 1):
            return bit
        if bit[0] in "cn" and (bit[1], bit[2]) in self.split:
            raise NeedSplit(bit[1], bit[2])
        return bit

    def split_deps(self, deps):
        for d in deps:
            if d in self.split:
                raise NeedSplit(d[0], d[1])
        return deps

    def unop(self, op, a):
        if a.kind != "int":
            return TopV("?", a.deps())
        a = a.norm()
        if op == "Not":
            bits = tuple(bnot(x) for x in a.bits)
            if a.ty == "bool":
                return IntV("bool", bits, 1 - a.hi, 1 - a.lo, None, a.exact, a.lineage,
                            pred=("not", a) if a.pred is not None or True else None)
            tlo, thi = M.type_range(a.ty)
            aff = None
            if a.aff is not None and not a.signed:
                aff = Lin(thi).sub(a.aff)
            if a.signed:
                return IntV(a.ty, bits, -1 - a.hi, -1 - a.lo, None, a.exact, a.lineage)
            return IntV(a.ty, bits, thi - a.hi, thi - a.lo, aff, a.exact, a.lineage)
        if op == "Neg":
            return IntV(a.ty, bits_carry_chain(a.bits, a.bits, a.w), -a.hi, -a.lo, a.aff.scale(-1) if a.aff is not None else None, a.exact, a.lineage)
        return TopV("?", a.deps())

    def cast_int(self, a, ty):
        """IntToInt"""
        it = M.int_type(ty)
        if a.kind != "int" or it is None:
            if it:
                return IntV.top(ty, a.deps())
            return TopV(ty, a.deps())
        w, s = it
        a = a.norm()
        # bits
        if w <= a.w:
            bits = a.bits[:w]
        else:
            fill = a.bits[a.w - 1] if a.signed else 0
            bits = a.bits + (fill,) * (w - a.w)
        tlo, thi = M.type_range(ty)
        if a.lo >= tlo and a.hi <= thi:
            return IntV(ty, bits, a.lo, a.hi, a.aff, a.exact, a.lineage, full=a.full, excl=a.excl)
        # wraps
        aff = None
        if a.aff is not None:
            aff = a.aff.sx(w) if s else a.aff.mod(1 << w)
        span = a.hi - a.lo + 1
        if span >= (1 << w):
            return IntV(ty, bits, tlo, thi, aff, a.exact, a.lineage, full=a.full)
        # shift the interval into the target range if it does not straddle
        m = 1 << w
        lo2 = (a.lo - tlo) % m + tlo
        hi2 = (a.hi - tlo) % m + tlo
        wrapv = lambda x: (x - tlo) % m + tlo
        ex2 = frozenset(wrapv(x) for x in a.excl) if w >= a.w or span < m else frozenset()
        if lo2 <= hi2:
            return IntV(ty, bits, lo2, hi2, aff, a.exact, a.lineage, full=a.full, excl=ex2)
        # straddles the wrap point: whole range minus the gap (hi2, lo2)
        gap = lo2 - hi2 - 1
        if a.full and gap <= 4:
            return IntV(ty, bits, tlo, thi, aff, True, a.lineage, full=True, excl=ex2 | frozenset(range(hi2 + 1, lo2)))
        return IntV(ty, bits, tlo, thi, aff, False, a.lineage)

    # -- rvalues ------------------------------------------------------------------------------
    def rvalue(self, st, fi, rv, dest_ty, fn, bi):
        k = rv[0]
        if k == "use":
            return self.operand(st, fi, rv[1])
        if k == "ref" or k == "rawptr":
            return RefV(self.resolve(st, fi, rv[1]))
        if k == "bin":
            a = self.operand(st, fi, rv[2])
            b = self.operand(st, fi, rv[3])
            return self.binop(st, rv[1], a, b, dest_ty)
        if k == "un":
            a = self.operand(st, fi, rv[2])
            if rv[1] == "PtrMetadata":
                return IntV.top("usize", a.deps(), 0, (1 << 63) - 1)
            return self.unop(rv[1], a)
        if k == "cast":
            a = self.operand(st, fi, rv[2])
            ck = rv[1]
            if ck == "IntToInt":
                if a.kind == "enum":
                    return self.enum_discr(a, rv[3])
                res = self.cast_int(a, rv[3])
                if a.kind == "int" and M.int_type(rv[3]):
                    wt = M.int_type(rv[3])[0]
                    fits_u = a.lo >= 0 and a.hi <= (1 << wt) - 1
                    fits_s = a.lo >= -(1 << (wt - 1)) and a.hi <= (1 << (wt - 1)) - 1
                    if not (fits_u or fits_s):  # information is lost in either reading of the target width
                        self.event("narrow", fn, bi, getattr(self, "cur_line", 0), val=a, ty=rv[3],
                                   from_div=bool(a.lineage & self.div_vids), open_deps=self.open_deps(st))
                return res
            if "ReifyFnPointer" in ck or "PointerCoercion" in ck or ck == "Transmute" or "Ptr" in ck:
                return a
            if M.int_type(rv[3]):
                return IntV.top(rv[3], a.deps())
            return TopV(rv[3], a.deps())
        if k == "agg":
            info = rv[1]
            ops = [self.operand(st, fi, o) for o in rv[2]]
            if info["k"] == "adt":
                if info.get("enum"):
                    return EnumV(info["name"], info["variant"], ops, info.get("nvariants"))
                return AggV(info["name"], ops)
            if info["k"] == "tuple":
                return AggV("tuple", ops) if ops else UNIT
            if info["k"] == "array":
                return AggV("array", ops)
            if info["k"] == "closure":
                # a closure value: its captured variables, in capture order; the body is the local fn of that name
                return AggV("closure:" + info.get("name", "?"), ops)
            return TopV(dest_ty, frozenset().union(*[o.deps() for o in ops]) if ops else frozenset())
        if k == "disc":
            v = self.read_loc(st, self.resolve(st, fi, rv[1]))
            return self.enum_discr(v, dest_ty)
        if k == "repeat":
            a = self.operand(st, fi, rv[1])
            return TopV(dest_ty, a.deps(), tag=("repeat", a))
        return TopV(dest_ty)

    def enum_discr(self, v, ty):
        if not M.int_type(ty):
            ty = "isize"
        if v.kind == "enum":
            if v.variant is not None:
                return IntV.const(ty, v.variant)
            n = v.nvariants or 256
            r = IntV.top(ty, self.split_deps(v.ddeps), 0, n - 1)
            r.pred = ("discr", v)
            return r
        return IntV.top(ty, v.deps())

    # -- refinement ---------------------------------------------------------------------------
    def replace_vid(self, st, old, new):
        def f(x):
            return new if x.vid == old.vid else x
        for fr in st.frames:
            for l, v in list(fr.items()):
                nv = map_ints(v, f)
                if nv is not v:
                    fr[l] = nv

    def mark_refined(self, st, v):
        for (atom, _b) in v.deps():
            st.refined[atom] = st.refined.get(atom, frozenset()) | {v.vid}

    def refine_range(self, st, v, lo, hi, exact_ok=True):
        lo2, hi2 = max(v.lo, lo), min(v.hi, hi)
        if lo2 > hi2:
            return False
        if lo2 == v.lo and hi2 == v.hi:
            return True
        nv = IntV(v.ty, v.bits, lo2, hi2, v.aff, v.exact and exact_ok, v.lineage, v.pred, vid=v.vid, full=v.full and exact_ok, excl=v.excl)
        self.mark_refined(st, v)
        self.replace_vid(st, v, nv)
        if v.aff is not None and not v.aff.is_const():
            k = v.aff.key()
            old = st.afacts.get(k)
            st.afacts[k] = (max(lo2, old[0]), min(hi2, old[1])) if old else (lo2, hi2)
            if hi2 < v.hi:
                self.bound_operands(st, v.aff, hi2)
        return True

    def bound_operands(self, st, aff, hi):
        """c + sum k_i*x_i <= hi with all k_i > 0 and all atoms x_i >= 0  =>  x_i <= (hi - c) / k_i.
        Values of the state that are exactly one of these atoms get the bound (sound: atoms are fixed inputs)."""
        bounds = {}
        for base, k in aff.terms:
            if not isinstance(base, str) or k <= 0:
                return
            a = self.atoms.get(base)
            if a is None or a[1] is None or a[1] < 0:
                return
            bounds[base] = (hi - aff.c) // k

        def f(x):
            if x.aff is not None and len(x.aff.terms) == 1:
                b, k = x.aff.terms[0]
                if k >= 1 and b in bounds:
                    nh = k * bounds[b] + x.aff.c  # value == k*atom + c exactly
                    if x.hi > nh >= x.lo:
                        return IntV(x.ty, x.bits, x.lo, nh, x.aff, False, x.lineage, x.pred, vid=x.vid, full=False, excl=x.excl)
            return x
        for fr in st.frames:
            for l, val in list(fr.items()):
                nv = map_ints(val, f)
                if nv is not val:
                    fr[l] = nv
        # remember the bound for later reads of the same input (e.g. a second `q.len()`)
        for b, bd in bounds.items():
            k = Lin.atom(b).key()
            old = st.afacts.get(k)
            st.afacts[k] = (old[0], min(old[1], bd)) if old else (self.atoms[b][1], bd)

    def refine_excl(self, st, v, point):
        if point < v.lo or point > v.hi or point in v.excl:
            return True
        if v.lo == v.hi:
            return False
        ex = v.excl | {point} if len(v.excl) < 6 else v.excl
        nv = IntV(v.ty, v.bits, v.lo, v.hi, v.aff, v.exact, v.lineage, v.pred, vid=v.vid, full=v.full, excl=ex)
        self.mark_refined(st, v)
        self.replace_vid(st, v, nv)
        return True

    def assume_bool(self, st, b, truth):
        """refine state under the assumption that bool value b == truth; False if infeasible"""
        if b.kind != "int":
            return True
        if b.is_const():
            return b.lo == (1 if truth else 0)
        # the bool itself becomes constant
        self.replace_vid(st, b, IntV("bool", bits_const(1 if truth else 0, 1), int(truth), int(truth), vid=b.vid, lineage=b.lineage))
        p = b.pred
        if p is None:
            return True
        if p[0] == "not":
            return self.assume_bool(st, p[1], not truth)
        if p[0] == "cmp":
            op, x, y = p[1], p[2], p[3]
            if not truth:
                op = {"Eq": "Ne", "Ne": "Eq", "Lt": "Ge", "Ge": "Lt", "Le": "Gt", "Gt": "Le"}[op]
            return self.assume_cmp(st, op, x, y)
        if p[0] == "ovf":
            return True
        return True

    def assume_cmp(self, st, op, x, y):
        big = 1 << 200
        rel = not (x.is_const() or y.is_const())
        indep = self._indep(st, x, y)
        ok_exact = (not rel) or indep
        if op == "Eq":
            lo, hi = max(x.lo, y.lo), min(x.hi, y.hi)
            if lo > hi:
                return False
            r = self.refine_range(st, x, lo, hi, ok_exact) and self.refine_range(st, y, lo, hi, ok_exact)
            # known bits flow both ways
            if r and y.is_const() and not x.is_const():
                pass
        elif op == "Ne":
            r = True
            if x.is_const() and y.is_const():
                r = x.lo != y.lo
            elif y.is_const():
                r = self.refine_excl(st, x, y.lo)
            elif x.is_const():
                r = self.refine_excl(st, y, x.lo)
        elif op == "Lt":
            r = self.refine_range(st, x, -big, y.hi - 1, ok_exact) and self.refine_range(st, y, x.lo + 1, big, ok_exact)
        elif op == "Le":
            r = self.refine_range(st, x, -big, y.hi, ok_exact) and self.refine_range(st, y, x.lo, big, ok_exact)
        elif op == "Gt":
            r = self.refine_range(st, x, y.lo + 1, big, ok_exact) and self.refine_range(st, y, -big, x.hi - 1, ok_exact)
        elif op == "Ge":
            r = self.refine_range(st, x, y.lo, big, ok_exact) and self.refine_range(st, y, -big, x.hi, ok_exact)
        else:
            r = True
        if r and rel:
            # the comparison relates everything the two sides were computed from (x = MAX - counter compared with size
            # also relates counter and size): no later operation on these values may claim independent operands
            lx = list(x.lineage)[:16]
            ly = list(y.lineage)[:16]
            st.corr = st.corr | {frozenset((p_, q_)) for p_ in lx for q_ in ly if p_ != q_} | {frozenset((x.vid, y.vid))}
            if x.aff is not None and y.aff is not None:
                fact = {"Lt": ("lt", x.aff.key(), y.aff.key()), "Le": ("le", x.aff.key(), y.aff.key()),
                        "Gt": ("lt", y.aff.key(), x.aff.key()), "Ge": ("le", y.aff.key(), x.aff.key())}.get(op)
                if fact:
                    st.rel = st.rel | {fact}
        return r

    # -- running a function -------------------------------------------------------------------
    def join_states(self, a, b, fi_base, widen=False):
        """join two states of the same function activation (frames identical in number)"""
        # control deps: conditions on which the two paths differ (in the top frame)
        pa, pb = a.pc[-1], b.pc[-1]
        cd = set()
        common = {}
        for blk in set(pa) | set(pb):
            x, y = pa.get(blk), pb.get(blk)
            if x is not None and y is not None and x[0] == y[0]:
                common[blk] = x
            else:
                if x is not None:
                    cd |= x[1]
                if y is not None:
                    cd |= y[1]
        cd = frozenset(cd)
        s = State()
        for fa, fb in zip(a.frames, b.frames):
            f = {}
            for l in set(fa) | set(fb):
                if l in fa and l in fb:
                    f[l] = vjoin(fa[l], fb[l], cd, widen)
                else:
                    f[l] = fa.get(l) or fb.get(l)
            s.frames.append(f)
        s.pc = [dict(p) for p in a.pc[:-1]] + [common]
        s.refined = {}
        for k in set(a.refined) | set(b.refined):
            s.refined[k] = a.refined.get(k, frozenset()) | b.refined.get(k, frozenset())
        s.corr = a.corr | b.corr
        s.afacts = {k: (min(v[0], b.afacts[k][0]), max(v[1], b.afacts[k][1])) for k, v in a.afacts.items() if k in b.afacts}
        s.rel = a.rel & b.rel
        return s

    def states_equal(self, a, b):
        for fa, fb in zip(a.frames, b.frames):
            if fa.keys() != fb.keys():
                return False
            for l in fa:
                if not veq(fa[l], fb[l]):
                    return False
        return True

    def run_fn(self, fn, args, st):
        """execute fn with argument values in state st (a new frame is pushed and popped).
        Returns the return value, or None if no path returns."""
        if len(self.call_stack) > self.max_depth:
            raise Unsupported("depth")
        cfg = self.cfg(fn)
        fi = len(st.frames)
        frame = {}
        for i, a in enumerate(args):
            frame[i + 1] = a
        st.frames.append(frame)
        st.pc.append({})
        self.call_stack.append(fn["name"])
        in_states = {0: st}
        visits = {}
        import heapq
        work = [(0, 0)]
        queued = {0}
        ret_state = None
        heads = None
        while work:
            _, b = heapq.heappop(work)
            queued.discard(b)
            s = in_states[b].copy()
            visits[b] = visits.get(b, 0) + 1
            if visits[b] > 60:
                raise Unsupported("no fixpoint in " + fn["name"])
            outs = self.exec_block(fn, cfg, fi, b, s)
            for (succ, s2) in outs:
                if succ == "return":
                    if self.top_ret_filter is not None and len(self.call_stack) == 1:
                        # the caller of the analysis looks at one outcome of the outermost function only (e.g. its Ok returns)
                        rv_ = s2.frames[fi].get(0, UNIT)
                        if not self.top_ret_filter(rv_):
                            continue
                    ret_state = s2 if ret_state is None else self.join_states(ret_state, s2, fi)
                    continue
                if succ not in in_states:
                    in_states[succ] = s2
                    new = True
                else:
                    if heads is None:
                        heads = cfg.loop_heads()
                    widen = succ in heads and visits.get(succ, 0) >= 2
                    j = self.join_states(in_states[succ], s2, fi, widen)
                    new = not self.states_equal(j, in_states[succ])
                    if new:
                        in_states[succ] = j
                if new and succ not in queued:
                    heapq.heappush(work, (cfg.rpo_index.get(succ, 1 << 30), succ))
                    queued.add(succ)
        self.call_stack.pop()
        if ret_state is None:
            # diverges on every path
            st.frames = st.frames[:fi]
            st.pc = st.pc[:fi]
            st.dead = True
            return None
        rv = ret_state.frames[fi].get(0, UNIT)
        # references into this activation do not survive it: what they denote is handed back as an unknown value
        rv = self.strip_dangling(ret_state, rv, fi)
        # propagate the callee's final state into st (object identity of st is what callers hold)
        st.frames = ret_state.frames[:fi]
        st.pc = ret_state.pc[:fi]
        st.refined = ret_state.refined
        st.corr = ret_state.corr
        return rv

    def strip_dangling(self, st, v, fi, depth=0):
        if depth > 6:
            return v
        if v.kind == "ref":
            if v.loc[0] >= fi:
                try:
                    pointee = self.read_loc(st, v.loc)
                except Unsupported:
                    pointee = TopV("?")
                if pointee.kind in ("int", "top", "enum"):
                    return pointee  # a reference to a plain value is modelled by the value (as for &u8 payloads)
                return TopV("&", pointee.deps() if hasattr(pointee, "deps") else frozenset())
            return v
        if v.kind == "agg":
            fs = [self.strip_dangling(st, x, fi, depth + 1) for x in v.fields]
            return AggV(v.name, fs) if any(a is not b for a, b in zip(fs, v.fields)) else v
        if v.kind == "enum" and v.variant is not None and v.fields:
            fs = [self.strip_dangling(st, x, fi, depth + 1) for x in v.fields]
            return EnumV(v.name, v.variant, fs, v.nvariants, v.ddeps) if any(a is not b for a, b in zip(fs, v.fields)) else v
        return v

    def exec_block(self, fn, cfg, fi, b, st):
        bb = fn["blocks"][b]
        self.steps += 1
        for s in bb["stmts"]:
            if s[0] == "assign":
                place, rv = s[1], s[2]
                self.cur_line = s[3] if len(s) > 3 else 0
                try:
                    val = self.rvalue(st, fi, rv, place["ty"], fn, b)
                except Unsupported as e:
                    self.notes.append(f"{fn['name']}@bb{b}: {e}")
                    val = TopV(place["ty"])
                if self.kill_ret_variant is not None and len(self.call_stack) == 1 and place["l"] == 0 and not place["p"] \
                        and val.kind == "enum" and val.variant == self.kill_ret_variant:
                    # the caller of the analysis asked for the other outcome of the outermost function only:
                    # a path that builds this variant as the return value is not followed
                    return []
                try:
                    self.write_loc(st, self.resolve(st, fi, place), val)
                except Unsupported as e:
                    self.notes.append(f"{fn['name']}@bb{b}: write {e}")
            elif s[0] == "setdisc":
                loc = self.resolve(st, fi, s[1])
                cur = self.read_loc(st, loc)
                if cur.kind == "enum":
                    self.write_loc(st, loc, EnumV(cur.name, s[2], cur.fields, cur.nvariants))
        T = bb["term"]
        t = T["t"]
        line = T["line"]
        k = t[0]
        if k == "goto":
            return [(t[1], st)]
        if k == "return":
            return [("return", st)]
        if k in ("unreachable", "resume", "abort"):
            return []
        if k == "drop":
            return [(t[2], st)]
        if k == "assert":
            cond = self.operand(st, fi, t[1])
            expected = t[2]
            self.check_assert(fn, b, line, T, st, fi, cond, expected, t[3], t[4])
            if not self.assume_bool(st, cond, expected):
                return []  # always fails: no continuation
            return [(t[5], st)]
        if k == "switch":
            d = self.operand(st, fi, t[1])
            return self.do_switch(fn, b, st, d, t[2], t[3])
        if k == "call":
            return self.do_call(fn, cfg, fi, b, st, T)
        self.notes.append(f"{fn['name']}@bb{b}: terminator {k}")
        return []

    def do_switch(self, fn, b, st, d, arms, otherwise):
        if self.record_switch:
            self.event("switch", fn, b, 0, val=d, arms=list(arms), otherwise=otherwise, depth=len(self.call_stack))
        if self.force_switch and len(self.call_stack) == 1 and b in self.force_switch and d.kind == "int" and not d.is_const():
            # path enumeration by the caller of the analysis: only the chosen side of this branch of the outermost function is
            # followed, under the assumption that makes it the side taken
            want = self.force_switch[b]
            tgt = next((t_ for v_, t_ in arms if v_ == want), None)
            s2 = st.copy()
            if tgt is not None:
                ok = self.assume_bool(s2, d, bool(want)) if d.ty == "bool" else self.assume_switch_eq(s2, d, want)
            else:
                tgt = otherwise
                ok = True
                if d.ty == "bool":
                    rest = {0, 1} - {v_ for v_, _ in arms}
                    ok = len(rest) == 1 and self.assume_bool(s2, d, bool(next(iter(rest))))
                else:
                    for v_, _ in arms:
                        cur = self.find_vid(s2, d) or d
                        if not self.assume_cmp(s2, "Ne", cur, IntV.const(d.ty, v_)):
                            ok = False
                            break
            if not ok:
                return []
            s2.pc[-1][b] = (tgt, d.deps())
            return [(tgt, s2)]
        if d.kind == "int":
            bit0 = d.bits[0] if d.w == 1 else None
            if bit0 is not None:
                nb = self.maybe_split(bit0)
            else:
                self.split_deps(d.deps()) if not d.is_const() else None
        if d.kind == "int" and d.is_const():
            for v, tgt in arms:
                if v == d.lo or (d.signed and v == d.lo % (1 << d.w)):
                    return [(tgt, st)]
            return [(otherwise, st)]
        outs = []
        deps = d.deps()
        targets = [(v, tgt) for v, tgt in arms]
        # the discriminant of an enum value whose possible variants are known (a join of known variants): arms of other
        # variants are not reachable
        possible = None
        if d.kind == "int" and d.pred is not None and d.pred[0] == "discr" and getattr(d.pred[1], "alts", None):
            possible = set(d.pred[1].alts.keys())
        for v, tgt in targets:
            if possible is not None and v not in possible:
                continue
            s2 = st.copy()
            ok = True
            if d.kind == "int":
                if d.ty == "bool":
                    ok = self.assume_bool(s2, d, bool(v))
                else:
                    vv = v
                    if d.signed and vv >= 1 << (d.w - 1):
                        vv -= 1 << d.w
                    if vv < d.lo or vv > d.hi:
                        ok = False
                    else:
                        ok = self.assume_switch_eq(s2, d, vv)
            if ok:
                s2.pc[-1][b] = (tgt, deps)
                outs.append((tgt, s2))
        # otherwise
        s2 = st.copy()
        ok = True
        if possible is not None and possible <= set(v for v, _ in targets):
            ok = False
        if d.kind == "int" and ok:
            if d.ty == "bool":
                vals = set(v for v, _ in targets)
                rest = {0, 1} - vals
                if not rest:
                    ok = False
                elif len(rest) == 1:
                    ok = self.assume_bool(s2, d, bool(rest.pop()))
            else:
                for v, _ in targets:
                    vv = v
                    if d.signed and vv >= 1 << (d.w - 1):
                        vv -= 1 << d.w
                    cur = self.find_vid(s2, d) or d
                    if not self.assume_cmp(s2, "Ne", cur, IntV.const(d.ty, vv)):
                        ok = False
                        break
                cur = self.find_vid(s2, d) or d
                if ok and d.pred is not None and d.pred[0] == "discr":
                    pass
        if ok:
            s2.pc[-1][b] = (otherwise, deps)
            outs.append((otherwise, s2))
        return outs

    def find_vid(self, st, v):
        found = []

        def f(x):
            if x.vid == v.vid:
                found.append(x)
            return x
        for fr in st.frames:
            for val in fr.values():
                map_ints(val, f)
                if found:
                    return found[0]
        return None

    def assume_switch_eq(self, st, d, vv):
        if d.pred is not None and d.pred[0] == "discr":
            ev = d.pred[1]
            # the enum value itself becomes the known variant wherever it is stored
            self.set_enum_variant(st, ev, vv)
        return self.refine_range(st, d, vv, vv)

    def set_enum_variant(self, st, ev, variant):
        def walk(v):
            if v is ev:
                fields = ev.alts.get(variant, ()) if ev.alts else ()
                return EnumV(ev.name, variant, fields, ev.nvariants)
            if v.kind == "agg":
                fs = [walk(x) for x in v.fields]
                if any(a is not b for a, b in zip(fs, v.fields)):
                    return AggV(v.name, fs)
            if v.kind == "enum" and v.fields:
                fs = [walk(x) for x in v.fields]
                if any(a is not b for a, b in zip(fs, v.fields)):
                    return EnumV(v.name, v.variant, fs, v.nvariants, v.ddeps)
            return v
        for fr in st.frames:
            for l, v in list(fr.items()):
                nv = walk(v)
                if nv is not v:
                    fr[l] = nv

    # -- asserts ------------------------------------------------------------------------------
    def check_assert(self, fn, b, line, T, st, fi, cond, expected, kind, ops):
        vals = [self.operand(st, fi, o) for o in ops]
        status = "undecided"
        witness = None
        if cond.kind == "int":
            want = 1 if expected else 0
            if cond.is_const():
                status = "proved" if cond.lo == want else "definite"
            else:
                # can we show the failing side is attainable?
                status = "possible"
                p = cond.pred
                if p is not None and p[0] == "ovf":
                    _, base, a, bb_, lo, hi, both_exact = p
                    if both_exact and self.lineage_clean(st, a) and self.lineage_clean(st, bb_):
                        status = "definite"
                        witness = f"{base}({a!r},{bb_!r}) -> [{lo},{hi}]"
                elif p is not None and p[0] == "cmp":
                    _, op, x, y = p
                    if self.cmp_attainable(st, op, x, y, not expected):
                        status = "definite"
                        witness = f"{op}({x!r},{y!r}) can be {0 if expected else 1}"
                elif p is not None and p[0] == "and" and not expected:
                    # assert !(c1 && c2): fails iff both hold; the two tests must be about independent inputs
                    c1, c2 = p[1], p[2]
                    if c1.pred and c2.pred and c1.pred[0] == "cmp" and c2.pred[0] == "cmp" \
                            and self.cmp_attainable(st, c1.pred[1], c1.pred[2], c1.pred[3], True) \
                            and self.cmp_attainable(st, c2.pred[1], c2.pred[2], c2.pred[3], True) \
                            and not (c1.deps() & c2.deps()):
                        status = "definite"
                        witness = f"{c1.pred[1]}({c1.pred[2]!r},{c1.pred[3]!r}) and {c2.pred[1]}({c2.pred[2]!r},{c2.pred[3]!r}) can hold together"
        self.event("assert", fn, b, line, akind=kind, status=status, witness=witness, vals=vals, exp=T.get("exp", False))

    def cmp_attainable(self, st, op, x, y, truth):
        """is there (soundly) an input for which `x op y` evaluates to `truth`?"""
        if not truth:
            op = {"Eq": "Ne", "Ne": "Eq", "Lt": "Ge", "Ge": "Lt", "Le": "Gt", "Gt": "Le"}[op]
        if not (x.exact and y.exact and self.lineage_clean(st, x) and self.lineage_clean(st, y)):
            return False
        if not (x.is_const() or y.is_const() or self._indep(st, x, y)):
            return False
        if op == "Eq":
            lo, hi = max(x.lo, y.lo), min(x.hi, y.hi)
            if lo > hi:
                return False
            for u, v in ((x, y), (y, x)):
                if v.is_const():
                    if v.lo in u.excl:
                        return False
                    return u.full or v.lo in (u.lo, u.hi)
            return x.full and y.full
        if op == "Ne":
            return not (x.is_const() and y.is_const() and x.lo == y.lo)
        if op == "Lt":
            return x.lo < y.hi
        if op == "Le":
            return x.lo <= y.hi
        if op == "Gt":
            return x.hi > y.lo
        if op == "Ge":
            return x.hi >= y.lo
        return False

    def lineage_clean(self, st, v):
        """no refinement of another value derived from the same atoms happened on this path"""
        for (atom, _b) in v.deps():
            vids = st.refined.get(atom, frozenset())
            if not vids <= v.lineage:
                return False
        return True

    # -- calls --------------------------------------------------------------------------------
    def do_call(self, fn, cfg, fi, b, st, T):
        t = T["t"]
        fref, argops, dest, target = t[1], t[2], t[3], t[4]
        args = [self.operand(st, fi, a) for a in argops]
        ids = None
        if fref.get("indirect"):
            fv = self.operand(st, fi, fref["op"])
            if fv.kind == "fn":
                ids = sorted(fv.ids)
        else:
            ids = [fref["id"]]
        line = T["line"]
        self.event("call", fn, b, line, callee=ids, args=args, exp=T.get("exp", False), fref=fref)
        results = []
        if ids is None:
            self.notes.append(f"{fn['name']}@bb{b}: unresolved indirect call")
            rv = self.havoc_call(st, args, dest["ty"])
            results.append((rv, st))
        else:
            for cid in ids:
                s2 = st.copy() if len(ids) > 1 else st
                rv = self.call_one(fn, b, line, cid, fref, args, dest["ty"], s2)
                if rv is not None:
                    results.append((rv, s2))
        if not results or target is None:
            return []
        rv, s = results[0]
        if len(results) > 1:
            # join over the possible callees
            for rv2, s2 in results[1:]:
                # write rv into a temp slot so that it is joined with the state
                s.frames[fi]["__rv"] = rv
                s2.frames[fi]["__rv"] = rv2
                s = self.join_states(s, s2, fi)
                rv = s.frames[fi].pop("__rv")
        try:
            self.write_loc(s, self.resolve(s, fi, dest), rv)
        except Unsupported as e:
            self.notes.append(f"{fn['name']}@bb{b}: dest {e}")
        return [(target, s)]

    def call_one(self, fn, b, line, cid, fref, args, dest_ty, st):
        callee = self.P.fns.get(cid)
        model = self.P.model_for(cid, fref)
        if model is not None:
            return model(self, st, args, dest_ty, fn, b, line, fref)
        if callee is not None and cid not in self.P.opaque:
            if self.call_stack.count(callee["name"]) >= 2:
                self.notes.append(f"recursion into {callee['name']} cut")
                return self.havoc_call(st, args, dest_ty)
            if "{closure" in callee["name"] and re.search(r"ops::Fn(Mut|Once)?<.*>>::call(_mut|_once)?$", (fref or {}).get("inst") or "") \
                    and len(args) == 2 and args[1].kind == "agg" and callee["argc"] == 1 + len(args[1].fields):
                # a direct call of a closure value goes through Fn*::call*(closure, (args,)): the body takes the arguments spread
                args = [args[0]] + list(args[1].fields)
            if callee["argc"] != len(args):
                self.notes.append(f"{callee['name']}: called with {len(args)} arguments, takes {callee['argc']}")
                return self.havoc_call(st, args, dest_ty)
            try:
                rv = self.run_fn(callee, args, st)
            except Unsupported as e:
                self.notes.append(f"{callee['name']}: {e}")
                # restore stack depth
                while self.call_stack and self.call_stack[-1] != fn["name"]:
                    self.call_stack.pop()
                return self.havoc_call(st, args, dest_ty)
            return rv
        self.unknown_calls.add(cid)
        return self.havoc_call(st, args, dest_ty)

    def apply_callable(self, st, f, argvals):
        """apply a callable value: a closure (its body is run), a function item (a local fn's body is run; the
        constructor of a tuple variant / tuple struct builds the value); None if not understood"""
        if f.kind == "ref":
            try:
                f = self.read_loc(st, f.loc)
            except Unsupported:
                return None
        if f.kind == "agg":
            return self.call_closure(st, f, argvals)
        if f.kind == "fn" and len(f.ids) == 1:
            cid = next(iter(f.ids))
            if "::{constructor#" in cid:
                path = cid.split("::{constructor#")[0].split("::")
                variant, tail = path[-1], "::".join(path[1:-1])
                adt = self.P.adts.get(tail) or next((a for n, a in self.P.adts.items() if n.endswith("::" + tail) or tail.endswith("::" + n)), None)
                if adt is not None and adt["kind"] == "Enum":
                    for vi, v in enumerate(adt["variants"]):
                        if v["name"] == variant and len(v["fields"]) == len(argvals):
                            return EnumV(adt["name"], vi, tuple(argvals), len(adt["variants"]))
                adt = self.P.adts.get("::".join(path[1:])) if adt is None else adt
                if adt is not None and adt["kind"] == "Struct" and len(adt["variants"][0]["fields"]) == len(argvals):
                    return AggV(adt["name"], list(argvals))
                return None
            callee = self.P.fns.get(cid)
            if callee is not None and callee["argc"] == len(argvals) and self.call_stack.count(callee["name"]) < 2:
                return self.run_fn(callee, list(argvals), st)
        return None

    def call_closure(self, st, clos, argvals):
        """run the body of a closure value on the given arguments; None if the body is not available"""
        if clos.kind == "ref":
            try:
                clos = self.read_loc(st, clos.loc)
            except Unsupported:
                return None
        if clos.kind != "agg" or not str(clos.name).startswith("closure:"):
            return None
        name = clos.name[len("closure:"):]
        body = None
        for which in ("lib", "bin"):
            body = body or self.P.by_name.get((which, name))
        if body is None or body["argc"] != 1 + len(argvals):
            return None
        self.closure_n = getattr(self, "closure_n", 0) + 1
        selfty = body["locals"][1]["ty"]
        if selfty.startswith("&"):
            slot = f"__closure{self.closure_n}"
            st.frames[0][slot] = clos
            selfv = RefV((0, slot, ()))
        else:
            selfv = clos
        if self.call_stack.count(body["name"]) >= 2:
            return None
        try:
            return self.run_fn(body, [selfv] + list(argvals), st)
        finally:
            if selfty.startswith("&") and st.frames:
                after = st.frames[0].pop(slot, None)
                if selfty.startswith("&mut") and after is not None and not veq(after, clos):
                    # an FnMut closure that changes a by-value capture: the next call would have to see it
                    raise Unsupported("closure mutates its own captured state")

    def havoc_call(self, st, args, dest_ty):
        """unknown callee: result Top, pointees of reference arguments havocked"""
        d = frozenset()
        for a in args:
            d |= self.deep_deps(st, a)
        for a in args:
            if a.kind == "ref":
                try:
                    cur = self.read_loc(st, a.loc)
                    self.write_loc(st, a.loc, self.havoc_value(cur, d))
                except Unsupported:
                    pass
        if M.int_type(dest_ty):
            return IntV.top(dest_ty, d)
        if dest_ty == "()":
            return UNIT
        return TopV(dest_ty, d)

    def deep_deps(self, st, v, depth=0):
        if v.kind == "ref" and depth < 3:
            try:
                return self.deep_deps(st, self.read_loc(st, v.loc), depth + 1)
            except Unsupported:
                return frozenset()
        return v.deps()

    def havoc_value(self, v, d):
        if v.kind == "int":
            return IntV.top(v.ty, d | v.deps())
        if v.kind == "agg":
            return AggV(v.name, [self.havoc_value(x, d) for x in v.fields])
        if v.kind == "mem":
            return MemV({}, d | v.deps())
        if v.kind == "enum":
            return EnumV(v.name, None, (), v.nvariants, d | v.deps())
        if v.kind == "ref":
            return v
        return TopV(getattr(v, "ty", "?"), d | v.deps())
