"""Small dataflow helpers over the MIR facts of one function (engine P):
definitions per local, origin tracing through copies/reborrows, flow-insensitive may-depend
closure (sound over-approximation of data dependence), natural loops, constant-specialised
reachability (partial evaluation of a CFG on a finite domain of one local)."""
import mir as M


class Defs:
    """all definitions of every local: ('assign', block, stmt) / ('call', block, term)"""

    def __init__(self, fn):
        self.fn = fn
        self.defs = {}
        for bi, bb in enumerate(fn["blocks"]):
            if bb.get("cleanup"):
                continue
            for s in bb["stmts"]:
                if s[0] == "assign":
                    self.defs.setdefault(s[1]["l"], []).append(("assign", bi, s))
            t = M.term(bb)
            if t[0] == "call":
                self.defs.setdefault(t[3]["l"], []).append(("call", bi, t))

    def single(self, local):
        d = [x for x in self.defs.get(local, []) if not (x[0] == "assign" and x[2][1]["p"])]
        full = [x for x in d if x[0] == "call" or not x[2][1]["p"]]
        return full[0] if len(full) == 1 else None

    def all(self, local):
        return self.defs.get(local, [])


def operand_locals(op):
    if op[0] in ("copy", "move"):
        out = {op[1]["l"]}
        for e in op[1]["p"]:
            if isinstance(e, list) and e[0] == "idx":
                out.add(e[1])
        return out
    return set()


def place_locals(pl):
    out = {pl["l"]}
    for e in pl["p"]:
        if isinstance(e, list) and e[0] == "idx":
            out.add(e[1])
    return out


def rvalue_operands(rv):
    k = rv[0]
    if k == "use":
        return [rv[1]]
    if k == "bin":
        return [rv[2], rv[3]]
    if k == "un":
        return [rv[2]]
    if k == "cast":
        return [x for x in rv[1:] if isinstance(x, list) and x and x[0] in ("copy", "move", "const")]
    if k == "agg":
        return list(rv[2])
    if k == "repeat":
        return [x for x in rv[1:] if isinstance(x, list) and x and x[0] in ("copy", "move", "const")]
    return []


def rvalue_locals(rv):
    k = rv[0]
    if k in ("ref", "disc", "len", "addr"):
        return place_locals(rv[1])
    out = set()
    for o in rvalue_operands(rv):
        out |= operand_locals(o)
    return out


def origin(defs, operand, through_calls=(), limit=24):
    """Follow an operand back through single-definition copies, reborrows and the listed pass-through callees.
    Returns ('const', c) | ('place', place) | ('call', term, block) | ('rvalue', rv, block) | ('param', local) | ('multi', local)"""
    fn = defs.fn
    op = operand
    for _ in range(limit):
        if op[0] == "const":
            return ("const", op[1])
        pl = op[1]
        proj = [e for e in pl["p"] if e != "deref"]
        if proj:
            return ("place", pl)
        l = pl["l"]
        if 1 <= l <= fn["argc"]:
            return ("param", l)
        d = defs.single(l)
        if d is None:
            return ("multi", l)
        if d[0] == "call":
            t = d[2]
            name = t[1].get("def") or ""
            if t[2] and any(name.endswith(x) for x in through_calls):
                op = t[2][0]
                continue
            return ("call", t, d[1])
        rv = d[2][2]
        if rv[0] == "use":
            op = rv[1]
            continue
        if rv[0] == "ref":
            rp = rv[1]
            if [e for e in rp["p"] if e != "deref"]:
                return ("place", rp)
            op = ["copy", {"l": rp["l"], "p": [], "ty": rp.get("ty", "")}]
            continue
        if rv[0] == "cast":
            ops = rvalue_operands(rv)
            if len(ops) == 1:
                op = ops[0]
                continue
        return ("rvalue", rv, d[1])
    return ("multi", -1)


def natural_loops(cfg):
    loops = {}
    for tail, head in cfg.back_edges():
        body = loops.setdefault(head, {head})
        st = [tail]
        while st:
            b = st.pop()
            if b in body:
                continue
            body.add(b)
            st.extend(cfg.pred[b])
    return loops


def may_depend(fn, seeds, stop_calls=()):
    """Flow-insensitive forward closure: the set of locals whose value may depend on a seed local.
    Assignments propagate from every local read by the right-hand side (incl. index locals and the base of
    projections); calls propagate from every argument to the destination and to the pointee of &mut arguments
    (approximated by: any local whose address was taken mutably and passed).  Control dependence is NOT included."""
    tainted = set(seeds)
    refs = {}  # local holding a reference -> local it points into
    for bb in fn["blocks"]:
        for s in bb["stmts"]:
            if s[0] == "assign" and s[2][0] == "ref" and not s[1]["p"]:
                refs[s[1]["l"]] = s[2][1]["l"]
    changed = True
    while changed:
        changed = False
        for bb in fn["blocks"]:
            if bb.get("cleanup"):
                continue
            for s in bb["stmts"]:
                if s[0] != "assign":
                    continue
                src = rvalue_locals(s[2])
                if src & tainted and s[1]["l"] not in tainted:
                    tainted.add(s[1]["l"])
                    changed = True
            t = M.term(bb)
            if t[0] == "call":
                name = t[1].get("def") or ""
                if any(name.endswith(x) for x in stop_calls):
                    continue
                src = set()
                for a in t[2]:
                    src |= operand_locals(a)
                if src & tainted:
                    if t[3]["l"] not in tainted:
                        tainted.add(t[3]["l"])
                        changed = True
                    for a in t[2]:
                        for l in operand_locals(a):
                            base = l
                            for _ in range(4):
                                if base in refs:
                                    base = refs[base]
                            if base not in tainted and base != l and "&mut" in (fn["locals"][l]["ty"] or ""):
                                tainted.add(base)
                                changed = True
    return tainted


def const_of(op):
    if op[0] == "const" and "val" in op[1]:
        return op[1]["val"]
    return None


class Spec:
    """Reachability of a CFG with one local fixed to a constant: comparisons of that local (and of its copies)
    with constants and switches on them are decided, everything else explores all successors."""

    def __init__(self, fn, local, value, defs=None):
        self.fn = fn
        self.defs = defs or Defs(fn)
        self.local = local
        self.value = value

    def value_of(self, op, depth=0):
        if depth > 12:
            return None
        c = const_of(op)
        if c is not None:
            return c
        if op[0] not in ("copy", "move") or [e for e in op[1]["p"] if e != "deref"]:
            return None
        l = op[1]["l"]
        if l == self.local:
            return self.value
        d = self.defs.single(l)
        if d is None or d[0] == "call":
            return None
        rv = d[2][2]
        if rv[0] == "use":
            return self.value_of(rv[1], depth + 1)
        if rv[0] == "ref" and not [e for e in rv[1]["p"] if e != "deref"]:
            return self.value_of(["copy", {"l": rv[1]["l"], "p": []}], depth + 1)
        if rv[0] == "bin":
            a = self.value_of(rv[2], depth + 1)
            b = self.value_of(rv[3], depth + 1)
            if a is None or b is None:
                return None
            op_ = rv[1]
            tbl = {"Eq": a == b, "Ne": a != b, "Lt": a < b, "Le": a <= b, "Gt": a > b, "Ge": a >= b}
            if op_ in tbl:
                return int(tbl[op_])
            if op_ == "BitAnd":
                return a & b
            if op_ == "BitOr":
                return a | b
            return None
        if rv[0] == "un" and rv[1] == "Not":
            a = self.value_of(rv[2], depth + 1)
            return None if a is None else int(not a)
        return None

    def succs(self, b):
        bb = self.fn["blocks"][b]
        t = M.term(bb)
        if t[0] == "switch":
            v = self.value_of(t[1])
            if v is not None:
                for val, tgt in t[2]:
                    if val == v:
                        return [tgt]
                return [t[3]]
        return M.succs(bb)

    def reach(self, start, stop=()):
        seen = set()
        st = [start]
        while st:
            b = st.pop()
            if b in seen:
                continue
            seen.add(b)
            if b in stop:
                continue
            st.extend(self.succs(b))
        return seen


def fold_const(defs, op, depth=0):
    """value of an operand that is a compile-time constant built from literals (1 << 8, A | B, casts, copies)"""
    c = const_of(op)
    if c is not None:
        return c
    if depth > 8 or op[0] not in ("copy", "move") or [e for e in op[1]["p"] if e != "deref"]:
        return None
    d = defs.single(op[1]["l"])
    if d is None or d[0] == "call":
        return None
    rv = d[2][2]
    if rv[0] == "use":
        return fold_const(defs, rv[1], depth + 1)
    if rv[0] == "cast" and isinstance(rv[2], list):
        return fold_const(defs, rv[2], depth + 1)
    if rv[0] == "bin":
        a = fold_const(defs, rv[2], depth + 1)
        b = fold_const(defs, rv[3], depth + 1)
        if a is None or b is None:
            return None
        f = {"Shl": lambda: a << b, "Shr": lambda: a >> b, "BitOr": lambda: a | b, "BitAnd": lambda: a & b, "BitXor": lambda: a ^ b,
             "Add": lambda: a + b, "Sub": lambda: a - b, "Mul": lambda: a * b}.get(rv[1])
        return f() if f else None
    return None
