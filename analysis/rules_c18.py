"""C18 — console interrupt services do exactly their documented I/O, within bounds.

Static facts about int_13/int_21 and the driver's INT dispatch: the AH values each side accepts
(partial evaluation over the 256 values of one byte), the machine frame of every service
(abstract interpretation, bit domain), the registers every memory address depends on, the
bounds/overflow sites, and the control dependence of the AH=0Ah copy loop on the declared capacity."""
import re
import mir as M
from absint import Interp, RefV, IntV, Unsupported
from units import machine_state
from program import arch_index
from insn import is_copy
from cfgtools import Defs, origin, natural_loops, may_depend, Spec, operand_locals, place_locals, rvalue_locals
from driver_rules import state_switch
from domains import bits_all_deps

EXPL = (
    "R1 bounds and aborts: every Assert (bounds check of vm.mem, integer overflow) and unwrap reachable in int_13/int_21 with "
    "AH fixed to each documented function and all registers/input free is classified by the interval domain; DEFINITE "
    "failures are violations (an index that can reach 2^20, `max - 1` at end of input). R2 AH=0Ah honours the declared "
    "capacity: the store that copies input bytes into memory inside the loop must be control dependent on a branch whose "
    "condition may depend on the capacity byte mem[DS:DX] (a loop bounded only by the input length copies past the buffer), "
    "and the stored count must depend on both the capacity and the input. R3 AH dispatch (finite, decided completely): for "
    "each of the 256 AH values, partial evaluation of the driver's INT 10h / INT 21h arms decides whether the service call or "
    "a printing return is reached, and partial evaluation of the service decides whether it does anything; accepted(driver) "
    "= handled(service) = documented set ({0Ah,13h}, {1,2,0Ah}); AH is read with get_byte_reg(.., AH) from the machine. R4 "
    "frame: int_13 takes &VM (cannot modify anything); for each AH of int_21 the abstract final state differs from the initial "
    "one only in AL (AH and all other registers and FLAGS are bit-for-bit copies), AH=2 sets AL to a copy of DL, AH=1/2 write "
    "no memory, AH=0Ah writes only at addresses that depend on DS and DX alone. R5 address registers: the AH=13h string is read "
    "at an address that depends on ES and BP (not DS), the AH=0Ah buffer on DS and DX; AH=0Ah of int 10h repeats CX times, "
    "AH=13h pads DL times and copies CX bytes (loop bounds' origins). R6 the interrupt numbers the interpreter can return "
    "(0 on divide error, 3, 10h, 21h) all have an arm in the driver and the assembler accepts exactly {3,10h,21h}. "
    "R7 what is written: every machine value handed to the formatter by the services is `(memory byte | byte register) "
    "as char`, i.e. one character per byte with the byte's code -- not digits of the number, not the result of a UTF-8 "
    "decoder over the bytes (value flow on symbolic terms). "
    "NOT decided: the remaining text written to stdout (padding, order of the pieces)."
)

DOC = {"int_13": {0x0A, 0x13}, "int_21": {0x01, 0x02, 0x0A}}
EFFECT_CALL = re.compile(r"std::io::_print$|read_line$|set_byte_reg$|set_word_reg$")


def file_of(fn):
    return fn["span"].rsplit(":", 2)[0]


def mem_base(defs, pl, depth=0):
    """True if the place indexes the machine's memory array (base derived from a `.mem` field)"""
    if not any(isinstance(e, list) and e[0] == "idx" for e in pl["p"]):
        return False
    l = pl["l"]
    for _ in range(8):
        d = defs.single(l)
        if d is None or d[0] == "call":
            return False
        rv = d[2][2]
        src = None
        if rv[0] in ("use",) and rv[1][0] in ("copy", "move"):
            src = rv[1][1]
        elif rv[0] == "cast" and isinstance(rv[2], list) and rv[2][0] in ("copy", "move"):
            src = rv[2][1]
        elif rv[0] in ("ref", "rawptr"):
            src = rv[1]
        if src is None:
            return False
        if any(isinstance(e, list) and e[0] == "f" and e[2] == "mem" for e in src["p"]):
            return True
        l = src["l"]
    return False


def mem_accesses(fn, defs):
    """(block, stmt, 'r'|'w', place) for every load/store of the machine memory"""
    out = []
    for bi, bb in enumerate(fn["blocks"]):
        if bb.get("cleanup"):
            continue
        for s in bb["stmts"]:
            if s[0] != "assign":
                continue
            if mem_base(defs, s[1]):
                out.append((bi, s, "w", s[1]))
            rv = s[2]
            if rv[0] == "use" and rv[1][0] in ("copy", "move") and mem_base(defs, rv[1][1]):
                out.append((bi, s, "r", rv[1][1]))
    return out


def service_selector(ctx, f, ah):
    """the abstract value to pass as the service's selector argument for AH = ah: the byte itself when the service takes a
    u8; when it takes a value of another type, the result of the unique local conversion u8 -> that type (or -> Option
    of it) run on the constant (`BiosService::from_ah(ah)`); None if there is no such conversion (not analysable)"""
    P = ctx.program
    ty = f["locals"][2]["ty"] if f["argc"] >= 2 else None
    if ty is None:
        return None
    if ty == "u8":
        return IntV.const("u8", ah)
    short = ty.rsplit("::", 1)[-1]
    cands = []
    for s_ in ctx.facts.mir("bin")["sigs"]:
        out = (s_.get("output") or "").replace(" ", "")
        if s_.get("inputs") == ["u8"] and (out.endswith(short) or out.endswith(f"Option<{ty}>".replace(" ", "")) or out.endswith(short + ">")):
            g = P.by_name.get(("bin", s_["name"]))
            if g is not None:
                cands.append(g)
    if len(cands) != 1:
        return None
    I = Interp(P)
    st = machine_state(I, P)
    try:
        r = I.run_fn(cands[0], [IntV.const("u8", ah)], st)
    except Unsupported:
        return None
    if r is None:
        return None
    if r.kind == "enum" and str(r.name).split("<")[0].endswith("Option"):
        if r.variant == 1 and r.fields:
            return r.fields[0]
        return None
    return r


def service_effects(fn, defs, P=None):
    """blocks of fn in which the service acts: an effect call, a machine-memory access, a call of a local helper that
    (transitively) does one of these, or the construction of a closure whose body does"""
    eff = set()

    def acts(g, seen):
        if g["name"] in seen:
            return False
        seen.add(g["name"])
        if any(EFFECT_CALL.search(t[1].get("def") or "") for _, t in M.calls_in(g)):
            return True
        for bb in g["blocks"]:
            for st_ in bb["stmts"]:
                if st_[0] == "assign" and any(isinstance(e, list) and e[0] == "f" and e[2] == "mem" for pl in ([st_[1]] + ([st_[2][1][1]] if st_[2][0] == "use" and st_[2][1][0] in ("copy", "move") else [])) for e in pl["p"]):
                    return True
                if st_[0] == "assign" and st_[2][0] == "agg" and st_[2][1].get("k") == "closure" and P is not None:
                    h = P.by_name.get(("bin", st_[2][1].get("name"))) or P.by_name.get(("lib", st_[2][1].get("name")))
                    if h is not None and acts(h, seen):
                        return True
        for _, t in M.calls_in(g):
            h = P.fns.get(t[1].get("id")) if P is not None and t[1].get("local") else None
            if h is not None and h["name"].startswith("driver::") and acts(h, seen):
                return True
        return False
    for bi, t in M.calls_in(fn):
        if EFFECT_CALL.search(t[1].get("def") or ""):
            eff.add(bi)
        elif P is not None and t[1].get("local"):
            h = P.fns.get(t[1].get("id"))
            if h is not None and h["name"].startswith("driver::") and acts(h, {fn["name"]}):
                eff.add(bi)
    for bi, s, k, pl in mem_accesses(fn, defs):
        eff.add(bi)
    if P is not None:
        for bi, bb in enumerate(fn["blocks"]):
            for st_ in bb["stmts"]:
                if st_[0] == "assign" and st_[2][0] == "agg" and st_[2][1].get("k") == "closure":
                    h = P.by_name.get(("bin", st_[2][1].get("name"))) or P.by_name.get(("lib", st_[2][1].get("name")))
                    if h is not None and acts(h, {fn["name"]}):
                        eff.add(bi)
    return eff


def run(ctx, chk):
    chk.explanation = EXPL
    P = ctx.program
    chk.rule("C18.R1", "no register or input content makes a service index outside 1 MB or abort", floor=10)
    chk.rule("C18.R2", "AH=0Ah copies at most the declared capacity and stores min(len, capacity)", floor=2)
    chk.rule("C18.R3", "AH dispatch: driver, services and documentation agree on all 256 values", floor=6)
    chk.rule("C18.R4", "frame: only AL (and the 0Ah buffer) changes", floor=20)
    chk.rule("C18.R5", "services address memory through the documented registers", floor=3)
    chk.rule("C18.R6", "interrupt numbers agree between assembler, interpreter and driver", floor=2)
    chk.rule("C18.R9", "no length or count is silently truncated: every narrowing cast in a service is lossless or guarded by a test", floor=3)
    chk.rule("C18.R8", "whenever the read succeeds (end of input included) AH=1 defines AL and AH=0Ah defines the count byte", floor=2)
    chk.rule("C18.R7", "machine bytes are written as the characters with their codes (`byte as char`), never decoded or printed as numbers", floor=2)
    chk.assumptions += ["read_line appends at most one line to the buffer and returns its byte count",
                        "register values are arbitrary 16-bit words; stdin content is arbitrary"]
    binm = ctx.facts.mir("bin")
    sigs = {s["name"]: s for s in binm["sigs"]}
    fns = {n: P.find("bin", "driver::interrupts::" + n) for n in ("int_13", "int_21")}
    drv = P.find("bin", "driver::driver::CMDDriver::run")
    if drv is not None and any(f is None for f in fns.values()):
        # a renamed service: it is the local function that the driver's arm for that interrupt number calls with the machine
        for nm, num in (("int_13", 0x10), ("int_21", 0x21)):
            if fns[nm] is not None:
                continue
            cfg_ = M.CFG(drv)
            for sb_, bb in enumerate(drv["blocks"]):
                t_ = M.term(bb)
                if t_[0] == "switch" and t_[1][0] in ("copy", "move") and (t_[1][1].get("ty") == "u8") and any(v == num for v, _ in t_[2]) and any(v == 0 for v, _ in t_[2]):
                    tgt_ = next(tg for v, tg in t_[2] if v == num)
                    others_ = set()
                    for v, tg in t_[2]:
                        if v != num:
                            others_ |= cfg_.reachable_from(tg, avoid={sb_})
                    cands_ = []
                    for b_ in cfg_.reachable_from(tgt_, avoid={sb_}) - others_:
                        tt_ = M.term(drv["blocks"][b_])
                        if tt_[0] == "call" and tt_[1].get("local"):
                            g_ = P.fns.get(tt_[1].get("id"))
                            if g_ is not None and g_["argc"] >= 2 and "VM" in (g_["locals"][1]["ty"] or "") and "user_interface" not in g_["name"]:
                                cands_.append(g_)
                    if len({g_["name"] for g_ in cands_}) == 1:
                        fns[nm] = cands_[0]
    svc_name = {n: (f["name"].split("::")[-1] if f is not None else n) for n, f in fns.items()}
    for n, f in fns.items():
        if f is None:
            chk.undecided_("C18.R3", n, "service function not found")
    if any(f is None for f in fns.values()) or drv is None:
        return
    ai = arch_index(P)
    # ---------------- R1 / R4 / R5 via abstract interpretation, AH fixed
    for n, f in fns.items():
        where = file_of(f)
        for ah in sorted(DOC[n]):
            I = Interp(P)
            st = machine_state(I, P)
            sel = service_selector(ctx, f, ah)
            if sel is None:
                chk.undecided_("C18.R1", f"{n}:AH={ah:02X}h", "the service's selector argument is not the AH byte and no unique conversion from it was found")
                continue
            try:
                I.run_fn(f, [RefV((0, "vm", ())), sel], st)
            except Unsupported as e:
                chk.undecided_("C18.R1", f"{n}:AH={ah:02X}h", str(e))
                continue
            unit = f"{n}:AH={ah:02X}h"
            # R1
            seen = {}
            for e in I.events:
                if e.kind != "assert" or e.akind.startswith("Other:"):
                    continue
                key = (e.akind, e.line)
                rank = {"proved": 0, "possible": 1, "definite": 2, "reached": 2}[e.status]
                if key not in seen or rank > seen[key][0]:
                    seen[key] = (rank, e)
            if any(rank == 1 for rank, _ in seen.values()):
                # witness search for the undecided sites: the same run restricted to sub-cases of the inputs (every memory
                # byte FFh or 00h, input lines of one length).  A site that definitely fails in a sub-case fails for an input.
                for cell, ln in ((255, 300), (255, 1), (0, 0), (1, 300)):
                    I2 = Interp(P)
                    I2.range_hints["]"] = (cell, cell)
                    I2.pin_input_len = ln
                    st2 = machine_state(I2, P)
                    try:
                        I2.run_fn(f, [RefV((0, "vm", ())), service_selector(ctx, f, ah)], st2)
                    except Unsupported:
                        continue
                    for e in I2.events:
                        if e.kind == "assert" and (e.akind, e.line) in seen and seen[(e.akind, e.line)][0] == 1 and e.status in ("definite", "reached"):
                            e.witness = f"{e.witness} [with every memory byte {cell:02X}h and an input line of {ln} bytes]"
                            seen[(e.akind, e.line)] = (2, e)
            for (akind, line), (rank, e) in sorted(seen.items(), key=lambda x: x[0][1]):
                ops = ",".join(repr(v).split(" aff=")[-1].rstrip(">") if " aff=" in repr(v) else repr(v) for v in e.vals[:2])
                if rank == 0:
                    chk.ok("C18.R1", f"{unit}:{akind}@{line}", None)
                elif rank == 2:
                    chk.violation("C18.R1", unit, f"{akind}({ops})", f"{akind} can fail in {n} with AH={ah:02X}h: {e.witness}", f"{where}:{line}", e.witness)
                else:
                    chk.undecided_("C18.R1", f"{unit}:{akind}@{line}", f"operands {ops}: intervals cannot exclude the failing side")
            # R9 lengths and counts are never silently truncated
            nseen = {}
            for e in I.events:
                if e.kind == "narrow":
                    nseen.setdefault((e.line, e.ty), []).append(e)
            if not nseen:
                chk.ok("C18.R9", unit, "every integer narrowing in the service is lossless")
            for (line, ty), evs in sorted(nseen.items()):
                bare = [ev for ev in evs if not ev.open_deps and getattr(ev.val, "exact", False)]
                if bare:
                    v = bare[0].val
                    chk.violation("C18.R9", unit, f"unguarded-lossy-{ty}-cast",
                                  f"{n} AH={ah:02X}h narrows a value with range [{v.lo},{v.hi}] to {ty} and no test guards the cast: a length or count above the {ty} range "
                                  f"(a line of 256 bytes or more) silently becomes its low byte", f"{where}:{line}", f"value range [{v.lo},{v.hi}] -> {ty}")
                else:
                    chk.undecided_("C18.R9", f"{unit}@{line}", f"a {ty} narrowing is guarded by a test; its range is not provable by intervals")
            if st.dead:
                continue
            vm = st.frames[0]["vm"]
            mem = st.frames[0]["mem"]
            regs = {r: vm.fields[0].fields[i] for r, i in ai.items()}
            # R4 frame
            for r, v in regs.items():
                if r == "ax":
                    continue
                if is_copy(v, r):
                    chk.ok("C18.R4", f"{unit}:{r}", "unchanged", nontrivial=(r in ("flag", "dx", "cx")))
                else:
                    chk.violation("C18.R4", unit, f"{r}-modified", f"{n} AH={ah:02X}h changes {r.upper()}: {v!r}", where)
            ax = regs["ax"]
            if ax.kind == "int" and all(ax.bits[i] == ("c", "ax", i) for i in range(8, 16)):
                chk.ok("C18.R4", f"{unit}:ah", "AH preserved bit for bit")
            else:
                chk.violation("C18.R4", unit, "ah-modified", f"{n} AH={ah:02X}h changes AH", where)
            low_copy = ax.kind == "int" and all(ax.bits[i] == ("c", "ax", i) for i in range(8))
            if n == "int_21" and ah == 2:
                if ax.kind == "int" and all(ax.bits[i] == ("c", "dx", i) for i in range(8)):
                    chk.ok("C18.R4", f"{unit}:al", "AL = copy of DL")
                else:
                    chk.violation("C18.R4", unit, "al-not-dl", "AH=2 must return the character of DL in AL", where)
            elif n == "int_21" and ah == 1:
                deps = set()
                if ax.kind == "int":
                    for i in range(8):
                        # on the read-error path AL keeps its value: bit i may depend on its own old value, on nothing else of the machine
                        deps |= set(a for a, bi_ in bits_all_deps(ax.bits[i:i + 1]) if (a, bi_) != ("ax", i))
                if low_copy:
                    chk.violation("C18.R4", unit, "al-not-written", "AH=1 must return the input byte in AL", where)
                elif deps & set(ai):
                    chk.violation("C18.R4", unit, "al-from-registers", f"AL after AH=1 depends on {sorted(deps)} instead of the input line only", where)
                else:
                    chk.ok("C18.R4", f"{unit}:al", f"AL depends only on the input line ({sorted(deps)[:3]})")
            else:
                if low_copy:
                    chk.ok("C18.R4", f"{unit}:al", "AL unchanged")
                else:
                    chk.violation("C18.R4", unit, "al-modified", f"{n} AH={ah:02X}h must not change AL", where)
            # memory frame and address registers
            writes = [e for e in I.events if e.kind == "mem" and e.op == "w"]
            reads = [e for e in I.events if e.kind == "mem" and e.op == "r"]
            if n == "int_21" and ah == 0x0A:
                bad = []
                for e in writes:
                    atoms = set(a for a, _ in e.idx.deps())
                    extra = {a for a in atoms if a in ai and a not in ("ds", "dx")}
                    if extra or not {"ds", "dx"} <= atoms:
                        bad.append((e, atoms))
                if writes and not bad:
                    chk.ok("C18.R4", f"{unit}:mem", f"{len(writes)} store sites, every address depends on DS and DX (and the byte counter) only")
                    chk.ok("C18.R5", f"{unit}:buffer", "buffer addressed through DS:DX")
                elif not writes:
                    chk.violation("C18.R4", unit, "no-store", "AH=0Ah stores nothing", where)
                for e, atoms in bad:
                    chk.violation("C18.R5", unit, f"buffer-address-uses-{'+'.join(sorted(a for a in atoms if a in ai))}",
                                  f"AH=0Ah stores at an address depending on {sorted(atoms)}; the buffer is at DS:DX", f"{where}:{e.line}")
            else:
                if writes or mem.havoc is not None:
                    chk.violation("C18.R4", unit, "memory-written", f"{n} AH={ah:02X}h writes memory", where)
                else:
                    chk.ok("C18.R4", f"{unit}:mem", "no memory write")
            if n == "int_13" and ah == 0x13:
                for e in reads:
                    atoms = set(a for a, _ in e.idx.deps())
                    regs_used = sorted(a for a in atoms if a in ai)
                    if {"es", "bp"} <= atoms and not (atoms & {"ds", "ss", "cs"}):
                        chk.ok("C18.R5", f"{unit}:string", f"string read at an address depending on {regs_used}")
                    else:
                        chk.violation("C18.R5", unit, f"string-address-uses-{'+'.join(regs_used)}",
                                      f"AH=13h reads the string at an address depending on {regs_used}; it is at ES:BP", f"{where}:{e.line}")
                if not reads:
                    closures = any(s_[0] == "assign" and s_[2][0] == "agg" and isinstance(s_[2][1], dict) and s_[2][1].get("k") == "closure"
                                   for bb in f["blocks"] for s_ in bb["stmts"])
                    touches_mem = any(isinstance(e_, list) and e_[0] == "f" and len(e_) > 2 and e_[2] == "mem"
                                      for bb in f["blocks"] for s_ in bb["stmts"] if s_[0] == "assign"
                                      for pl_ in ([s_[2][1]] if s_[2][0] in ("ref", "use") and isinstance(s_[2][1], dict) else
                                                  [s_[2][1][1]] if s_[2][0] == "use" and isinstance(s_[2][1], list) and s_[2][1][0] in ("copy", "move") else [])
                                      for e_ in pl_.get("p", []))
                    if closures:
                        # the bytes may be read inside a closure handed to an iterator adaptor: not followed
                        chk.undecided_("C18.R5", f"{unit}:string", "memory is read inside a closure (iterator adaptor): address not followed")
                    elif touches_mem:
                        chk.undecided_("C18.R5", f"{unit}:string", "the machine's memory is borrowed (slices / iterators), not indexed byte by byte: address not followed")
                    else:
                        chk.violation("C18.R5", unit, "no-string-read", "AH=13h reads no memory", where)
    # int_13 cannot modify the machine at all
    s13 = sigs.get(fns["int_13"]["name"])
    if s13 and s13["inputs"] and s13["inputs"][0].startswith("&") and not s13["inputs"][0].startswith("&mut"):
        chk.ok("C18.R4", "int_13:sig", f"takes {s13['inputs'][0]}: no register, flag or memory byte can change (VM is Freeze, no unsafe)")
    else:
        chk.violation("C18.R4", "int_13", "takes-mut", "int_13 takes the machine mutably", file_of(fns["int_13"]))
    # loop bounds of int 10h: origins of the Range ends
    f13 = fns["int_13"]
    d13 = Defs(f13)
    bounds = []
    for bi, bb in enumerate(f13["blocks"]):
        for s in bb["stmts"]:
            if s[0] == "assign" and s[2][0] == "agg" and isinstance(s[2][1], dict) and s[2][1].get("vname") == "Range":
                end = s[2][2][1]
                o = origin(d13, end)
                desc = None
                if o[0] == "place":
                    fl = [e[2] for e in o[1]["p"] if isinstance(e, list) and e[0] == "f"]
                    desc = fl[-1] if fl else None
                elif o[0] == "call" and (o[1][1].get("def") or "").endswith("get_byte_reg"):
                    ko = origin(d13, o[1][2][1])
                    if ko[0] == "rvalue" and ko[1][0] == "agg":
                        desc = ko[1][1].get("vname", "").lower()
                bounds.append((s[3], desc))
    got = sorted(d for _, d in bounds if d)
    want_b = ["cx", "cx", "dl"]
    rest = list(want_b)
    sub = True
    for g in got:
        if g in rest:
            rest.remove(g)
        else:
            sub = False
    if got == want_b:
        chk.ok("C18.R5", "int_13:loop-bounds", "AH=0Ah repeats CX times; AH=13h pads DL times and copies CX bytes")
    elif sub:
        # fewer register-bounded ranges than documented loops: some loop is bounded another way (a slice, an iterator)
        chk.undecided_("C18.R5", "int_13:loop-bounds", f"only the ranges bounded by {got} are visible; another loop is not a counted range")
    else:
        chk.violation("C18.R5", "int_13", f"loop-bounds:{','.join(got)}", f"the three output loops of int 10h are bounded by {got}; documented: CX (0Ah), DL and CX (13h)", file_of(f13))
    # ---------------- R2: capacity
    f21 = fns["int_21"]
    d21 = Defs(f21)
    cfg21 = M.CFG(f21)
    loops21 = natural_loops(cfg21)
    acc = mem_accesses(f21, d21)
    loads = [(b, s) for b, s, k, pl in acc if k == "r"]
    stores = [(b, s) for b, s, k, pl in acc if k == "w"]
    cap_seeds = {s[1]["l"] for b, s in loads}
    cap_dep = may_depend(f21, cap_seeds)
    # the input: what read_line delivers, read here or in a local helper (its result and whatever it writes through)
    from driver_rules import local_closure

    def reads_input(t):
        d = t[1].get("def") or ""
        if d.endswith("read_line"):
            return True
        g = P.fns.get(t[1].get("id")) if t[1].get("local") else None
        return g is not None and any((tt[1].get("def") or "").endswith("read_line") for f2 in local_closure(P, g) for _, tt in M.calls_in(f2))
    rl = [(bi, t) for bi, t in M.calls_in(f21) if reads_input(t)]
    in_seeds = set()
    for bi, t in rl:
        in_seeds.add(t[3]["l"])
        for a in (t[2][1:] if (t[1].get("def") or "").endswith("read_line") else t[2]):
            for l in operand_locals(a):
                d = d21.single(l)
                for _ in range(4):
                    if d and d[0] == "assign" and d[2][2][0] == "ref":
                        l = d[2][2][1]["l"]
                        d = d21.single(l)
                in_seeds.add(l)
    in_dep = may_depend(f21, in_seeds)
    cd = cfg21.control_deps
    where21 = file_of(f21)

    def branch_deps(block):
        """(capacity?, input?) over the branches the block is control dependent on"""
        cap = inp = False
        for a in cd.get(block, ()):
            t = M.term(f21["blocks"][a])
            if t[0] != "switch":
                continue
            ls = operand_locals(t[1])
            if ls & cap_dep:
                cap = True
            if ls & in_dep:
                inp = True
        return cap, inp

    loop_stores = [(b, s) for b, s in stores if any(b in body for body in loops21.values())]
    flat_stores = [(b, s) for b, s in stores if not any(b in body for body in loops21.values())]
    if not loads:
        chk.violation("C18.R2", "int_21", "capacity-never-read", "int 21h AH=0Ah never reads the buffer's capacity byte", where21)
    for b, s in loop_stores:
        cap, inp = branch_deps(b)
        vl = set()
        for o in [s[2][1]] if s[2][0] == "use" else []:
            vl |= operand_locals(o)
        if cap:
            chk.ok("C18.R2", f"copy-loop@bb{b}", "the copying store is control dependent on a branch that depends on the capacity byte")
        else:
            chk.violation("C18.R2", "int_21", "copy-loop-ignores-capacity",
                          "AH=0Ah: the loop that stores input bytes is bounded by the input length only (no branch it depends on reads the capacity byte "
                          "mem[DS:DX]): a line longer than the declared capacity is copied in full past the buffer", f"{where21}:{s[3]}",
                          witness="capacity byte 2, input line 'abcdefgh': 9 bytes stored at DS:DX+2..")
    if not loop_stores:
        chk.undecided_("C18.R2", "copy-loop", "no store to memory inside a loop in int_21")
    cnt_ok = None
    for b, s in flat_stores:
        cap, inp = branch_deps(b)
        vl = rvalue_locals(s[2])
        if vl & cap_dep:
            cap = True
        if vl & in_dep:
            inp = True
        if cap and inp:
            cnt_ok = True
        elif cnt_ok is None:
            cnt_ok = False
    if cnt_ok:
        chk.ok("C18.R2", "count-byte", "the stored count depends on both the capacity byte and the input length")
    elif cnt_ok is False:
        chk.violation("C18.R2", "int_21", "count-ignores-capacity-or-input", "AH=0Ah: the stored count does not depend on both the capacity and the input", where21)
    # ---------------- R3: dispatch over all 256 AH values
    dd = Defs(drv)
    cfgd = M.CFG(drv)
    sb, arms, otherwise = state_switch(ctx, drv)
    wd = file_of(drv)
    int_sw = None
    if sb is not None and "INT" in arms:
        t = M.term(drv["blocks"][arms["INT"]])
        if t[0] == "switch":
            int_sw = t
    loopsd = natural_loops(cfgd)
    headd = None
    if sb is not None:
        ins = [(h, b) for h, b in loopsd.items() if sb in b]
        if ins:
            headd = max(ins, key=lambda x: len(x[1]))[0]
    if int_sw is None or headd is None:
        chk.undecided_("C18.R3", "driver", "INT dispatch not identified")
    else:
        driver_ints = {v for v, _ in int_sw[2]}
        for num, svc in ((0x10, "int_13"), (0x21, "int_21")):
            tgt = next((tg for v, tg in int_sw[2] if v == num), None)
            f = fns[svc]
            if tgt is None:
                chk.violation("C18.R3", "driver", f"int-{num:02X}h-missing", f"INT {num:02X}h has no arm", wd)
                continue
            others = set()
            for v, tg in int_sw[2]:
                if v != num:
                    others |= cfgd.reachable_from(tg, avoid={headd})
            arm = cfgd.reachable_from(tgt, avoid={headd}) - others
            svc_calls = [b for b in arm if M.term(drv["blocks"][b])[0] == "call" and (M.term(drv["blocks"][b])[1].get("def") or "").endswith("::" + svc_name[svc])]
            if not svc_calls:
                chk.violation("C18.R3", "driver", f"{svc}-not-called", f"the INT {num:02X}h arm never calls {svc}", wd)
                continue
            # the AH local: argument of the service call
            call_t = M.term(drv["blocks"][svc_calls[0]])
            ah_arg = call_t[2][1]
            o = origin(dd, ah_arg)
            ah_local = None
            if o[0] == "call" and (o[1][1].get("def") or "").endswith("get_byte_reg"):
                ah_local = o[1][3]["l"]
                ko = origin(dd, o[1][2][1])
                reg = ko[1][1].get("vname") if ko[0] == "rvalue" and ko[1][0] == "agg" else None
                if reg == "AH":
                    chk.ok("C18.R3", f"{svc}:selector", "function selector read with get_byte_reg(vm, AH)")
                else:
                    chk.violation("C18.R3", "driver", f"{svc}-selector-{reg}", f"INT {num:02X}h selects its function from {reg}, not AH", wd)
            typed_sel = False
            if ah_local is None:
                # the selector may be a value computed from the AH byte (a service enum): follow it on symbolic terms
                from symterm import SymFlow, subterms
                Fd = SymFlow(drv)
                ent, _, _ = Fd.run(headd, stop={headd})
                breg = P.find_adt("util::data_util::ByteReg")
                ah_i = next((i for i, v_ in enumerate(breg["variants"]) if v_["name"] == "AH"), None) if breg else None
                regs_read = set()
                if svc_calls[0] in ent:
                    for x in subterms(Fd.call_args(ent[svc_calls[0]], svc_calls[0])[1]):
                        if x[0] == "call" and x[1].endswith("get_byte_reg") and len(x[2]) > 1 and x[2][1][0] == "agg":
                            regs_read.add(x[2][1][2])
                if regs_read == {ah_i} and f["argc"] >= 2 and f["locals"][2]["ty"] != "u8":
                    chk.ok("C18.R3", f"{svc}:selector", "function selector computed from get_byte_reg(vm, AH)")
                    typed_sel = True
                elif regs_read and regs_read != {ah_i}:
                    chk.violation("C18.R3", "driver", f"{svc}-selector-other-register", f"INT {num:02X}h selects its function from byte register #{sorted(regs_read)}, not AH", wd)
                    continue
                else:
                    chk.undecided_("C18.R3", f"{svc}:selector", "AH argument not traced to get_byte_reg")
                    continue
            start = None if typed_sel else next(b for b in arm if M.term(drv["blocks"][b])[0] == "call" and M.term(drv["blocks"][b])[3]["l"] == ah_local)
            accepted = set()
            rejected_clean = set()
            sdefs = Defs(f)
            effects = service_effects(f, sdefs, P)
            handled = set()
            ah_param = 2  # second parameter
            for i, l in enumerate(f["locals"][1:f["argc"] + 1], 1):
                if l["ty"] == "u8":
                    ah_param = i
            typed = f["argc"] >= 2 and f["locals"][2]["ty"] != "u8"
            if typed:
                # the service takes a value of its own selector type: the set of accepted bytes is where the conversion
                # from the AH byte yields a value (V on the conversion, all 256 bytes); the service's match over that
                # type is exhaustive by construction (the compiler checks it)
                accepted = {v for v in range(256) if service_selector(ctx, f, v) is not None}
                doc = DOC[svc]
                fmt = lambda s_: "{" + ",".join(f"{x:02X}h" for x in sorted(s_)) + "}"
                if accepted == doc:
                    chk.ok("C18.R3", f"{svc}:driver-accepts", f"the selector conversion yields a service for exactly {fmt(doc)} (256 values decided)")
                    chk.ok("C18.R3", f"{svc}:service-handles", "the service matches on the selector type (exhaustive)")
                elif accepted:
                    chk.violation("C18.R3", "driver", f"{svc}-accepted:{fmt(accepted ^ doc)}",
                                  f"INT {num:02X}h: the selector conversion accepts AH in {fmt(accepted)}, documented {fmt(doc)}", wd)
                else:
                    chk.undecided_("C18.R3", f"{svc}:driver-accepts", "selector conversion not found")
                chk.undecided_("C18.R3", f"{svc}:unsupported", "rejecting arm of a typed selector not followed")
                continue
            for v in range(256):
                sp = Spec(drv, ah_local, v, dd)
                r = sp.reach(M.succs(drv["blocks"][start])[0], stop={headd})
                if set(svc_calls) & r:
                    accepted.add(v)
                else:
                    prints = any(M.term(drv["blocks"][b])[0] == "call" and (M.term(drv["blocks"][b])[1].get("def") or "").endswith("_print") for b in r)
                    returns = any(M.term(drv["blocks"][b])[0] == "return" for b in r)
                    if prints and returns and headd not in r:
                        rejected_clean.add(v)
                sp2 = Spec(f, ah_param, v, sdefs)
                if sp2.reach(0) & effects:
                    handled.add(v)
            doc = DOC[svc]
            fmt = lambda s: "{" + ",".join(f"{x:02X}h" for x in sorted(s)) + "}"
            if accepted == doc:
                chk.ok("C18.R3", f"{svc}:driver-accepts", f"driver lets exactly {fmt(doc)} through (256 values decided)")
            else:
                chk.violation("C18.R3", "driver", f"{svc}-accepted:{fmt(accepted ^ doc)}",
                              f"INT {num:02X}h: the driver accepts AH in {fmt(accepted)}, documented {fmt(doc)}", wd)
            if handled == doc:
                chk.ok("C18.R3", f"{svc}:service-handles", f"{svc} acts on exactly {fmt(doc)}")
            else:
                chk.violation("C18.R3", svc, f"handled:{fmt(handled ^ doc)}",
                              f"{svc} acts on AH in {fmt(handled)}, documented {fmt(doc)} (a value the driver lets through but the service ignores does nothing silently; a value the service handles but the driver blocks is unreachable)", file_of(f))
            rest = set(range(256)) - accepted
            if rest == rejected_clean:
                chk.ok("C18.R3", f"{svc}:unsupported", f"all {len(rest)} other AH values print a diagnostic and return without calling the service")
            else:
                chk.violation("C18.R3", "driver", f"{svc}-unsupported-not-stopped:{len(rest - rejected_clean)}",
                              f"INT {num:02X}h: {len(rest - rejected_clean)} unsupported AH values (e.g. {min(rest - rejected_clean):02X}h) do not end in a printed diagnostic and return", wd)
        # ---------------- R6
        want = {0, 3, 0x10, 0x21}
        if driver_ints == want:
            chk.ok("C18.R6", "driver:int-arms", "driver dispatches INT {0,3,10h,21h}; anything else is an internal error")
        else:
            chk.violation("C18.R6", "driver", f"int-arms:{sorted(driver_ints ^ want)}", f"driver has arms for INT {sorted(driver_ints)}; the interpreter can return {sorted(want)}", wd)
        try:
            from rules_c10 import int_constants
            from asm import GramEval
            E = GramEval(ctx.gram("preprocessor"))
            ints = int_constants(E, "int")
            if ints == {3, 0x10, 0x21}:
                chk.ok("C18.R6", "assembler:int-set", "assembler accepts int 3, 10h, 21h only")
            else:
                chk.violation("C18.R6", "assembler", f"int-set:{sorted(ints)}", f"assembler accepts int {sorted(ints)}", ctx.gram("preprocessor").g["file"])
        except Exception as e:  # noqa
            chk.undecided_("C18.R6", "assembler:int-set", f"{type(e).__name__}: {e}")
    written_characters_rule(ctx, chk, fns)


DECODERS = re.compile(r"from_utf8|from_utf16|from_utf8_lossy|char::from_u32|char::from_digit|to_ascii|escape_")


def written_characters_rule(ctx, chk, fns):
    """R7 (value flow on terms): every value a console service formats for output and that comes from the machine
    (a memory byte, a byte register) must reach the formatter as `byte as char` -- one character per byte, code = byte.
    A formatted value of integer type prints digits; a text obtained by decoding machine bytes (UTF-8/UTF-16 decoders)
    merges or replaces bytes.  Formatted values that do not depend on the machine (I/O error texts) are not judged;
    a `char` whose origin is not visible in the function (closure parameter, helper result) is undecided."""
    from symterm import SymFlow, subterms, strip, show
    from driver_rules import local_closure
    P = ctx.program
    for n, f in fns.items():
        for g in local_closure(P, f):
            if not g["name"].startswith("driver::interrupts::"):
                continue
            F = SymFlow(g)
            entry, _, _ = F.run(0)
            is_closure = "{closure" in g["name"]
            for bi, t in M.calls_in(g):
                d = t[1].get("def") or ""
                if not re.search(r"Argument::<'_>::new_\w+$|Argument::new_\w+$", d) or bi not in entry or not t[2]:
                    continue
                a = F.call_args(entry[bi], bi)[0]
                core = strip(a)
                ty = (t[2][0][1].get("ty") or g["locals"][t[2][0][1]["l"]]["ty"] or "").lstrip("&").strip() if t[2][0][0] in ("copy", "move") else "?"
                subs = list(subterms(a))
                machine = any((x[0] == "call" and re.search(r"get_byte_reg$|get_word_reg$", x[1])) or
                              (x[0] == "proj" and x[2][0] == "idx") or (x[0] == "init" and x[1] == 1) for x in subs)
                from_input_err = any(x[0] == "call" and x[1].endswith("read_line") for x in subs) and not any(x[0] == "init" for x in subs)
                unit = f"{g['name'].split('::', 2)[-1]}@bb{bi}"
                where = f"{file_of(g)}:{g['blocks'][bi]['term']['line']}"
                if from_input_err or not machine:
                    continue
                if core[0] == "cast" and core[1] == "char" and (
                        (core[2][0] == "call" and core[2][1].endswith("get_byte_reg")) or (core[2][0] == "proj" and core[2][2][0] == "idx")):
                    chk.ok("C18.R7", unit, f"writes ({show(core[2])[:60]}) as char")
                elif M.int_type(ty) and ty not in ("char", "bool"):
                    chk.violation("C18.R7", n, f"byte-printed-as-number:{ty}", f"{g['name']} formats a machine value of type {ty}: its decimal digits are written instead of the character with that code", where)
                elif any(x[0] == "call" and DECODERS.search(x[1]) for x in subs):
                    dec = next(x[1] for x in subs if x[0] == "call" and DECODERS.search(x[1]))
                    chk.violation("C18.R7", n, "bytes-decoded-not-mapped", f"{g['name']} writes the result of {dec.split('<')[0]} over machine bytes: multi-byte sequences are merged and ill-formed bytes replaced, "
                                  "so the output is not one character per byte (the documented service writes exactly the bytes' characters)", where,
                                  witness="memory bytes C3 A9 are written as one character U+00E9; a lone E9 as U+FFFD")
                else:
                    chk.undecided_("C18.R7", unit, f"formatted value of type {ty} whose origin is not a visible `byte as char`: {show(core)[:80]}")
    successful_read_rule(ctx, chk, fns)


def successful_read_rule(ctx, chk, fns):
    """R8.  Partition "read_line returned Ok" (whatever the count, so end of input = Ok(0) is inside): AH=1 must leave an
    AL that does not depend on the old AX at all (the first input byte, or 0 at end of input), AH=0Ah must have written
    the count byte DS:DX+1 on every path (its final value may not depend on the cell's previous content).  Only a
    failing read (Err) may leave them as they were."""
    P = ctx.program
    f = fns.get("int_21")
    if f is None:
        return
    where = file_of(f)
    ai = arch_index(P)
    for ah in (0x01, 0x0A):
        I = Interp(P)
        I.assume_read_ok = True
        st = machine_state(I, P)
        st.frames[0]["$stored"] = IntV.const("bool", 0)
        unit = f"int_21:AH={ah:02X}h[read ok]"
        sel = service_selector(ctx, f, ah)
        if sel is None:
            chk.undecided_("C18.R8", unit, "selector argument not analysable")
            continue
        try:
            I.run_fn(f, [RefV((0, "vm", ())), sel], st)
        except Unsupported as e:
            chk.undecided_("C18.R8", unit, str(e))
            continue
        if st.dead:
            chk.undecided_("C18.R8", unit, "no returning path")
            continue
        vm = st.frames[0]["vm"]
        mem = st.frames[0]["mem"]
        ax = vm.fields[0].fields[ai["ax"]]
        if ah == 0x01:
            old = set()
            if ax.kind == "int":
                for i in range(8):
                    old |= {(a, b_) for a, b_ in bits_all_deps(ax.bits[i:i + 1]) if a == "ax"}
            if ax.kind != "int":
                chk.undecided_("C18.R8", unit, "AX not tracked")
            elif old:
                chk.violation("C18.R8", "int_21", "al-stale-after-successful-read",
                              "AH=1: on a path where reading succeeded AL still depends on its previous value: some successful read (end of input returns Ok(0)) "
                              "leaves AL as it was instead of storing the byte read / 0", where, witness="stdin at end of input, AL = 41h before the call")
            else:
                chk.ok("C18.R8", unit, "AL defined by the input alone")
        else:
            g = st.frames[0].get("$stored")
            if g is None or g.kind != "int":
                chk.undecided_("C18.R8", unit, "ghost not tracked")
            elif g.is_const() and g.lo == 1:
                chk.ok("C18.R8", unit, "every returning path of a successful read stores into the buffer (count byte)")
            elif g.is_const() and g.lo == 0:
                chk.violation("C18.R8", "int_21", "count-never-stored", "AH=0Ah never stores the count byte", where)
            else:
                chk.violation("C18.R8", "int_21", "count-stale-after-successful-read",
                              "AH=0Ah: some path on which reading succeeded returns without storing anything into the buffer: at end of input (Ok(0)) "
                              "the count byte at DS:DX+1 keeps the value of an earlier call", where, witness="stdin at end of input")
