"""CFG rules on CMDDriver::run (engine P): the instruction loop, its index variable and the State dispatch."""
import re
import mir as M


def find_parse_call(drv, suffix="Interpreter::parse"):
    for bi, t in M.calls_in(drv):
        if (t[1].get("def") or "").endswith(suffix):
            return bi, t
    return None, None


def origin_local(drv, bi, tmp, depth=8):
    """follow `tmp = copy X` backwards through straight-line predecessors"""
    cfg = M.CFG(drv)
    b = bi
    for _ in range(depth):
        for s in reversed(drv["blocks"][b]["stmts"]):
            if s[0] == "assign" and s[1]["l"] == tmp and not s[1]["p"]:
                if s[2][0] == "use" and s[2][1][0] in ("copy", "move") and not s[2][1][1]["p"]:
                    return s[2][1][1]["l"]
                return tmp
        preds = cfg.pred[b]
        if len(preds) != 1:
            return tmp
        b = preds[0]
    return tmp


def idx_local(drv):
    """the local passed as `current` (argument after &self) to Interpreter::parse"""
    bi, t = find_parse_call(drv)
    if t is None or len(t[2]) < 2:
        return None
    a = t[2][1]
    if a[0] not in ("copy", "move") or a[1]["p"]:
        return None
    return origin_local(drv, bi, a[1]["l"])


def state_switch(ctx, drv):
    """block that switches on the discriminant of the State returned by Interpreter::parse: {variant name: target}"""
    P = ctx.program
    sadt = P.adts.get("util::interpreter_util::State")
    names = {i: v["name"] for i, v in enumerate(sadt["variants"])}
    for bi, bb in enumerate(drv["blocks"]):
        t = M.term(bb)
        if t[0] != "switch":
            continue
        # discriminant read of a State-typed place in this block
        for s in bb["stmts"]:
            if s[0] == "assign" and s[2][0] == "disc" and re.search(r"(^|::)State$", s[2][1]["ty"]):
                arms = {names.get(v, v): tgt for v, tgt in t[2]}
                return bi, arms, t[3]
    return None, None, None


def assigns_local(drv, blocks, local):
    out = []
    for b in blocks:
        for s in drv["blocks"][b]["stmts"]:
            if s[0] == "assign" and s[1]["l"] == local and not s[1]["p"]:
                out.append((b, s))
    return out


def repeat_arm_rule(ctx, drv):
    cfg = M.CFG(drv)
    pb, pt = find_parse_call(drv)
    if pb is None:
        return None, "no call to Interpreter::parse"
    idx = idx_local(drv)
    sb, arms, otherwise = state_switch(ctx, drv)
    if sb is None or idx is None:
        return None, "State dispatch or index variable not identified"
    tgt = arms.get("REPEAT", otherwise)
    # blocks on paths from the REPEAT arm back to the parse call (without passing the switch again)
    reach = cfg.reachable_from(tgt, avoid={sb})
    if pb not in reach:
        return False, "from the REPEAT arm the interpreter call is never reached again (no re-issue)"
    # restrict to blocks that can reach the parse call
    region = [b for b in reach if pb in cfg.reachable_from(b, avoid={sb})]
    region_before = [b for b in region if b != pb]
    ass = assigns_local(drv, region_before, idx)
    if ass:
        return False, f"the index variable is assigned on the way from the REPEAT arm back to the interpreter call (bb{ass[0][0]})"
    return True, f"REPEAT arm (bb{tgt}) returns to Interpreter::parse without assigning the index variable _{idx}"


def def_of(fn, bi, local, depth=10):
    """the defining statement (block, stmt) of `local` found by walking backwards through straight-line predecessors"""
    cfg = M.CFG(fn)
    b = bi
    for _ in range(depth):
        for s in reversed(fn["blocks"][b]["stmts"]):
            if s[0] == "assign" and s[1]["l"] == local and not s[1]["p"]:
                return b, s
        preds = cfg.pred[b]
        if len(preds) != 1:
            return None, None
        b = preds[0]
        # a call terminator defining the local
        t = M.term(fn["blocks"][b])
        if t[0] == "call" and t[3]["l"] == local and not t[3]["p"]:
            return b, ("call", t)
    return None, None


def trace_value(fn, bi, operand, depth=12):
    """follow copies/moves of an operand back to its producing rvalue or call: returns a list describing the chain"""
    chain = []
    cur_b = bi
    op = operand
    for _ in range(depth):
        if op[0] == "const":
            chain.append(("const", op[1]))
            return chain
        pl = op[1]
        if pl["p"]:
            chain.append(("place", pl))
            if len(pl["p"]) == 1 and pl["p"][0] != "deref" and pl["p"][0][0] == "f" and pl["p"][0][1] == 0:
                b, s = def_of(fn, cur_b, pl["l"])
                if s is not None and s[0] != "call" and s[2][0] == "bin" and s[2][1].endswith("O"):
                    chain.append(("rvalue", s[2]))
                    return chain
            # deref of a local: continue with that local
            if pl["p"] == ["deref"]:
                b, s = def_of(fn, cur_b, pl["l"])
                if s is None:
                    return chain
                if s[0] == "call":
                    chain.append(("call", s[1][1].get("def") or "indirect", s[1]))
                    return chain
                cur_b = b
                rv = s[2]
                if rv[0] in ("use",):
                    op = rv[1]
                    continue
                chain.append(("rvalue", rv))
                return chain
            return chain
        b, s = def_of(fn, cur_b, pl["l"])
        if s is None:
            chain.append(("local", pl["l"]))
            return chain
        if s[0] == "call":
            chain.append(("call", s[1][1].get("def") or "indirect", s[1]))
            return chain
        cur_b = b
        rv = s[2]
        if rv[0] == "use":
            op = rv[1]
            continue
        if rv[0] == "ref":
            chain.append(("ref", rv[1]))
            if not rv[1]["p"] or rv[1]["p"] == ["deref"]:
                op = ["copy", {"l": rv[1]["l"], "p": [], "ty": rv[1]["ty"]}]  # (re)borrow: same value
                continue
            return chain
        chain.append(("rvalue", rv))
        if rv[0] == "bin" and rv[1] in ("AddO", "SubO", "Add", "Sub"):
            return chain
        if rv[0] == "use":
            continue
        return chain
    return chain


def deep_trace(fn, bi, operand, through=("deref", "clone", "borrow", "as_ref", "as_str"), limit=6):
    """trace_value, continuing through calls that only re-borrow / copy their first argument"""
    chain = []
    b, op = bi, operand
    for _ in range(limit):
        ch = trace_value(fn, b, op)
        chain.extend(ch)
        if ch and ch[-1][0] == "call" and any(ch[-1][1].endswith(x) for x in through):
            t = ch[-1][2]
            b = next((i for i, tt in M.calls_in(fn) if tt is t), None)
            if b is None or not t[2]:
                break
            op = t[2][0]
            continue
        break
    return chain
